import KG.Base.Json
import KG.Gen.C13
/-!
# Model of sharding and of the leadership guard of the limiter server (C13)

Mirrors, function by function,
* `hash/fnv` `New32a`/`Write`/`Sum32` and `pkg/ratelimiter/util/shard.go` (`GetShardID`),
* `pkg/ratelimiter/clientsets/clientsets.go` (`ShardIDFor`, `ClientFor`, the part of `sync` that copies the
  server's `RateLimitServerInfo` into `shardCount` / `leaderEndpoints`),
* `pkg/ratelimiter/limiter/elector/leader_elector.go` (`IsLeader`, `GetLeaders`, `setLeader`, `startLeading`,
  `stopLeading`),
* `pkg/ratelimiter/limiter/ratelimter.go` (`UpdateRateLimitConditionStatus`, `DoAcquire`,
  `UpstreamConditionHandler`, `deleteCondition`, `startLeading`, `syncUpstreamClustersForShard`, `stopLeading`,
  `leaderCheck`, `ServerInfo`) over an *abstract* store (`StoreOps`),
* `pkg/ratelimiter/store/k8s/cache_store.go` (`Save`'s shard test, `Load`'s shard filter).

Strings are byte lists; Go `int` is `Int` (64-bit platform: `int(uint32)` is exact); `uint32(x)` of an `int`
keeps the low 32 bits (`toU32`); `int32(x)` likewise, signed (`toI32`); a Go map is an association list with
function-like update (`AList`). A runtime panic (integer division by zero in `GetShardID`) is an `Except` error.
-/
namespace KG.Model.Shard
open KG

/-! ## FNV-1a 32 and the shard function -/

def offset32 : UInt32 := UInt32.ofNat KG.Gen.C13.fnvOffset32
def prime32 : UInt32 := UInt32.ofNat KG.Gen.C13.fnvPrime32

/-- one iteration of `sum32a.Write`: `hash ^= sum32a(c); hash *= prime32` (arithmetic modulo 2^32) -/
def fnvStep (h : UInt32) (b : UInt8) : UInt32 := (h ^^^ b.toUInt32) * prime32

/-- `h := fnv.New32a(); h.Write([]byte(value)); h.Sum32()` -/
def fnv32a (s : Str) : UInt32 := s.foldl fnvStep offset32

/-- Go `uint32(x)` for an `int` x: the low 32 bits. -/
def toU32 (x : Int) : Nat := (x % 4294967296).toNat

/-- Go `int32(x)` for an `int` x: the low 32 bits, two's complement. -/
def toI32 (x : Int) : Int :=
  let r := x % 4294967296
  if r < 2147483648 then r else r - 4294967296

/-- `util.GetShardID(value, shardCount)`: `int(h.Sum32() % uint32(shardCount))`; the `%` panics when
    `uint32(shardCount)` is 0, i.e. when `shardCount` is a multiple of 2^32 (0 included). -/
def getShardID (value : Str) (shardCount : Int) : Except String Int :=
  if toU32 shardCount = 0 then .error "runtime error: integer divide by zero"
  else .ok (Int.ofNat ((fnv32a value).toNat % toU32 shardCount))

/-! ## Go maps with `int` keys -/

abbrev AList (β : Type) := List (Int × β)

namespace AList
variable {β : Type}

/-- `m[k]` (comma-ok form) -/
def get : AList β → Int → Option β
  | [], _ => none
  | (k', v) :: r, k => if k' = k then some v else get r k

def del (l : AList β) (k : Int) : AList β := l.filter (fun p => !(p.1 == k))

/-- `m[k] = v` -/
def set (l : AList β) (k : Int) (v : β) : AList β := (k, v) :: del l k

def keys (l : AList β) : List Int := l.map (·.1)

end AList

/-! ## The gateway side (`clientSets`) -/

structure Gw where
  shardCount : Int
  leaderEndpoints : AList Str
deriving Repr

inductive GwRes (α : Type)
  | panic                     -- integer divide by zero
  | notSynced                 -- "shard count not synced"
  | noLeader (shard : Int)    -- "server shard %v has no leader"
  | ok (a : α)
deriving Repr, DecidableEq

/-- `clientSets.ShardIDFor` -/
def shardIDFor (g : Gw) (cluster : Str) : GwRes Int :=
  if g.shardCount = 0 then .notSynced
  else match getShardID cluster g.shardCount with
    | .error _ => .panic
    | .ok s => .ok s

/-- `clientSets.ClientFor`: the server whose client is returned (`getOrCreateClient(server)`). -/
def clientFor (g : Gw) (cluster : Str) : GwRes Str :=
  match shardIDFor g cluster with
  | .panic => .panic
  | .notSynced => .notSynced
  | .noLeader s => .noLeader s
  | .ok shard =>
    match g.leaderEndpoints.get shard with
    | none => .noLeader shard
    | some server => .ok server

/-- `proxyv1alpha1.EndpointInfo` (`ShardID int32`, `Leader string`) -/
structure Endpoint where
  shardID : Int
  leader : Str
deriving Repr, DecidableEq

/-- `proxyv1alpha1.RateLimitServerInfo` (`ShardCount int32`, `Endpoints`) -/
structure ServerInfo where
  shardCount : Int
  endpoints : List Endpoint
deriving Repr

/-- one iteration of the loop over `serverInfo.Endpoints` in `clientSets.sync` -/
def gwSyncStep (le : AList Str) (ep : Endpoint) : AList Str :=
  let oldLeader := (le.get ep.shardID).getD []
  if oldLeader ≠ ep.leader then le.set ep.shardID ep.leader else le

/-- `clientSets.sync` after a successful `getServerInfo`: `c.shardCount = int(serverInfo.ShardCount)` and the
    endpoint loop. -/
def gwSync (info : ServerInfo) (g : Gw) : Gw :=
  { shardCount := info.shardCount, leaderEndpoints := info.endpoints.foldl gwSyncStep g.leaderEndpoints }

/-! ## The gateway's callers: where a request is sent

`reconcile.reconcile` (the allocate loop, one report per period) and `globalCounterManager.doAcquire` (the count
path) both start with `client, err := clientSets.ClientFor(cluster)` and send THIS request with THAT client: the
destination of a request is `clientFor` of the gateway's state at the moment it is issued; nothing is remembered
between requests. A gateway history is a list of syncs (from some server's `ServerInfo`) and requests. -/

inductive GOp
  | sync (info : ServerInfo)      -- clientSets.sync got this ServerInfo
  | request (u : Str)             -- one allocate report or one acquire for upstream u
deriving Repr

/-- where a request for upstream `u` goes (or why none is sent) -/
def requestDest (g : Gw) (u : Str) : GwRes Str := clientFor g u

def gwStep (g : Gw) : GOp → Gw × Option (Str × GwRes Str)
  | .sync info => (gwSync info g, none)
  | .request u => (g, some (u, requestDest g u))

/-- the gateway after a history, and the destinations of its requests, in order -/
def gwRun : Gw → List GOp → Gw × List (Str × GwRes Str)
  | g, [] => (g, [])
  | g, o :: rest =>
    let r := gwStep g o
    let q := gwRun r.1 rest
    (q.1, match r.2 with | some d => d :: q.2 | none => q.2)

/-! ## The limiter server -/

/-- What the rate limiter needs from a `LimitStore` (any implementation): every function returns the store
    after the call (stores are mutated in place) and what the call answered. `ρ` is the type of answers of the
    served `UpdateRateLimitConditionStatus` / `DoAcquire` bodies. -/
structure StoreOps (σ ρ : Type) where
  /-- `store.NewLimitStore(client, options, shard, shardCount)`; `none` = nil (unknown store type) -/
  newStore : Int → Int → Option σ
  /-- `Load()`; `false` = error -/
  load : σ → σ × Bool
  /-- the body of `UpstreamConditionHandler` after the lister found the cluster: `Get` of the state condition,
      `updateUpstreamStateCondition`, `Save`, `SyncFlowControl`; `some e` = error -/
  syncUpstream : Str → σ → σ × Option String
  /-- `DeleteUpstream(cluster)` -/
  deleteUpstream : Str → σ → σ × Option String
  /-- the body of `UpdateRateLimitConditionStatus` after the store lookup (upstream, instance) -/
  update : Str → Str → σ → σ × ρ
  /-- the body of `DoAcquire` after the store lookup (upstream, instance, tokens) -/
  acquire : Str → Str → Int → σ → σ × ρ
  /-- `limitStore.Delete(upstream, condition.Name)` in `deleteCondition` -/
  deleteCond : Str → Str → σ → σ

/-- A limiter server: `rateLimiter` with its `leaderElector` and the content of the upstream lister.
    `hn`: the shard count is one for which `GetShardID` does not panic (see `getShardID`). -/
structure Srv (σ : Type) where
  me : Str                -- rateLimiter.identity = leaderElector.identity
  n : Int                 -- rateLimiter.shardCount
  hn : toU32 n ≠ 0
  leaders : AList Str     -- leaderElector.leaderInfo (shard ↦ Leader)
  stores : AList σ        -- rateLimiter.limitStoreMap
  lister : List Str       -- names in upstreamController.UpstreamClusterLister()

variable {σ ρ : Type}

/-- `util.GetShardID(u, r.shardCount)` on a server (never panics: `hn`) -/
def shardOf (st : Srv σ) (u : Str) : Int := Int.ofNat ((fnv32a u).toNat % toU32 st.n)

/-- `r.leaderElector.GetLeaders()[shardId].Leader` (zero value "" when absent) -/
def leaderName (st : Srv σ) (s : Int) : Str := (st.leaders.get s).getD []

/-- `leaderElector.IsLeader(shardId)`: `l.leaderInfo[shardId].Leader == l.identity` -/
def isLeader (st : Srv σ) (s : Int) : Bool := leaderName st s == st.me

inductive Reply (ρ : Type)
  /-- `fmt.Errorf("upstream %s, shard %v, leader is %v", upstream, shardId, leader)` -/
  | refused (shard : Int) (leader : Str)
  /-- not leader: `UpstreamConditionHandler` returns nil, `deleteCondition` logs the leader and returns -/
  | skipped (shard : Int) (leader : Str)
  /-- `deleteCondition` of a condition without instance (an upstream state condition): skipped -/
  | skippedNoInstance
  /-- "limit store for upstream %s … shard %v not found" -/
  | noStore (shard : Int)
  /-- served by the store -/
  | served (r : ρ)
  /-- `UpstreamConditionHandler` past the guard and store lookup: its error (none = nil) -/
  | handled (err : Option String)
  /-- `deleteCondition` past the guard -/
  | deleted
  /-- callbacks, lister changes: nothing is answered -/
  | unit
deriving Repr, DecidableEq

/-- `UpdateRateLimitConditionStatus(upstream, condition)`; the only caller passes
    `upstream = condition.Spec.UpstreamCluster` (reportRateLimitConditionStatus). -/
def updateStatus (ops : StoreOps σ ρ) (st : Srv σ) (u inst : Str) : Srv σ × Reply ρ :=
  let shardId := shardOf st u
  if !isLeader st shardId then (st, .refused shardId (leaderName st shardId))
  else match st.stores.get shardId with
    | none => (st, .noStore shardId)
    | some store =>
      let r := ops.update u inst store
      ({ st with stores := st.stores.set shardId r.1 }, .served r.2)

/-- `DoAcquire(upstream, acquireRequest)` -/
def doAcquire (ops : StoreOps σ ρ) (st : Srv σ) (u inst : Str) (tokens : Int) : Srv σ × Reply ρ :=
  let shardId := shardOf st u
  if !isLeader st shardId then (st, .refused shardId (leaderName st shardId))
  else match st.stores.get shardId with
    | none => (st, .noStore shardId)
    | some store =>
      let r := ops.acquire u inst tokens store
      ({ st with stores := st.stores.set shardId r.1 }, .served r.2)

/-- `UpstreamConditionHandler(cluster)` with `cluster.Name = u` -/
def upstreamHandler (ops : StoreOps σ ρ) (st : Srv σ) (u : Str) : Srv σ × Reply ρ :=
  let shardId := shardOf st u
  if !isLeader st shardId then (st, .skipped shardId (leaderName st shardId))
  else match st.stores.get shardId with
    | none => (st, .noStore shardId)
    | some store =>
      let r := if st.lister.contains u then ops.syncUpstream u store else ops.deleteUpstream u store
      ({ st with stores := st.stores.set shardId r.1 }, .handled r.2)

/-- `deleteCondition(limitStore, condition, reason)` where `limitStore = r.limitStoreMap[k]` (the callers iterate
    over the map) and the condition has upstream `u`, name `name`, instance `inst`. -/
def deleteCondition (ops : StoreOps σ ρ) (st : Srv σ) (k : Int) (u name inst : Str) : Srv σ × Reply ρ :=
  match st.stores.get k with
  | none => (st, .noStore k)       -- no such store to iterate over: the call cannot happen
  | some store =>
    let shardId := shardOf st u
    if !isLeader st shardId then (st, .skipped shardId (leaderName st shardId))
    else if inst.isEmpty then (st, .skippedNoInstance)
    else ({ st with stores := st.stores.set k (ops.deleteCond u name store) }, .deleted)

/-- Did `UpstreamConditionHandler` return a non-nil error? -/
def Reply.isErr : Reply ρ → Bool
  | .noStore _ => true
  | .handled (some _) => true
  | _ => false

/-- the loop of `syncUpstreamClustersForShard(shardId)`: the handler for every listed upstream of the shard;
    `false` = an error aborted the loop -/
def syncShard (ops : StoreOps σ ρ) (s : Int) : List Str → Srv σ → Srv σ × Bool
  | [], st => (st, true)
  | u :: us, st =>
    if shardOf st u = s then
      let r := upstreamHandler ops st u
      if r.2.isErr then (r.1, false) else syncShard ops s us r.1
    else syncShard ops s us st

/-- `rateLimiter.stopLeading(shardId)` -/
def stopLeading (st : Srv σ) (s : Int) : Srv σ := { st with stores := st.stores.del s }

/-- `rateLimiter.startLeading(shardId)` -/
def startLeading (ops : StoreOps σ ρ) (st : Srv σ) (s : Int) : Srv σ :=
  match st.stores.get s with
  | some _ => st                                   -- "limit store for shard already exist"
  | none =>
    match ops.newStore s st.n with
    | none => st                                   -- "limit store type not found"
    | some store0 =>
      let l := ops.load store0
      if !l.2 then st                              -- created, Load failed, deleted again
      else
        let r := syncShard ops s st.lister { st with stores := st.stores.set s l.1 }
        if r.2 then r.1 else stopLeading r.1 s

/-- `leaderElector.setLeader(shardId, identity)` (OnNewLeader) -/
def setLeader (st : Srv σ) (s : Int) (id : Str) : Srv σ := { st with leaders := st.leaders.set s id }

/-- `leaderElector.startLeading(shardId)` (OnStartedLeading): `setLeader(shardId, l.identity)`, then the callback -/
def electorStart (ops : StoreOps σ ρ) (st : Srv σ) (s : Int) : Srv σ :=
  startLeading ops (setLeader st s st.me) s

/-- the first half of `leaderElector.stopLeading(shardId)`: forget the leader if it is me — BEFORE the callback -/
def electorStopPre (st : Srv σ) (s : Int) : Srv σ :=
  if leaderName st s == st.me then { st with leaders := st.leaders.del s } else st

/-- `leaderElector.stopLeading(shardId)` (OnStoppedLeading): forget the leader if it is me, then the callback
    (`rateLimiter.stopLeading`). The callback may take long (final flush with retries): `Op.loseBegin` /
    `Op.loseEnd` are its two halves, between which anything else may happen. -/
def electorStop (st : Srv σ) (s : Int) : Srv σ := stopLeading (electorStopPre st s) s

/-- is `shard` led by `me` according to the snapshot `leaders := GetLeaders()`: the snapshot is a Go map
    (one entry per shard), so `for s, leader := range leaders { s == shard && leader.Leader == r.identity }`
    is `leaders[shard]` present with that leader -/
def ledIn (leaders : AList Str) (me : Str) (shard : Int) : Bool := leaders.get shard == some me

/-- first loop of `leaderCheck` over the shards of the snapshot -/
def checkStart (ops : StoreOps σ ρ) (leaders : AList Str) : List Int → Srv σ → Srv σ
  | [], st => st
  | shard :: rest, st =>
    let st' := if ledIn leaders st.me shard then
        (match st.stores.get shard with
         | none => startLeading ops st shard
         | some _ => st)
      else st
    checkStart ops leaders rest st'

/-- `rateLimiter.leaderCheck()` -/
def leaderCheck (ops : StoreOps σ ρ) (st : Srv σ) : Srv σ :=
  let leaders := st.leaders
  let st1 := checkStart ops leaders leaders.keys st
  let leaderToStop := st1.stores.keys.filter (fun shard => !ledIn leaders st.me shard)
  leaderToStop.foldl stopLeading st1

/-- `rateLimiter.ServerInfo()`: `ShardCount = int32(r.shardCount)`, one endpoint per entry of `GetLeaders()`
    (`ShardID` was stored as `int32(shardId)` by `setLeader`). The Go code sorts by `ShardID`; the order is
    irrelevant for everything modelled here. -/
def serverInfo (st : Srv σ) : ServerInfo :=
  { shardCount := toI32 st.n, endpoints := st.leaders.map fun p => { shardID := toI32 p.1, leader := p.2 } }

/-! ## Histories -/

inductive Op
  | gain (s : Int)                       -- client-go OnStartedLeading → leaderElector.startLeading
  | lose (s : Int)                       -- client-go OnStoppedLeading → leaderElector.stopLeading
  | loseBegin (s : Int)                  -- … its first half: the leader table is updated, the callback is entered
  | loseEnd (s : Int)                    -- … its second half: the callback (rateLimiter.stopLeading) completes
  | newLeader (s : Int) (id : Str)       -- client-go OnNewLeader → leaderElector.setLeader
  | leaderCheck                          -- the periodic rateLimiter.sync → leaderCheck
  | listerAdd (u : Str)                  -- the informer cache gains / loses an upstream
  | listerDel (u : Str)
  | clusterUpdate (u : Str)              -- UpstreamConditionHandler
  | allocate (u inst : Str)              -- UpdateRateLimitConditionStatus
  | acquire (u inst : Str) (tokens : Int) -- DoAcquire
  | deleteCond (k : Int) (u name inst : Str) -- deleteCondition on the store of shard k
deriving Repr, DecidableEq

def step (ops : StoreOps σ ρ) (st : Srv σ) : Op → Srv σ × Reply ρ
  | .gain s => (electorStart ops st s, .unit)
  | .lose s => (electorStop st s, .unit)
  | .loseBegin s => (electorStopPre st s, .unit)
  | .loseEnd s => (stopLeading st s, .unit)
  | .newLeader s id => (setLeader st s id, .unit)
  | .leaderCheck => (leaderCheck ops st, .unit)
  | .listerAdd u => ({ st with lister := if st.lister.contains u then st.lister else st.lister ++ [u] }, .unit)
  | .listerDel u => ({ st with lister := st.lister.filter (fun x => !(x == u)) }, .unit)
  | .clusterUpdate u => upstreamHandler ops st u
  | .allocate u inst => updateStatus ops st u inst
  | .acquire u inst t => doAcquire ops st u inst t
  | .deleteCond k u name inst => deleteCondition ops st k u name inst

/-- the state after a history -/
def run (ops : StoreOps σ ρ) (st : Srv σ) (h : List Op) : Srv σ := h.foldl (fun s o => (step ops s o).1) st

/-- `NewRateLimiter`: no leader known, no store -/
def init (me : Str) (n : Int) (hn : toU32 n ≠ 0) (lister : List Str) : Srv σ :=
  { me := me, n := n, hn := hn, leaders := [], stores := [], lister := lister }

/-! ## The k8s store's shard tests (`objectStore.Save`, `objectStore.Load`) -/

/-- `Save`: refuses ("condition %s should be managed by shard %v, not %v") a condition whose upstream hashes to
    another shard, before anything else; otherwise `save` (createOrUpdate + localStore.Save) runs.
    `none` = refused (store unchanged). Panics like `GetShardID`. -/
def k8sSave {κ : Type} (shard n : Int) (save : κ → κ) (upstream : Str) (local_ : κ) : Except String (Option κ) :=
  match getShardID upstream n with
  | .error e => .error e
  | .ok s => if s ≠ shard then .ok none else .ok (some (save local_))

/-- `Load`: of the listed items (by upstream name), the ones saved into the local store. -/
def k8sLoad (shard n : Int) : List Str → Except String (List Str)
  | [] => .ok []
  | u :: rest =>
    match getShardID u n with
    | .error e => .error e
    | .ok s =>
      match k8sLoad shard n rest with
      | .error e => .error e
      | .ok l => if s ≠ shard then .ok l else .ok (u :: l)

/-! ## Stopping a k8s store: `objectStore.Stop`, `stopLimitStoreWithRetry`, the periodic flusher

`NewK8sCacheStore` starts `go wait.Until(store.sync, syncPeriod, store.stopCh)` when `syncPeriod > 0`: the
flusher goroutine writes the store's conditions to the API every period until `stopCh` is closed. `Stop()`
closes `stopCh`, flushes one last time, stops the local store and only then sets `stopped`; a failed final flush
returns the error and `stopLimitStoreWithRetry` tries again (10 attempts, 2 s apart), then gives up. Meanwhile the
store is already out of `limitStoreMap` (`stopLeading` deleted it first): what is held during the retries is the
detached store object — without a flusher from the first attempt on. -/

structure KStore where
  periodic : Bool      -- syncPeriod > 0: the flusher goroutine was started
  stopCh : Bool        -- stopCh is closed
  stopped : Bool       -- the `stopped` flag
  items : Nat          -- conditions of its own shard in the local store (what a flush writes)
deriving Repr, DecidableEq

/-- `NewK8sCacheStore` -/
def newKStore (periodic : Bool) : KStore := { periodic := periodic, stopCh := false, stopped := false, items := 0 }

/-- the flusher goroutine is alive: it was started and `stopCh` is open -/
def KStore.flusherRunning (s : KStore) : Bool := s.periodic && !s.stopCh

/-- `doSyncLocked()` returns nil: the API accepts writes, or there is nothing to write (no call is made) -/
def KStore.flushOk (s : KStore) (apiOk : Bool) : Bool := apiOk || s.items == 0

/-- invariant of `objectStore`: `stopped` is only ever set after `stopCh` was closed -/
def KStore.WF (s : KStore) : Prop := s.stopped = true → s.stopCh = true

/-- `objectStore.Stop()` while the API accepts (`apiOk`) or fails writes; `true` = nil was returned.
    `stopCh` is closed FIRST (the flusher ends whatever becomes of the final flush), then the final flush, then the
    local store is stopped and `stopped` set. -/
def KStore.stop (s : KStore) (apiOk : Bool) : KStore × Bool :=
  if s.stopped then (s, true)
  else if !s.flushOk apiOk then ({ s with stopCh := true }, false)
  else ({ s with stopCh := true, stopped := true }, true)      -- localStore.Stop() returns nil

/-- `stopLimitStoreWithRetry`: up to `fuel` (= 10) attempts; `api` says for each attempt whether the API accepts
    writes (an exhausted script means yes). Answers the store, whether an attempt returned nil, and the number of
    attempts made. -/
def stopWithRetry : Nat → List Bool → KStore → KStore × Bool × Nat
  | 0, _, s => (s, false, 0)
  | fuel + 1, api, s =>
    let r := s.stop (api.headD true)
    if r.2 then (r.1, true, 1)
    else
      let q := stopWithRetry fuel api.tail r.1
      (q.1, q.2.1, q.2.2 + 1)

/-- `rateLimiter.stopLeading(shardId)` with a k8s store: the store leaves the map first, then is stopped with
    retries. Answers the detached store after the retries and whether a `Stop` returned nil (`none`: no store). -/
def stopLeadingK (api : List Bool) (st : Srv KStore) (s : Int) : Srv KStore × Option (KStore × Bool) :=
  (stopLeading st s, (st.stores.get s).map fun k => let r := stopWithRetry 10 api k; (r.1, r.2.1))

/-! ## Overlapping starts and stops of ONE shard (k8s store with a flusher)

`rateLimiter.startLeading` is not atomic: it puts the new store into `limitStoreMap`, releases the lock and then
calls `Load()` (a List against the API, which may hang) and the initial upstream sync; on an error it takes ITS OWN
store out of the map again (`if r.limitStoreMap[shardId] == limitStore`) and stops it. While a start hangs in its
Load, the shard can be lost (`stopLeading` removes and stops whatever store is in the map) and gained again (a second
`startLeading` installs a second store). Stores are identified by the order of their creation (index in `stores`);
`stores[i] = true` means store i's `stopCh` is closed (its flusher has ended; `Stop()` closes it first, whatever
becomes of the final flush). -/
namespace Overlap

structure OState where
  leader : Bool            -- the elector records me as leader of the shard
  map : Option Nat         -- limitStoreMap[shard]: which store
  stores : List Bool       -- every store created so far: is its stopCh closed
  pending : List Nat       -- starts that hang in Load
deriving Repr, DecidableEq

inductive OOp
  | begin                  -- OnStartedLeading: elector.setLeader(me), rateLimiter.startLeading up to a hanging Load
  | finishOk (id : Nat)    -- the hanging Load of start `id` returns nil; the initial sync follows
  | finishFail (id : Nat)  -- the hanging Load of start `id` returns an error
  | lose                   -- OnStoppedLeading: the elector forgets me, rateLimiter.stopLeading
  | check                  -- a leaderCheck tick (its own start, if any, does not hang)
deriving Repr, DecidableEq

def init : OState := { leader := false, map := none, stores := [], pending := [] }

/-- `startLeading` up to `Load()`: nothing if the shard has a store, else a new store enters the map -/
def startBegin (st : OState) (hangs : Bool) : OState :=
  match st.map with
  | some _ => st
  | none => { st with map := some st.stores.length, stores := st.stores ++ [false],
                      pending := if hangs then st.pending ++ [st.stores.length] else st.pending }

/-- the error path of `startLeading` for its own store `id`: out of the map only if it is still the map's store;
    stopped in any case -/
def startFail (st : OState) (id : Nat) : OState :=
  { st with map := if st.map = some id then none else st.map, stores := st.stores.set id true,
            pending := st.pending.erase id }

/-- `stopLeading`: the map's store, if any, leaves the map and is stopped -/
def dropStore (st : OState) : OState :=
  match st.map with
  | none => st
  | some id => { st with map := none, stores := st.stores.set id true }

def step (st : OState) : OOp → OState
  | .begin => startBegin { st with leader := true } true
  | .finishFail id => if id ∈ st.pending then startFail st id else st
  | .finishOk id =>
    if id ∈ st.pending then
      -- the initial sync runs the upstream handler: leader without any store in the map = error = the error path
      (if st.leader && st.map.isNone then startFail st id else { st with pending := st.pending.erase id })
    else st
  | .lose => dropStore { st with leader := false }
  | .check => if st.leader then startBegin st false else dropStore st

def run (ops : List OOp) : OState := ops.foldl step init

/-- store i's flusher is running -/
def running (st : OState) (i : Nat) : Prop := st.stores[i]? = some false

end Overlap

/-! ## A concrete store for the correspondence harness (local store, one global max-in-flight schema "fc"
    whose limit is never reached) -/

namespace Concrete

structure UEntry where
  name : Str
  conds : List (Str × Str)       -- condition name ↦ Spec.Instance
  hasFC : Bool                   -- flow control "fc" exists
  inflight : List (Str × Int)    -- instance ↦ reported count (globalMaxInflight.instanceStates)
deriving Repr, DecidableEq

abbrev CStore := List UEntry

inductive CRes
  | updOk
  | updNotFound                               -- the upstream state condition is missing
  | acq (accept : Bool) (limit : Int) (err : String)   -- one RateLimitAcquireResult
deriving Repr, DecidableEq

def find (s : CStore) (u : Str) : Option UEntry := List.find? (fun e => e.name == u) s
def put (s : CStore) (e : UEntry) : CStore := e :: s.filter (fun x => !(x.name == e.name))
def remove (s : CStore) (u : Str) : CStore := s.filter (fun x => !(x.name == u))

def kvGet (l : List (Str × α)) (k : Str) : Option α := (List.find? (fun p => p.1 == k) l).map (·.2)
def kvSet (l : List (Str × α)) (k : Str) (v : α) : List (Str × α) := (k, v) :: l.filter (fun p => !(p.1 == k))
def kvDel (l : List (Str × α)) (k : Str) : List (Str × α) := l.filter (fun p => !(p.1 == k))

/-- `upstreamStateConditionName`: "%s.state" -/
def stateName (u : Str) : Str := u ++ Str.ofString ".state"

/-- `util.GenerateRateLimitConditionName`: "%s.%s" with ':' replaced by '-' in the instance -/
def condName (u inst : Str) : Str := u ++ [46] ++ inst.map (fun b => if b == 58 then 45 else b)

def ops (storeType : String) : StoreOps CStore CRes where
  newStore := fun _ _ => if storeType == "local" || storeType == "k8s" then some [] else none
  load := fun s => (s, true)
  syncUpstream := fun u s =>
    let e := (find s u).getD { name := u, conds := [], hasFC := false, inflight := [] }
    let inst := (kvGet e.conds (stateName u)).getD []
    (put s { e with conds := kvSet e.conds (stateName u) inst, hasFC := true }, none)
  deleteUpstream := fun u s => (remove s u, none)
  update := fun u inst s =>
    match find s u with
    | none => (s, .updNotFound)
    | some e =>
      match kvGet e.conds (stateName u) with
      | none => (s, .updNotFound)
      | some _ => (put s { e with conds := kvSet e.conds (condName u inst) inst }, .updOk)
  acquire := fun u inst tokens s =>
    match find s u with
    | none => (s, .acq false 0 "notfound")
    | some e =>
      if !e.hasFC then (s, .acq false 0 "notfound")
      else if tokens < 0 then (s, .acq false 0 "negative")
      else (put s { e with inflight := kvSet e.inflight inst tokens }, .acq true tokens "")
  deleteCond := fun u name s =>
    match find s u with
    | none => s
    | some e => put s { e with conds := kvDel e.conds name }

end Concrete

end KG.Model.Shard
