import KG.Gen.C09
/-!
# Model of the gateway side of the global limiter (C09)

Mirrors, function by function (one flow-control schema name):

* `pkg/flowcontrols/flowcontrol/flowcontrol.go` : `GuessFlowControlSchemaType`, `GetFlowControlTypeFromLimitItem`,
  `NewFlowControl`, `flowControl.Resize`, `resizeableTokenBucket.Resize`  → `guessType`, `itemType`, `newLim`, `Lim.resize`
* `pkg/flowcontrols/remote/flowcontrol_wrapper.go` : `localWrapper.Sync`, `remoteWrapper.Sync`, `boundByGlobalLimit`,
  `newFlowControl`, `toFlowControlSchema`, `EnableGlobalFlowControl`, `stopRemoteWrapper`, `remoteWrapper.SetLimit`
* `pkg/flowcontrols/remote/global_flowcontrol.go` : `newFlowControlCounter`, `maxInflightWrapper.{Resize,SetLimit}`,
  `tokenBucketWrapper.{Resize,SetLimit,expectMore}`, `emptyGlobalWrapper`
* `pkg/flowcontrols/remote/remote_allocation.go` : `updateGlobalCuntFlowControls` (`Op.reconcileCount`), `updateFlowControls` (`Op.answer`)
* `pkg/flowcontrols/limiter.go` : `syncLocalFlowControls` (`Op.schema`), `Load` / `GetOrDefault` (`load`)
* `pkg/ratelimiter/clientsets/clientsets.go` : `setLeaderStatus`, `IsReady` (`hbStep`, `isReady`)

Integers are `Int` with the casts the code performs made explicit (`toU32`, `toI32`, int32 arithmetic wraps);
a nil dereference is `Except.error "panic:…"`; time is an `Int` (nanoseconds) carried by the operation; the meter
(`util.Meter.MaxInflight/Rate`) is an input set by `Op.meter`. Core Lean only.
-/
namespace KG.Model.RemoteLimiter
open KG.Gen.C09

/-! ## integer conversions -/

/-- `uint32(x)` -/
def toU32 (x : Int) : Int := x % 4294967296
/-- `int32(x)` -/
def toI32 (x : Int) : Int := (x + 2147483648) % 4294967296 - 2147483648
/-- int32 multiplication (wraps) -/
def i32mul (a b : Int) : Int := toI32 (a * b)
/-- int32 addition (wraps) -/
def i32add (a b : Int) : Int := toI32 (a + b)
/-- int32 subtraction (wraps) -/
def i32sub (a b : Int) : Int := toI32 (a - b)
/-- int32 division by a positive constant: Go truncates toward zero -/
def i32div (a b : Int) : Int := Int.tdiv a b

def maxInt32 : Int := 2147483647

/-! ## configuration objects -/

/-- `proxyv1alpha1.LimitStrategy`: `""`, `"local"`, `"globalAllocate"`, `"globalCount"`, anything else -/
inductive Strategy | empty | loc | alloc | count | other
  deriving DecidableEq, Repr, Inhabited

/-- `FlowControlSchemaType` -/
inductive Kind | unknown | exempt | mi | tb
  deriving DecidableEq, Repr, Inhabited

structure TB where
  qps : Int
  burst : Int
  deriving DecidableEq, Repr, Inhabited

/-- `proxyv1alpha1.FlowControlSchema` (the name is fixed); a nil pointer is `none` -/
structure Schema where
  strategy : Strategy := .empty
  exempt : Bool := false
  mi : Option Int := none
  tb : Option TB := none
  gmi : Option Int := none
  gtb : Option TB := none
  deriving DecidableEq, Repr, Inhabited

/-- `proxyv1alpha1.RateLimitItemConfiguration` (name fixed) -/
structure Item where
  strategy : Strategy := .empty
  mi : Option Int := none
  tb : Option TB := none
  deriving DecidableEq, Repr, Inhabited

/-- `flowcontrol.GuessFlowControlSchemaType` -/
def guessType (s : Schema) : Kind :=
  if s.exempt then .exempt
  else if s.mi.isSome || s.gmi.isSome then .mi
  else if s.tb.isSome || s.gtb.isSome then .tb
  else .exempt

/-- `flowcontrol.GetFlowControlTypeFromLimitItem` -/
def itemType (i : Item) : Kind :=
  if i.mi.isSome then .mi else if i.tb.isSome then .tb else .unknown

/-- `remote.EnableGlobalFlowControl` -/
def enableGlobal (s : Schema) : Bool :=
  match s.strategy with
  | .alloc | .count => s.gtb.isSome || s.gmi.isSome
  | _ => false

/-! ## the limiter objects of package `flowcontrol` -/

/-- `flowcontrol.FlowControl` as built by `NewFlowControl`: what `String()` prints (uint32 values) -/
inductive Lim
  | exempt (max : Int)
  | mi (size : Int)
  | tb (qps burst : Int)
  deriving DecidableEq, Repr, Inhabited

def Lim.kind : Lim → Kind
  | .exempt _ => .exempt
  | .mi _ => .mi
  | .tb _ _ => .tb

/-- `flowcontrol.NewFlowControl` -/
def newLim (s : Schema) : Except String Lim :=
  match guessType s with
  | .mi =>
    match s.mi with
    | some m => .ok (.mi (toU32 m))
    | none => .error "panic:nil-deref schema.MaxRequestsInflight"
  | .tb =>
    match s.tb with
    | some t => .ok (.tb (toU32 t.qps) (toU32 t.burst))
    | none => .error "panic:nil-deref schema.TokenBucket"
  | _ => .ok (.exempt 0)

/-- `Resize(n, burst)` of `flowControl` / `resizeableTokenBucket`: the new limiter and "resized" -/
def Lim.resize (l : Lim) (n b : Int) : Lim × Bool :=
  match l with
  | .exempt m => if m ≠ n then (.exempt n, true) else (l, false)
  | .mi m => if m ≠ n then (.mi n, true) else (l, false)
  | .tb q u => if q ≠ n ∨ u ≠ b then (.tb n b, true) else (l, false)

/-! ## `localWrapper` -/

structure Local where
  config : Schema := {}
  fc : Option Lim := none
  deriving DecidableEq, Repr, Inhabited

/-- `localWrapper.Sync`: the new wrapper and whether `stopRemoteWrapper()` was called (always on a type change: a
    remote limiter of the old type bounds nothing the new schema configures) -/
def localSync (l : Local) (s : Schema) : Except String (Local × Bool) :=
  if s = l.config then .ok (l, false)
  else
    let newType := guessType s
    match l.fc with
    | none => do
        let fc ← newLim s
        pure ({ config := s, fc := some fc }, true)
    | some fc =>
      if fc.kind ≠ newType then do
        let fc' ← newLim s
        pure ({ config := s, fc := some fc' }, true)
      else
        match newType with
        | .mi =>
          match s.mi with
          | some m => .ok ({ config := s, fc := some (fc.resize (toU32 m) 0).1 }, !enableGlobal s)
          | none => .error "panic:nil-deref schema.MaxRequestsInflight"
        | .tb =>
          match s.tb with
          | some t => .ok ({ config := s, fc := some (fc.resize (toU32 t.qps) (toU32 t.burst)).1 }, !enableGlobal s)
          | none => .error "panic:nil-deref schema.TokenBucket"
        | _ => .ok ({ config := s, fc := some fc }, !enableGlobal s)

/-! ## the global-count wrappers -/

/-- the meter readings an error fallback takes: `meter.MaxInflight()`, `meter.Rate()` as `rateNum/rateDen` (≥ 0) -/
structure Meter where
  maxInflight : Int := 0
  rateNum : Int := 0
  rateDen : Int := 1
  deriving DecidableEq, Repr, Inhabited

/-- `maxInflightWrapper` -/
structure MIW where
  inner : Lim
  unavail : Bool := false
  lastAcquireTime : Int := 0
  max : Int := 0
  reserve : Int := 0
  acquired : Int := 0
  overLimited : Int := 0
  deriving DecidableEq, Repr, Inhabited

/-- `tokenBucketWrapper` -/
structure TBW where
  inner : Lim
  unavail : Bool := false
  lastAcquireTime : Int := 0
  tokens : Int := 0
  reserve : Int := 0
  tokenBatch : Int := 0
  tokenInflight : Int := 0
  qps : Int := 0
  burst : Int := 0
  deriving DecidableEq, Repr, Inhabited

/-- `GlobalCounterFlowControl`: `emptyGlobalWrapper`, `maxInflightWrapper`, `tokenBucketWrapper` -/
inductive GFC
  | empty (inner : Lim)
  | miw (w : MIW)
  | tbw (w : TBW)
  deriving DecidableEq, Repr, Inhabited

def GFC.inner : GFC → Lim
  | .empty l => l
  | .miw w => w.inner
  | .tbw w => w.inner

def GFC.unavail : GFC → Bool
  | .empty _ => false
  | .miw w => w.unavail
  | .tbw w => w.unavail

/-- the reserve `maxInflightWrapper.Resize` computes from `int32(max)` -/
def miReserve (max : Int) : Int :=
  let r := i32div (i32mul max globalMaxInflightBurstPercent) 100
  let r := if r < globalMaxInflightBurstMinInflight then globalMaxInflightBurstMinInflight else r
  if r > max then max else r

/-- `maxInflightWrapper.Resize(max uint32, _)` -/
def MIW.resize (w : MIW) (max : Int) : MIW × Bool :=
  let m := toI32 max
  let reserve := miReserve m
  let w := { w with reserve := reserve, max := m }
  if !w.unavail then
    let r := w.inner.resize (toU32 reserve) 0
    ({ w with inner := r.1 }, r.2)
  else (w, true)

def tbReserve (qps : Int) : Int :=
  let r := i32div (i32mul (toI32 qps) globalTokenBucketBurstPercent) 100
  if r < globalTokenBucketBurstMinTokens then globalTokenBucketBurstMinTokens else r

def tbBatch (reserve : Int) : Int :=
  let b := i32div (i32mul reserve globalTokenBucketBatchAcquiredPercent) 100
  if b < globalTokenBucketBatchAcquireMin then globalTokenBucketBatchAcquireMin else b

/-- `tokenBucketWrapper.Resize(qps, burst uint32)` -/
def TBW.resize (w : TBW) (qps burst : Int) : TBW × Bool :=
  let reserve := tbReserve qps
  let overflow := i32sub w.tokens reserve
  let tokens := if overflow > 0 then i32add w.tokens (toI32 (-overflow)) else w.tokens
  let w := { w with reserve := reserve, tokens := tokens, tokenBatch := tbBatch reserve, qps := qps, burst := burst }
  if !w.unavail then
    let r := w.inner.resize qps burst
    ({ w with inner := r.1 }, r.2)
  else (w, false)

/-- `GlobalCounterFlowControl.Resize` as dispatched by the embedding -/
def GFC.resize (g : GFC) (n b : Int) : GFC :=
  match g with
  | .empty l => .empty (l.resize n b).1
  | .miw w => .miw (w.resize n).1
  | .tbw w => .tbw (w.resize n b).1

/-- `RateLimitAcquireResult.Error`: empty, `"RequestIDTooOld"`, anything else -/
inductive ErrKind | none | tooOld | other
  deriving DecidableEq, Repr, Inhabited

/-- `AcquireResult`: `request` (nil or its `Tokens`), `result.{Accept,Limit,Error}`, `requestTime` -/
structure Reply where
  hasReq : Bool := false
  tokens : Int := 0
  accept : Bool := false
  limit : Int := 0
  err : ErrKind := .none
  rt : Int := 0
  deriving DecidableEq, Repr, Inhabited

/-- `maxInflightWrapper.SetLimit`; `loc` is `m.fcc.local.localConfig`, `obs` the meter's `MaxInflight()` -/
def MIW.setLimit (w : MIW) (loc : Schema) (obs : Int) (r : Reply) : Except String MIW :=
  if r.rt > 0 ∧ r.rt ≤ w.lastAcquireTime then .ok w
  else match r.err with
  | .tooOld => .ok w
  | .other =>
    if !w.unavail then
      -- no local limit of this type (the schema's type changed under the wrapper): nothing to raise the fallback to
      let inflight := match loc.mi with
        | none => obs
        | some localMax => if obs < localMax then localMax else obs
      let inflight := if inflight > w.max then w.max else inflight
      .ok { w with inner := (w.inner.resize (toU32 inflight) 0).1, unavail := true }
    else .ok w
  | .none =>
    if r.accept then
      let limit := if r.limit < w.reserve then w.reserve else r.limit
      let limit := if limit > w.max then w.max else limit
      .ok { w with unavail := false, overLimited := 0, acquired := limit,
                   inner := (w.inner.resize (toU32 limit) 0).1, lastAcquireTime := r.rt }
    else
      let limit := if r.limit > w.max then w.max else r.limit
      let limit := if limit < 0 then 0 else limit
      .ok { w with overLimited := 1, acquired := limit,
                   inner := (w.inner.resize (toU32 limit) 0).1, lastAcquireTime := r.rt }

/-- `tokenBucketWrapper.expectMore` -/
def TBW.expectMore (w : TBW) : Bool := i32sub (i32sub w.reserve w.tokens) w.tokenInflight > 0

/-- `tokenBucketWrapper.ExpectToken()` at time `now` (ns): how many tokens the next acquire request asks for -/
def TBW.expectToken (w : TBW) (m : Meter) (now : Int) : Int :=
  let expect := i32sub w.reserve w.tokens
  let batch :=
    if m.rateNum > w.reserve * m.rateDen then
      let b := i32div (i32mul (toI32 (Int.tdiv m.rateNum m.rateDen)) globalTokenBucketBatchAcquiredPercent) 100
      if b < globalTokenBucketBatchAcquireMin then globalTokenBucketBatchAcquireMin else b
    else w.tokenBatch
  let expect := i32sub expect w.tokenInflight
  let expect := if expect < 0 then 0 else expect
  if expect < w.tokenBatch then
    (if now - w.lastAcquireTime < batchAcquireMaxDuration then 0 else expect)
  else if expect > batch then batch else expect

/-- `maxInflightWrapper.ExpectToken()` with `inflight = meter.CurrentInflight()` and nobody waiting: the requests in
    flight, at most `max` -/
def MIW.expectToken (w : MIW) (inflight : Int) : Int := if inflight > w.max then w.max else inflight

/-- `uint32(lastQPS)` for the clamped observed rate `num/den ≥ 0` (truncation) -/
def rateToU32 (num den : Int) : Int := toU32 (Int.tdiv num den)

/-- the degraded qps of the error fallback: `uint32(min(max(meter.Rate(), localQPS), m.qps))`, the rate being
    `rateNum/rateDen` -/
def tbDegradedQps (m : Meter) (localQps wqps : Int) : Int :=
  if m.rateNum < localQps * m.rateDen then (if localQps > wqps then wqps else toU32 localQps)
  else if m.rateNum > wqps * m.rateDen then wqps
  else rateToU32 m.rateNum m.rateDen

/-- `atomic.AddInt32(&m.tokenInflight, -acquireResult.request.Tokens)` when the result carries its request -/
def TBW.noteRequest (w : TBW) (r : Reply) : TBW :=
  if r.hasReq then { w with tokenInflight := i32add w.tokenInflight (toI32 (-r.tokens)) } else w

/-- the error fallback: `Resize(uint32(lastQPS), min(uint32(lastQPS), m.burst))`, `serverUnavailable = 1` -/
def TBW.degrade (w : TBW) (localQps : Int) (m : Meter) : TBW :=
  let q := tbDegradedQps m localQps w.qps
  { w with inner := (w.inner.resize q (if q > w.burst then w.burst else q)).1, unavail := true }

/-- an accepted reply ends the outage: `Resize(m.qps, m.burst)`, `serverUnavailable = 0` -/
def TBW.recover (w : TBW) : TBW :=
  if w.unavail then { w with inner := (w.inner.resize w.qps w.burst).1, unavail := false } else w

/-- `atomic.AddInt32(&m.tokens, clamp(result.Limit, 0, m.reserve))` -/
def TBW.addTokens (w : TBW) (limit : Int) : TBW :=
  let token := if limit > w.reserve then w.reserve else limit
  { w with tokens := i32add w.tokens (if token < 0 then 0 else token) }

/-- `tokenBucketWrapper.SetLimit`: the wrapper and the returned `expectMore()` -/
def TBW.setLimit (w : TBW) (loc : Schema) (m : Meter) (r : Reply) : Except String (TBW × Bool) :=
  let w := w.noteRequest r
  match r.err with
  | .tooOld => .ok (w, w.expectMore)
  | .other =>
    if !w.unavail then
      -- no local bucket (the schema's type changed under the wrapper): `meter.Rate() ≥ 0` is the fallback as it is
      match loc.tb with
      | none => .ok (w.degrade 0 m, (w.degrade 0 m).expectMore)
      | some lt => .ok (w.degrade lt.qps m, (w.degrade lt.qps m).expectMore)
    else .ok (w, w.expectMore)
  | .none =>
    let w1 := if r.accept then w.recover.addTokens r.limit else w
    .ok ({ w1 with lastAcquireTime := r.rt }, ({ w1 with lastAcquireTime := r.rt } : TBW).expectMore)

/-! ## `remoteWrapper` -/

structure Remote where
  /-- `remoteConfig`; `none` is the zero value (its Name differs from every answered item's) -/
  remoteConfig : Option Item := none
  appliedConfig : Option Item := none
  fc : Option GFC := none
  deriving DecidableEq, Repr, Inhabited

/-- the closure `bound` of `boundByGlobalLimit` -/
def bound (v global : Int) : Int :=
  let v := if v > global then global else v
  if v < 0 then 0 else v

/-- `globalMax`, `globalQPS`, `globalBurst` of `boundByGlobalLimit`: the configured value, else `math.MaxInt32` -/
def Schema.globalMax (s : Schema) : Int := match s.gmi with | some g => g | none => maxInt32
def Schema.globalQps (s : Schema) : Int := match s.gtb with | some g => g.qps | none => maxInt32
def Schema.globalBurst (s : Schema) : Int := match s.gtb with | some g => g.burst | none => maxInt32

/-- `remoteWrapper.boundByGlobalLimit` -/
def boundByGlobalLimit (loc : Schema) (i : Item) : Item :=
  { i with
    mi := i.mi.map (fun m => bound m loc.globalMax)
    tb := i.tb.map (fun t => { qps := bound t.qps loc.globalQps, burst := bound t.burst loc.globalBurst }) }

/-- `toFlowControlSchema` -/
def toSchema (i : Item) : Schema :=
  match i.mi with
  | some m => { strategy := i.strategy, mi := some m }
  | none =>
    match i.tb with
    | some t => { strategy := i.strategy, tb := some t }
    | none => { strategy := i.strategy }

/-- `newFlowControlCounter` (after `newMeterFlowControl(toFlowControlSchema(limitItem))`) -/
def newCounter (i : Item) (fc : Lim) : Except String GFC :=
  if i.strategy ≠ .count then .ok (.empty fc)
  else match fc.kind with
  | .mi =>
    match i.mi with
    | some m => .ok (.miw (({ inner := fc, max := m } : MIW).resize (toU32 m)).1)
    | none => .error "panic:nil-deref limitItem.MaxRequestsInflight"
  | _ =>
    match i.tb with
    | some t => .ok (.tbw (({ inner := fc } : TBW).resize (toU32 t.qps) (toU32 t.burst)).1)
    | none => .error "panic:nil-deref limitItem.TokenBucket"

/-- `remoteWrapper.newFlowControl` -/
def newGFC (applied : Item) : Except String GFC := do
  let fc ← newLim (toSchema applied)
  newCounter applied fc

/-- `f.remoteConfig.Strategy` (the zero value's is `""`) -/
def Remote.strategy (r : Remote) : Strategy :=
  match r.remoteConfig with
  | some c => c.strategy
  | none => .empty

/-- `remoteWrapper.Sync` -/
def remoteSync (r : Remote) (loc : Schema) (i : Item) : Except String Remote :=
  let applied := boundByGlobalLimit loc i
  if some i = r.remoteConfig ∧ some applied = r.appliedConfig then .ok r
  else
    let newType := itemType i
    match r.fc with
    | none => do
        let g ← newGFC applied
        pure { remoteConfig := some i, appliedConfig := some applied, fc := some g }
    | some g =>
      if g.inner.kind ≠ newType ∨ r.strategy ≠ i.strategy then do
        let g' ← newGFC applied
        pure { remoteConfig := some i, appliedConfig := some applied, fc := some g' }
      else
        match i.mi, applied.mi, g.inner.kind with
        | some _, some am, .mi =>
          .ok { remoteConfig := some i, appliedConfig := some applied, fc := some (g.resize (toU32 am) 0) }
        | _, _, _ =>
          match i.tb, applied.tb, g.inner.kind with
          | some _, some at', .tb =>
            .ok { remoteConfig := some i, appliedConfig := some applied,
                  fc := some (g.resize (toU32 at'.qps) (toU32 at'.burst)) }
          | _, _, _ => do
            let g' ← newGFC applied
            pure { remoteConfig := some i, appliedConfig := some applied, fc := some g' }

/-- `remoteWrapper.SetLimit` → the wrappers' `SetLimit`; returns the wrapper and the Boolean result -/
def gfcSetLimit (g : GFC) (loc : Schema) (m : Meter) (r : Reply) : Except String (GFC × Bool) :=
  match g with
  | .empty l => .ok (.empty l, false)
  | .miw w => do
      let w' ← w.setLimit loc m.maxInflight r
      pure (.miw w', false)
  | .tbw w => do
      let (w', b) ← w.setLimit loc m r
      pure (.tbw w', b)

/-! ## readiness: `clientSets.setLeaderStatus` / `IsReady` -/

/-- `heartbeatStatus`; `lastChange = none` is the zero `time.Time` -/
structure HB where
  lastChange : Option Int := none
  lastState : Bool := false
  ready : Bool := false
  deriving DecidableEq, Repr, Inhabited

/-- `time.Now().After(status.lastChange.Add(ServerHeartBeatTimeout))` -/
def hbAfter (lastChange : Option Int) (now : Int) : Bool :=
  match lastChange with
  | none => true
  | some t => decide (now > t + serverHeartBeatTimeout)

/-- `setLeaderStatus(shard, server, ready)` at time `now` (on the status of that shard, created when missing) -/
def hbStep (h : HB) (ready : Bool) (now : Int) : HB :=
  let h := if h.lastState ≠ ready then { h with lastState := ready, lastChange := some now } else h
  if h.ready ≠ ready then
    if ready then { h with ready := true }
    else if hbAfter h.lastChange now then { h with ready := false } else h
  else h

/-! ## `upstreamLimiter` with one schema name -/

/-- `upstreamLimiter.rateLimiter`: `"remote"`, `"local"` (also what `""` becomes), anything else -/
inductive RL | remote | loc | other
  deriving DecidableEq, Repr, Inhabited

structure Cfg where
  rateLimiter : RL := .remote
  /-- `clientSets != nil` -/
  hasCS : Bool := true
  deriving DecidableEq, Repr, Inhabited

/-- `globalCounter` of the flow control (it exists exactly while the remote wrapper holds a count wrapper): a pending
    event (`eventCh`) and `lastSyncTime` (unix seconds) -/
structure Counter where
  event : Bool := false
  lastSync : Int := 0
  deriving DecidableEq, Repr, Inhabited

/-- object identities and in-flight counts of the max-in-flight buckets behind the limiters handed to requests.
    `locGen`: the local limiter object (`localWrapper.Current()`, replaced on a type change); `remOuter`: the
    `remoteWrapper` object (replaced when remote flow control is stopped and enabled again); `remInner`: the limiter
    inside it (`GlobalCounterFlowControl`, replaced by `newFlowControl`; `Resize` keeps it). The counts are those of the
    current objects (`maxinflight` count). -/
structure Flight where
  locGen : Nat := 0
  locCount : Int := 0
  remOuter : Nat := 0
  remInner : Nat := 0
  remCount : Int := 0
  deriving DecidableEq, Repr, Inhabited

/-- `flowControlCache` -/
structure Cache where
  loc : Local := {}
  remote : Option Remote := none
  cnt : Counter := {}
  fl : Flight := {}
  deriving DecidableEq, Repr, Inhabited

/-- does `localWrapper.Sync` replace the local limiter object? -/
def localRecreates (l : Local) (s : Schema) : Bool :=
  decide (s ≠ l.config) && (match l.fc with | none => true | some fc => decide (fc.kind ≠ guessType s))

/-- does `remoteWrapper.Sync` build a new limiter (`newFlowControl`: `globalCounter.Stop(name)`, and for the count
    strategy `globalCounter.Add(name, …)`: a new counter)? The path conditions of `remoteSync`. -/
def remoteRecreates (r : Remote) (loc : Schema) (i : Item) : Bool :=
  let applied := boundByGlobalLimit loc i
  if some i = r.remoteConfig ∧ some applied = r.appliedConfig then false
  else match r.fc with
    | none => true
    | some g =>
      if g.inner.kind ≠ itemType i ∨ r.strategy ≠ i.strategy then true
      else if i.mi.isSome ∧ g.inner.kind = .mi then false
      else if i.tb.isSome ∧ g.inner.kind = .tb then false
      else true

/-- which limiter admitted a request -/
inductive Side | dflt | loc | rem
  deriving DecidableEq, Repr, Inhabited

/-- a request in flight keeps the limiter that `GetOrDefault` handed it: the system default, the local limiter OBJECT
    (`gen = locGen` then), or the `remoteWrapper` (`gen = remOuter` then: its Release goes to whatever limiter is inside
    the wrapper at that time) -/
structure Handle where
  id : Nat
  side : Side
  gen : Nat
  /-- (for the theorems only; `Release` never looks at it) the limiter inside the `remoteWrapper` when it admitted -/
  inner : Nat := 0
  deriving DecidableEq, Repr, Inhabited

structure State where
  cache : Option Cache := none
  /-- `clientSets.shardCount` -/
  shardCount : Nat := 0
  /-- `leaderReady[shard of this cluster]` -/
  hb : Option HB := none
  /-- `leaderEndpoints[shard of this cluster]`: 0 = none known (the empty string), else an index of a leader URL -/
  leader : Nat := 0
  meter : Meter := {}
  /-- result of the last `SetLimit` (reported only) -/
  lastRet : Bool := false
  /-- the time of the last timed operation (ns) -/
  clock : Int := 0
  /-- the token count of the request built by the last tick (reported only) -/
  lastReq : Option Int := none
  /-- requests admitted and not finished: which object admitted them -/
  handles : List Handle := []
  /-- `meter.CurrentInflight()`: admitted through a metered limiter (everything but the system default) and unfinished -/
  inflight : Int := 0
  /-- result of the last `acquire` (reported only) -/
  lastAdmit : Option Bool := none
  /-- the construction parameters of the `upstreamLimiter` (`Load` reads them when a request asks for its limiter) -/
  cfgv : Cfg := {}
  deriving DecidableEq, Repr, Inhabited

/-- the limiter server's answer to the request of a tick: nothing for this flow control, or a result -/
structure TickAnswer where
  accept : Bool := false
  limit : Int := 0
  err : ErrKind := .none
  deriving DecidableEq, Repr, Inhabited

inductive Op
  /-- `upstreamLimiter.Sync` with this schema under the fixed name -/
  | schema (s : Schema)
  /-- `clientSets.sync` learnt the shard count -/
  | shards (n : Nat)
  /-- `clientSets.sync` at time `now`: the server info could not be fetched (`fail`), or it says `n` shards and
      publishes `leader` for the shard of this cluster (`none`: no endpoint published for that shard) -/
  | sync (fail : Bool) (n : Nat) (leader : Option Nat) (now : Int)
  /-- one heartbeat outcome for the shard of this cluster (`other = true`: for another shard) at time `now` -/
  | hb (ok : Bool) (now : Int) (other : Bool)
  /-- `reconcile.updateGlobalCuntFlowControls` -/
  | reconcileCount
  /-- one item of the limiter server's answer through `reconcile.updateFlowControls`; `named = false`: unknown name -/
  | answer (named : Bool) (item : Item)
  /-- the meter readings change -/
  | meter (m : Meter)
  /-- an acquire result (or the time-out of `resetCheck`) reaches `remoteWrapper.SetLimit` -/
  | setLimit (r : Reply)
  /-- a request (named `id`) asks the limiter `GetOrDefault` hands out: `TryAcquire`; it keeps the limiter if admitted -/
  | acquire (id : Nat)
  /-- the request `id` finishes: `Release` on the limiter it kept -/
  | release (id : Nat)
  /-- a request went through the count wrapper: `globalCounter.Count` leaves an event -/
  | event
  /-- the limiter mode is switched away and back (`ResetLimiter(other)`, `ResetLimiter(mode)`) while the server is not
      ready: the reconcile loop is stopped and started again (its SECOND start); nothing else may change -/
  | restart
  /-- one round of `globalCounterManager.doAcquire` at time `now`: `acquireRequest` decides whether and what to ask
      for; the request (if any) is answered by `ans` (`none`: no result for this flow control) through
      `globalCounter.send` -/
  | tick (now : Int) (ans : Option TickAnswer)
  deriving DecidableEq, Repr, Inhabited

/-- `clientSets.IsReady(cluster)` -/
def isReady (st : State) : Bool :=
  if st.shardCount = 0 then false
  else match st.hb with
    | none => false
    | some h => h.ready

/-- does `newFlowControl` build a NEW limiter object (an empty max-in-flight bucket)? only when there is none yet or its
    type differs; otherwise the limiter in force — and the requests it counts — is kept, resized and wrapped anew -/
def remoteNewBucket (r : Remote) (loc : Schema) (i : Item) : Bool :=
  remoteRecreates r loc i && (match r.fc with | none => true | some g => decide (g.inner.kind ≠ itemType i))

/-- `EnableRemoteFlowControl` makes a new `remoteWrapper`; a NEW limiter object inside it has an EMPTY max-in-flight
    bucket; `Resize`, and a rebuild that keeps the limiter (`remoteNewBucket = false`), keep the bucket and its count -/
def flightAfterSync (f : Flight) (enabled recreated : Bool) : Flight :=
  let f := if enabled then { f with remOuter := f.remOuter + 1 } else f
  if recreated then { f with remInner := f.remInner + 1, remCount := 0 } else f

/-- `EnableRemoteFlowControl` (if needed) followed by `remoteWrapper.Sync(item)` -/
def cacheRemoteSync (c : Cache) (i : Item) (nowS : Int) : Except String Cache := do
  let r' ← remoteSync (c.remote.getD {}) c.loc.config i
  pure { c with remote := some r',
                cnt := if remoteRecreates (c.remote.getD {}) c.loc.config i then { event := false, lastSync := nowS } else c.cnt,
                fl := flightAfterSync c.fl c.remote.isNone (remoteNewBucket (c.remote.getD {}) c.loc.config i) }

/-- unix seconds of a time in ns (`time.Now().Unix()`) -/
def unixS (now : Int) : Int := now / 1000000000

/-- what `acquireRequest` asks for this flow control at `now`: `none` = no request. `g` is the count wrapper. -/
def requestOf (g : GFC) (cnt : Counter) (m : Meter) (infl : Int) (now : Int) : Option Int :=
  let due := decide (unixS now - cnt.lastSync > 2)
  if !(cnt.event || due) then none
  else
    let resync := !cnt.event && due
    match g with
    | .empty _ => none
    | .miw w => some (w.expectToken infl)
    | .tbw w =>
      let hits := w.expectToken m now
      if hits ≤ 0 ∧ resync = false then none else some hits

/-- `AddAcquiring(hits)` -/
def GFC.addAcquiring (g : GFC) (hits : Int) : GFC :=
  match g with
  | .tbw w => .tbw { w with tokenInflight := i32add w.tokenInflight hits }
  | g => g

/-- which limiter `GetOrDefault(name)` hands to a request -/
inductive Choice | dflt | loc | remote
  deriving DecidableEq, Repr, Inhabited

/-- `upstreamLimiter.Load` (through `GetOrDefault`) -/
def load (cfg : Cfg) (st : State) : Choice :=
  match st.cache with
  | none => .dflt
  | some c =>
    match cfg.rateLimiter with
    | .remote =>
      if c.loc.config.strategy = .empty then .loc
      else if c.loc.config.strategy = .loc then .loc
      else if !cfg.hasCS then .loc
      else if !isReady st then .loc
      else if c.remote.isSome then .remote
      else .loc
    | .loc => .loc
    | .other => .loc


/-- `TryAcquire` of a plain limiter with `count` requests in its max-in-flight bucket -/
def Lim.admits (l : Lim) (count : Int) : Bool :=
  match l with
  | .mi size => decide (count < size)
  | _ => true

/-- does `TryAcquire` on this wrapper tell the counter (an event)? only a max-in-flight count wrapper does, unless it is
    degraded, over the limit, or `waitInflight+currentInflight > max` -/
def GFC.acquireEvent (g : GFC) (inflight : Int) : Bool :=
  match g with
  | .miw w => !w.unavail && decide (w.overLimited ≤ 0) && decide (1 + inflight ≤ w.max)
  | _ => false

/-- a request asks the limiter `GetOrDefault(name)` hands out (`Load` with the construction parameters) -/
def acquireStep (st : State) (id : Nat) : State :=
  if st.handles.any (·.id == id) then st
  else
    match load st.cfgv st, st.cache with
    | .loc, some c =>
      match c.loc.fc with
      | none => { st with lastAdmit := some false }
      | some fc =>
        if fc.admits c.fl.locCount then
          { st with lastAdmit := some true, inflight := st.inflight + 1,
                    handles := { id := id, side := .loc, gen := c.fl.locGen } :: st.handles,
                    cache := some { c with fl := { c.fl with locCount := c.fl.locCount + 1 } } }
        else { st with lastAdmit := some false }
    | .remote, some c =>
      match c.remote.bind (·.fc) with
      | none => { st with lastAdmit := some false }
      | some g =>
        -- maxInflightWrapper.TryAcquire: every path ends in the inner limiter's TryAcquire; the counter is told
        -- (an event) unless the wrapper is degraded, over the limit, or `waitInflight+currentInflight > max`
        let ev := g.acquireEvent st.inflight
        let cnt := if ev then { c.cnt with event := true } else c.cnt
        if g.inner.admits c.fl.remCount then
          { st with lastAdmit := some true, inflight := st.inflight + 1,
                    handles := { id := id, side := .rem, gen := c.fl.remOuter, inner := c.fl.remInner } :: st.handles,
                    cache := some { c with cnt := cnt, fl := { c.fl with remCount := c.fl.remCount + 1 } } }
        else { st with lastAdmit := some false, cache := some { c with cnt := cnt } }
    | _, _ =>
      -- the system default limiter: no limit, no meter
      { st with lastAdmit := some true, handles := { id := id, side := .dflt, gen := 0 } :: st.handles }

/-- `maxinflight` `Release`: the count never goes below zero -/
def decCount (n : Int) : Int := if n ≤ 0 then n else n - 1

/-- does `Release` on the remote wrapper tell the counter? a max-in-flight count wrapper does (`m.counter(-1)`) -/
def Cache.releaseEvent (c : Cache) : Bool :=
  match c.remote.bind (·.fc) with
  | some (.miw _) => true
  | _ => false

/-- the request finishes: `Release` on the limiter it kept -/
def releaseStep (st : State) (id : Nat) : State :=
  match st.handles.find? (·.id == id) with
  | none => st
  | some h =>
    let st := { st with handles := st.handles.filter (fun x => !(x.id == id)) }
    match h.side with
    | .dflt => st
    | .loc =>
      let st := { st with inflight := st.inflight - 1 }
      match st.cache with
      | some c =>
        if h.gen = c.fl.locGen then { st with cache := some { c with fl := { c.fl with locCount := decCount c.fl.locCount } } }
        else st
      | none => st
    | .rem =>
      let st := { st with inflight := st.inflight - 1 }
      match st.cache with
      | some c =>
        -- the remoteWrapper it kept releases into the limiter that is inside the wrapper NOW; a max-in-flight
        -- count wrapper also tells its counter (`m.counter(-1)`)
        if h.gen = c.fl.remOuter ∧ c.remote.isSome then
          let ev := c.releaseEvent
          { st with cache := some { c with fl := { c.fl with remCount := decCount c.fl.remCount },
                                           cnt := if ev then { c.cnt with event := true } else c.cnt } }
        else st
      | none => st

/-- a round without a request: `hasEvent()` consumed the pending event, nothing else changes -/
def tickQuiet (st : State) (c : Cache) (now : Int) : State :=
  { st with clock := now, lastReq := none, cache := some { c with cnt := { c.cnt with event := false } } }

/-- a round that sent a request for `hits` tokens: the wrapper afterwards is `g'`, the counter `cnt'` -/
def tickSent (st : State) (c : Cache) (rm : Remote) (g' : GFC) (cnt' : Counter) (now hits : Int) : State :=
  { st with clock := now, lastReq := some hits,
            cache := some { c with remote := some { rm with fc := some g' }, cnt := cnt' } }

/-- the acquire result `doAcquire` hands to `globalCounter.send` for the answer `a` to the request of `hits` tokens
    built at `now` -/
def tickReply (a : TickAnswer) (hits now : Int) : Reply :=
  { hasReq := true, tokens := hits, accept := a.accept, limit := a.limit, err := a.err, rt := now }

def step (st : State) : Op → Except String State
  | .schema s =>
    match st.cache with
    | none =>
      -- `NewFlowControlCache` + first `localWrapper.Sync`: the zero `localConfig` has another Name, never DeepEqual
      match newLim s with
      | .error e => .error e
      | .ok fc => .ok { st with cache := some { loc := { config := s, fc := some fc }, remote := none, cnt := {} } }
    | some c =>
      match localSync c.loc s with
      | .error e => .error e
      | .ok (l, stop) =>
        .ok { st with cache := some { c with loc := l, remote := if stop then none else c.remote,
                                             fl := if localRecreates c.loc s
                                                   then { c.fl with locGen := c.fl.locGen + 1, locCount := 0 } else c.fl } }
  | .shards n => .ok { st with shardCount := n }
  | .sync fail n leader now =>
    if fail then .ok { st with clock := now }
    else
      match leader with
      | none => .ok { st with shardCount := n, clock := now }
      | some l =>
        -- `if oldLeader != ep.Leader { leaderEndpoints.Store(…); setLeaderStatus(shard, leader, true) }`
        if st.leader ≠ l then
          .ok { st with shardCount := n, leader := l, hb := some (hbStep (st.hb.getD {}) true now), clock := now }
        else .ok { st with shardCount := n, clock := now }
  | .hb ok now other =>
    if other then .ok st
    else
      .ok { st with hb := some (hbStep (st.hb.getD {}) ok now), clock := now }
  | .reconcileCount =>
    match st.cache with
    | none => .ok st
    | some c =>
      if c.loc.config.strategy ≠ .count then .ok st
      else if !enableGlobal c.loc.config then .ok st
      else
        let item : Item := { strategy := c.loc.config.strategy, mi := c.loc.config.gmi, tb := c.loc.config.gtb }
        match cacheRemoteSync c item (unixS st.clock) with
        | .error e => .error e
        | .ok c' => .ok { st with cache := some c' }
  | .answer named item =>
    match st.cache with
    | none => .ok st
    | some c =>
      if !named then .ok st
      else if !enableGlobal c.loc.config then .ok st
      else if itemType item ≠ guessType c.loc.config then .ok st   -- flowcontrol_type_mismatch
      else
        match cacheRemoteSync c item (unixS st.clock) with
        | .error e => .error e
        | .ok c' => .ok { st with cache := some c' }
  | .meter m => .ok { st with meter := m }
  | .setLimit r =>
    match st.cache with
    | none => .ok st
    | some c =>
      match c.remote with
      | none => .ok st
      | some rm =>
        match rm.fc with
        | none => .ok { st with lastRet := false }
        | some g =>
          match gfcSetLimit g c.loc.config st.meter r with
          | .error e => .error e
          | .ok (g', b) => .ok { st with cache := some { c with remote := some { rm with fc := some g' } }, lastRet := b }
  | .acquire id => .ok (acquireStep st id)
  | .release id => .ok (releaseStep st id)
  | .restart => .ok st
  | .event =>
    match st.cache with
    | none => .ok st
    | some c =>
      match c.remote with
      | none => .ok st
      | some rm =>
        match rm.fc with
        | some (.miw _) => .ok { st with cache := some { c with cnt := { c.cnt with event := true } } }
        | some (.tbw _) => .ok { st with cache := some { c with cnt := { c.cnt with event := true } } }
        | _ => .ok st
  | .tick now ans =>
    match st.cache with
    | none => .ok { st with clock := now, lastReq := none }
    | some c =>
      match c.remote with
      | none => .ok (tickQuiet st c now)
      | some rm =>
        match rm.fc with
        | none => .ok (tickQuiet st c now)
        | some g =>
          match requestOf g c.cnt st.meter st.inflight now with
          | none => .ok (tickQuiet st c now)
          | some hits =>
            match ans with
            | none => .ok (tickSent st c rm (g.addAcquiring hits) { c.cnt with event := false } now hits)
            | some a =>
              match gfcSetLimit (g.addAcquiring hits) c.loc.config st.meter (tickReply a hits now) with
              | .error e => .error e
              | .ok (g', _) =>
                -- (`send` drops SetLimit's result: it only decides whether another event is raised 200 ms later)
                .ok (tickSent st c rm g' { event := false, lastSync := unixS now } now hits)

/-- what the harness reads back after every operation -/
structure Obs where
  choice : Choice := .dflt
  /-- the limiter handed out (`none`: the system default, or a wrapper that was never filled) -/
  lim : Option Lim := none
  /-- the remote wrapper's limiter, whether handed out or not -/
  rlim : Option Lim := none
  /-- wrapper kind: 0 none, 1 empty, 2 max-in-flight, 3 token bucket -/
  wkind : Nat := 0
  unavail : Bool := false
  wmax : Int := 0
  wreserve : Int := 0
  lastAcq : Int := 0
  acquired : Int := 0
  overLimited : Int := 0
  tokens : Int := 0
  tokenBatch : Int := 0
  tokenInflight : Int := 0
  wqps : Int := 0
  wburst : Int := 0
  ready : Bool := false
  ret : Bool := false
  remoteConfig : Option Item := none
  leader : Nat := 0
  /-- the counter of the flow control: a pending event, `lastSyncTime`; the request built by the last tick -/
  event : Bool := false
  lastSync : Int := 0
  req : Option Int := none
  /-- the result of the last `acquire` -/
  admitted : Option Bool := none
  deriving DecidableEq, Repr, Inhabited

def observe (cfg : Cfg) (st : State) : Obs :=
  let ch := load cfg st
  let gfc : Option GFC := st.cache.bind (fun c => c.remote.bind (·.fc))
  let rlim := gfc.map (·.inner)
  let lim : Option Lim := match ch with
    | .dflt => none
    | .loc => st.cache.bind (·.loc.fc)
    | .remote => rlim
  let base : Obs := { choice := ch, lim := lim, rlim := rlim, ready := isReady st, ret := st.lastRet,
                      remoteConfig := st.cache.bind (fun c => c.remote.bind (·.remoteConfig)), leader := st.leader,
                      req := st.lastReq, admitted := st.lastAdmit }
  let cnt : Counter := match st.cache with | some c => c.cnt | none => {}
  match gfc with
  | none => base
  | some (.empty _) => { base with wkind := 1 }
  | some (.miw w) => { base with wkind := 2, unavail := w.unavail, wmax := w.max, wreserve := w.reserve,
                                 lastAcq := w.lastAcquireTime, acquired := w.acquired, overLimited := w.overLimited,
                                 event := cnt.event, lastSync := cnt.lastSync }
  | some (.tbw w) => { base with wkind := 3, unavail := w.unavail, wreserve := w.reserve, lastAcq := w.lastAcquireTime,
                                 tokens := w.tokens, tokenBatch := w.tokenBatch, tokenInflight := w.tokenInflight,
                                 wqps := w.qps, wburst := w.burst, event := cnt.event, lastSync := cnt.lastSync }

/-- run an operation list from the freshly constructed `upstreamLimiter`: the observation after every operation,
    and the panic message if one of them panicked (the run stops there, as the process would) -/
def runFrom (cfg : Cfg) (st : State) : List Op → List Obs × Option String
  | [] => ([], none)
  | op :: ops =>
    match step st op with
    | .error e => ([], some e)
    | .ok st' =>
      let r := runFrom cfg st' ops
      (observe cfg st' :: r.1, r.2)

/-- the freshly constructed `upstreamLimiter` -/
def initState (cfg : Cfg) : State := { cfgv := cfg }

def run (cfg : Cfg) (ops : List Op) : List Obs × Option String := runFrom cfg (initState cfg) ops

/-- the in-flight counts of the current local and remote max-in-flight buckets (what a capacity probe sees missing) -/
def countsOf (st : State) : Int × Int :=
  match st.cache with
  | some c => (c.fl.locCount, c.fl.remCount)
  | none => (0, 0)

/-- `countsOf` after every operation -/
def countsFrom (st : State) : List Op → List (Int × Int)
  | [] => []
  | op :: ops =>
    match step st op with
    | .error _ => []
    | .ok st' => countsOf st' :: countsFrom st' ops

/-- the state after an operation list (`none` after a panic) -/
def exec (st : State) : List Op → Option State
  | [] => some st
  | op :: ops =>
    match step st op with
    | .error _ => none
    | .ok st' => exec st' ops

end KG.Model.RemoteLimiter
