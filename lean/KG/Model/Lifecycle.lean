import KG.Base.Json
/-!
# Lifecycle model (C15): removal of clusters / endpoints, cancellation scopes

Mirror of
* `pkg/clusters/manager.go`            — `Get`, `AddWithKey`, `doDelete` (`Delete` / `DeleteWithStop`)
* `pkg/clusters/clusterinfo.go`        — `NewEmptyClusterInfo`, `Sync`, `syncEndpoints`, `addOrUpdateEndpoint`, `Stop`,
                                         `LoadServerNames`, `Pop` (only the candidate set, the choice is an oracle)
* `pkg/clusters/endpoint.go`           — `EnsureGatewayHealthCheck`, `startGatewayHealthCheck` (the two goroutines as one scope)
* `pkg/gateway/controllers/upstream_controller.go` — `syncUpstreamCluster`, `checkServerNameConflict`,
                                         `AddOrUpdateForServerNames`, `DeleteForServerNames`
* `pkg/gateway/endpoints/filters/upstreaminfo.go` (name → cluster, 503) and
  `pkg/gateway/proxy/dispatcher/dispatcher.go` (`Pop`, `newRequestForProxy` + the goroutine that cancels the
  proxied request when `endpoint.Context()` ends).

Go `context`s are modelled as *chains of cancellation points*: a context is the list of the scope ids from
itself up to its root; `cancel` of a scope records its id; a context is done iff one of the ids of its chain was
cancelled (this is `context.WithCancel`: cancelling a parent cancels every descendant, a child of a cancelled
parent is born cancelled).  The forest is cluster → endpoint → { health-check loop, in-flight request }.

The watcher goroutine of the dispatcher (`select { <-newReq.Context().Done() ; <-endpoint.Context().Done(): cancel() }`)
makes the proxied request's context a descendant of the endpoint's: it is the scope `rq r` under `ep e`.
-/
namespace KG.Model.Lifecycle
open KG

/-! ## strings.ToLower (ASCII) -/

def lowerByte (b : UInt8) : UInt8 := if 65 ≤ b.toNat ∧ b.toNat ≤ 90 then UInt8.ofNat (b.toNat + 32) else b
def lower (s : Str) : Str := s.map lowerByte

/-! ## cancellation scopes -/

/-- identity of a cancellation scope (a `context.WithCancel` call site instance) -/
inductive Sid where
  | cl (o : Nat)        -- `ClusterInfo.ctx`           (NewEmptyClusterInfo)
  | ep (e : Nat)        -- `EndpointInfo.ctx`          (addOrUpdateEndpoint: child of the cluster's)
  | hc (e g : Nat)      -- g-th health-check loop of endpoint e (EnsureGatewayHealthCheck: child of the endpoint's)
  | rq (r : Nat)        -- proxied request r           (newRequestForProxy + watcher: cut when the endpoint's ends)
  deriving DecidableEq, Repr

abbrev Chain := List Sid

def memSid (cs : List Sid) (s : Sid) : Bool := cs.any (fun c => c == s)

/-- `ctx.Err() != nil` -/
def done (cancels : List Sid) (ch : Chain) : Bool := ch.any (fun s => memSid cancels s)

/-- `EndpointInfo` (+ its `endpointStatus`) -/
structure Ep where
  id : Nat                -- identity (allocation number)
  owner : Nat             -- the ClusterInfo object it belongs to
  url : Str               -- `Endpoint`
  inMap : Bool            -- still stored in `ClusterInfo.Endpoints`
  disabled : Bool
  healthy : Bool
  hcOn : Bool             -- `cancelHealthCheck != nil`
  hcGen : Nat             -- health-check loops started so far (the current / last one is `hcGen - 1`)
  deriving DecidableEq, Repr

def Ep.chain (e : Ep) : Chain := [.ep e.id, .cl e.owner]
def Ep.hcChain (e : Ep) (g : Nat) : Chain := [.hc e.id g, .ep e.id, .cl e.owner]
def reqChain (r eid o : Nat) : Chain := [.rq r, .ep eid, .cl o]
def clChain (o : Nat) : Chain := [.cl o]

/-- `ClusterInfo` (what matters here: name and the server names of the last synced secureServing) -/
structure Cluster where
  name : Str
  aliases : List Str
  deriving DecidableEq, Repr

/-- `LoadServerNames` -/
def Cluster.serverNames (c : Cluster) : List Str := c.name :: c.aliases

/-- where a request is in its life -/
inductive Phase where
  | rejected                   -- WithUpstreamInfo: 503 "cluster is not being proxied"
  | resolved (o : Nat)         -- cluster found, the dispatcher has not popped an endpoint yet
  | noEndpoint (o : Nat)       -- dispatcher: 503 "no ready endpoints"
  | proxying (eid o : Nat)     -- endpoint picked, newReq + watcher exist (connecting / waiting for headers / streaming)
  | finished (eid o : Nat)     -- ServeHTTP returned
  deriving DecidableEq, Repr

structure State where
  next : Nat                          -- allocation counter (object identities)
  cancels : List Sid                  -- every scope whose cancel function has been called
  heap : Nat → Option Cluster         -- every ClusterInfo ever created
  eps : List Ep                       -- every EndpointInfo ever created
  names : Str → Option Nat            -- `manager.clusters` (sync.Map): key ↦ ClusterInfo
  reqs : Nat → Option Phase           -- requests, keyed by the id the client gave them

def init : State := { next := 0, cancels := [], heap := fun _ => none, eps := [], names := fun _ => none, reqs := fun _ => none }

def upd {α : Type} (f : Nat → Option α) (k : Nat) (v : α) : Nat → Option α := fun x => if x = k then some v else f x

def State.isDone (st : State) (ch : Chain) : Bool := done st.cancels ch

/-! ## pkg/clusters/manager.go -/

/-- `manager.Get` -/
def get (st : State) (k : Str) : Option Nat := st.names (lower k)

/-- `manager.AddWithKey` -/
def addWithKey (st : State) (k : Str) (o : Nat) : State :=
  { st with names := fun x => if x = lower k then some o else st.names x }

/-- `manager.doDelete`: `LoadAndDelete`, then `cluster.Stop()` iff `stop` -/
def doDelete (st : State) (k : Str) (stop : Bool) : State :=
  match st.names (lower k) with
  | none => st
  | some o =>
    { st with names := fun x => if x = lower k then none else st.names x,
              cancels := if stop then Sid.cl o :: st.cancels else st.cancels }

def nameOf (st : State) (o : Nat) : Option Str := (st.heap o).map (·.name)

/-! ## pkg/clusters/endpoint.go -/

/-- `EnsureGatewayHealthCheck`: returns the scopes it cancels and the updated endpoint. -/
def ensureHC (e : Ep) : List Sid × Ep :=
  -- if e.IstDisabled() && e.cancelHealthCheck != nil { cancel(); e.cancelHealthCheck = nil }
  let r1 : List Sid × Ep := if e.disabled && e.hcOn then ([Sid.hc e.id (e.hcGen - 1)], { e with hcOn := false }) else ([], e)
  -- if !e.IstDisabled() && e.cancelHealthCheck == nil { newCtx := WithCancel(ctx); startGatewayHealthCheck }
  let e2 : Ep := if !r1.2.disabled && !r1.2.hcOn then { r1.2 with hcOn := true, hcGen := r1.2.hcGen + 1 } else r1.2
  (r1.1, e2)

/-- the health-check goroutines of `e` are running (their context is not done) -/
def hcLive (cancels : List Sid) (e : Ep) : Bool := e.hcOn && !done cancels (e.hcChain (e.hcGen - 1))

/-! ## pkg/clusters/clusterinfo.go -/

/-- key match in `ClusterInfo.Endpoints` -/
def epMatches (o : Nat) (u : Str) (e : Ep) : Bool := e.owner == o && e.inMap && e.url == u

def hasStr (l : List Str) (u : Str) : Bool := l.any (fun x => x == u)

/-- `deleted := currentEPs.Diff(wantedEPs)` -/
def isDropped (o : Nat) (wanted : List Str) (e : Ep) : Bool := e.owner == o && e.inMap && !hasStr wanted e.url

/-- `c.Endpoints.LoadAndDelete(ep)` -/
def dropEp (o : Nat) (wanted : List Str) (e : Ep) : Ep := if isDropped o wanted e then { e with inMap := false } else e

/-- existing endpoint: `info.SetDisabled(disabled); EnsureGatewayHealthCheck(info, …, info.ctx)` -/
def updEp (o : Nat) (u : Str) (dis : Bool) (e : Ep) : Ep :=
  if epMatches o u e then (ensureHC { e with disabled := dis }).2 else e
def updCancels (o : Nat) (u : Str) (dis : Bool) (e : Ep) : List Sid :=
  if epMatches o u e then (ensureHC { e with disabled := dis }).1 else []

/-- `addOrUpdateEndpoint` -/
def addOrUpdate (st : State) (o : Nat) (u : Str) (dis : Bool) : State :=
  if st.eps.any (epMatches o u) then
    { st with eps := st.eps.map (updEp o u dis), cancels := st.eps.flatMap (updCancels o u dis) ++ st.cancels }
  else
    -- ctx, cancel := context.WithCancel(c.Context()); status {Disabled: disabled, Healthy: false}
    let r := ensureHC { id := st.next, owner := o, url := u, inMap := true, disabled := dis, healthy := false, hcOn := false, hcGen := 0 }
    { st with next := st.next + 1, eps := st.eps ++ [r.2], cancels := r.1 ++ st.cancels }

/-- `disabled.Contains(ep)` -/
def disabledOf (servers : List (Str × Bool)) (u : Str) : Bool := servers.any (fun s => s.1 == u && s.2)

/-- `syncEndpoints`: removed endpoints leave the map and get `info.cancel()`, wanted ones are added or updated.
    (The Go code ranges over the *set* of wanted endpoints; ranging over the list with duplicates gives the same
    state because `addOrUpdateEndpoint` is idempotent for a fixed `disabled` flag.) -/
def syncEndpoints (st : State) (o : Nat) (servers : List (Str × Bool)) : State :=
  let wanted := servers.map (·.1)
  let st1 : State := { st with eps := st.eps.map (dropEp o wanted),
                               cancels := (st.eps.filter (isDropped o wanted)).map (fun e => Sid.ep e.id) ++ st.cancels }
  servers.foldl (fun s sv => addOrUpdate s o sv.1 (disabledOf servers sv.1)) st1

/-- `Pop`: the endpoints the picker may return (`Endpoints.Load` succeeds and `IsReady()`) -/
def pickable (st : State) (o : Nat) : List Ep :=
  st.eps.filter (fun e => e.owner == o && e.inMap && !e.disabled && e.healthy)

/-! ## pkg/gateway/controllers/upstream_controller.go -/

structure Spec where
  name : Str
  aliases : List Str                 -- spec.secureServing.serverNames
  servers : List (Str × Bool)        -- (endpoint, disabled)
  deriving Repr

def foreign (st : State) (cname : Str) (n : Str) : Bool :=
  match get st n with
  | some o => nameOf st o != some cname
  | none => false

/-- `checkServerNameConflict` (`true` = error) -/
def conflicts (st : State) (cname : Str) (old new : List Str) : Bool :=
  if old = new then false
  else new.any (foreign st cname) || old.any (fun n => !hasStr new n && foreign st cname n)

/-- one step of the loop of `DeleteForServerNames` -/
def delStep (cname : Str) (s : State) (sn : Str) : State :=
  match get s sn with
  | some o' => if nameOf s o' = some cname then doDelete s sn true else s
  | none => s

/-- `DeleteForServerNames` -/
def deleteForServerNames (st : State) (cname : Str) : State :=
  match get st cname with
  | none => st
  | some o =>
    match st.heap o with
    | none => st
    | some c => c.serverNames.foldl (delStep cname) st

/-- old names that are no longer wanted: `m.Delete` (no stop) -/
def dropNameStep (cname : Str) (new : List Str) (s : State) (on : Str) : State :=
  if hasStr new on then s
  else match get s on with
    | some o' => if nameOf s o' = some cname then doDelete s on false else s
    | none => s

def addNameStep (old : List Str) (o : Nat) (s : State) (nn : Str) : State :=
  if hasStr old nn then s else addWithKey s nn o

/-- `AddOrUpdateForServerNames` (its conflict check repeats, on the same arguments and the same manager, the check
    `syncUpstreamCluster` has just passed, so its error branch is not reachable from `applySpec`). -/
def addOrUpdateForServerNames (st : State) (old : List Str) (o : Nat) : State :=
  match st.heap o with
  | none => st
  | some c =>
    let new := c.serverNames
    if old = new then st
    else new.foldl (addNameStep old o) (old.foldl (dropNameStep c.name new) st)

/-- `syncUpstreamCluster` when the lister has the object -/
def applySpec (st : State) (sp : Spec) : State :=
  let cname := lower sp.name
  let al := sp.aliases.map lower
  let new := cname :: al
  let old : List Str := match get st cname with
    | some o => (match st.heap o with | some c => c.serverNames | none => [])
    | none => []
  if conflicts st cname old new then st      -- requeue, nothing changed
  else match get st cname with
    | none =>
      -- bootstrap: CreateClusterInfo = NewEmptyClusterInfo + Sync, then AddOrUpdateForServerNames(nil, info)
      let o := st.next
      let st1 : State := { st with next := st.next + 1, heap := upd st.heap o { name := cname, aliases := al } }
      addOrUpdateForServerNames (syncEndpoints st1 o sp.servers) [] o
    | some o =>
      match st.heap o with
      | none => st
      | some c =>
        if c.name ≠ cname then st            -- `Sync` skips a mismatching name
        else
          let st1 : State := { st with heap := upd st.heap o { c with aliases := al } }
          addOrUpdateForServerNames (syncEndpoints st1 o sp.servers) c.serverNames o

/-- `syncUpstreamCluster` when the lister answers NotFound -/
def deleteSpec (st : State) (name : Str) : State := deleteForServerNames st (lower name)

/-! ## requests: WithUpstreamInfo → dispatcher -/

/-- the request enters the gateway: `WithUpstreamInfo` resolves the host -/
def reqStart (st : State) (r : Nat) (host : Str) : State :=
  match st.reqs r with
  | some _ => st
  | none =>
    match get st host with
    | none => { st with reqs := upd st.reqs r Phase.rejected }
    | some o => { st with reqs := upd st.reqs r (Phase.resolved o) }

/-- the dispatcher pops an endpoint (`choice` stands for the load-balancing counter / map order) and creates the
    proxied request with its watcher -/
def reqPick (st : State) (r : Nat) (choice : Nat) : State :=
  match st.reqs r with
  | some (Phase.resolved o) =>
    match (pickable st o)[choice % (pickable st o).length]? with
    | none => { st with reqs := upd st.reqs r (Phase.noEndpoint o) }
    | some e => { st with reqs := upd st.reqs r (Phase.proxying e.id o) }
  | _ => st

/-- the proxied exchange ends by itself (upstream finished / client went away): ServeHTTP returns, the request
    context is cancelled by net/http -/
def reqFinish (st : State) (r : Nat) : State :=
  match st.reqs r with
  | some (Phase.proxying e o) => { st with reqs := upd st.reqs r (Phase.finished e o), cancels := Sid.rq r :: st.cancels }
  | _ => st

/-- the proxied request's context is done -/
def reqDone (st : State) (r eid o : Nat) : Bool := done st.cancels (reqChain r eid o)

/-- every running health-check loop of an endpoint with this url probes the upstream and stores the answer -/
def health (st : State) (u : Str) (ok : Bool) : State :=
  { st with eps := st.eps.map (fun e => if e.url == u && hcLive st.cancels e then { e with healthy := ok } else e) }

/-! ## histories -/

inductive Op where
  | apply (sp : Spec)
  | delete (name : Str)
  | reqStart (r : Nat) (host : Str)
  | reqPick (r : Nat) (choice : Nat)
  | reqFinish (r : Nat)
  | health (u : Str) (ok : Bool)
  deriving Repr

def step (st : State) : Op → State
  | .apply sp => applySpec st sp
  | .delete n => deleteSpec st n
  | .reqStart r h => reqStart st r h
  | .reqPick r c => reqPick st r c
  | .reqFinish r => reqFinish st r
  | .health u ok => health st u ok

def run (ops : List Op) (st : State) : State := ops.foldl step st

end KG.Model.Lifecycle
