/-!
# C05 (a) — the lock-free max-in-flight counter, one model step per atomic operation

Mirrors `atomicTokenBucket` of `github.com/zoumo/golib/lock/maxinflight/max_inflight.go`, which is what
`flowcontrol.NewFlowControl` puts behind a `MaxRequestsInflight` schema (`maxinflight.New(uint32(Max))`):

```go
func (f *atomicTokenBucket) TryAcquire() bool {
	count := atomic.LoadInt64(&f.count)                    // idle      -> acq1 count
	max := int64(atomic.LoadUint32(&f.max))                // acq1 c0   -> cas c0 max | (reject) | adding max
	if count < 0 {
		if atomic.CompareAndSwapInt64(&f.count, count, 1) { // cas c0 m  -> holding (admitted) | adding m
			return true
		}
	} else if count >= max {
		return false
	}
	count = atomic.AddInt64(&f.count, 1)                   // adding m  -> holding (admitted) | rollback
	if count > max {
		atomic.AddInt64(&f.count, -1)                      // rollback  -> idle (rejected)
		return false
	}
	return true
}
func (f *atomicTokenBucket) Release() {
	if f.count <= 0 {                                      // holding   -> idle (slot NOT given back) | rel1
		return
	}
	count := atomic.AddInt64(&f.count, -1)                 // rel1      -> idle | rel2
	if count < 0 {
		atomic.StoreInt64(&f.count, 0)                     // rel2      -> idle
	}
}
func (f *atomicTokenBucket) Resize(n uint32) { if f.max != n { atomic.StoreUint32(&f.max, n) } }
```

Threads are unbounded in number (`pc : Tid → PC`). Clients are well-formed by construction of the
step function: a thread that is `idle` can only start a `TryAcquire`, a thread whose `TryAcquire`
returned `true` (`holding`) can only start its one `Release`. `holders` and `pending` are ghost
(history) variables: the threads admitted and not yet finished, and the threads that have added 1 and
are about to take it back.

`count` is an `Int` (the code: `int64`; overflow needs 2^63 concurrent callers), `max` a `Nat`
(the code: `uint32`).
-/
namespace KG.Model.MaxInflight

abbrev Tid := Nat

/-- Program counter of one thread = which atomic operation it executes next. -/
inductive PC where
  | idle
  | acq1 (c0 : Int)
  | cas (c0 m : Int)
  | adding (m : Int)
  | rollback
  | holding
  | rel1
  | rel2
  deriving DecidableEq, Repr, Inhabited

structure Sys where
  count : Int
  max : Nat
  pc : Tid → PC
  /-- ghost: admitted and unfinished (TryAcquire returned true, the decrement of Release not yet done) -/
  holders : List Tid
  /-- ghost: threads between their `Add(+1)` that overshot and the compensating `Add(-1)` -/
  pending : List Tid

def init (max : Nat) : Sys :=
  { count := 0, max := max, pc := fun _ => .idle, holders := [], pending := [] }

def setPc (s : Sys) (t : Tid) (p : PC) : Tid → PC := fun u => if u = t then p else s.pc u

/-- What the thread's call returned in this step (`none`: the call is still running). -/
inductive Out where
  | none | admitted | rejected | released
  deriving DecidableEq, Repr, Inhabited

/-- Thread `t` executes its next atomic operation. -/
def stepThread (s : Sys) (t : Tid) : Sys × Out :=
  match s.pc t with
  | .idle => ({ s with pc := setPc s t (.acq1 s.count) }, .none)
  | .acq1 c0 =>
      if c0 < 0 then ({ s with pc := setPc s t (.cas c0 s.max) }, .none)
      else if c0 ≥ (s.max : Int) then ({ s with pc := setPc s t .idle }, .rejected)
      else ({ s with pc := setPc s t (.adding s.max) }, .none)
  | .cas c0 m =>
      if s.count = c0 then
        ({ s with count := 1, pc := setPc s t .holding, holders := t :: s.holders }, .admitted)
      else ({ s with pc := setPc s t (.adding m) }, .none)
  | .adding m =>
      if s.count + 1 > m then
        ({ s with count := s.count + 1, pc := setPc s t .rollback, pending := t :: s.pending }, .none)
      else
        ({ s with count := s.count + 1, pc := setPc s t .holding, holders := t :: s.holders }, .admitted)
  | .rollback =>
      ({ s with count := s.count - 1, pc := setPc s t .idle, pending := s.pending.erase t }, .rejected)
  | .holding =>
      if s.count ≤ 0 then ({ s with pc := setPc s t .idle, holders := s.holders.erase t }, .released)
      else ({ s with pc := setPc s t .rel1 }, .none)
  | .rel1 =>
      if s.count - 1 < 0 then
        ({ s with count := s.count - 1, pc := setPc s t .rel2, holders := s.holders.erase t }, .none)
      else
        ({ s with count := s.count - 1, pc := setPc s t .idle, holders := s.holders.erase t }, .released)
  | .rel2 => ({ s with count := 0, pc := setPc s t .idle }, .released)

/-- One event of a schedule: a thread executes one atomic operation, or the (single) configuring
    thread stores a new limit (`Resize`; its plain read of `f.max` only races with itself). -/
inductive Ev where
  | step (t : Tid)
  | resize (n : Nat)
  deriving DecidableEq, Repr

def step (s : Sys) : Ev → Sys × Out
  | .step t => stepThread s t
  | .resize n => ({ s with max := n }, .none)

def run (s : Sys) : List Ev → Sys
  | [] => s
  | e :: es => run (step s e).1 es

/-- States reachable from a fresh counter by some schedule. -/
def Reachable (s : Sys) : Prop := ∃ m es, s = run (init m) es

/-- No thread is inside a call. -/
def Quiescent (s : Sys) : Prop := ∀ t, s.pc t = .idle ∨ s.pc t = .holding

/-- The source-order list of shared-memory operations the model has a step for; compared with the
    list regenerated from the dependency's source (`KG.Gen.C05`). -/
def tryAcquireOps : List String :=
  ["atomic.LoadInt64 count", "atomic.LoadUint32 max", "atomic.CompareAndSwapInt64 count count 1",
   "atomic.AddInt64 count 1", "atomic.AddInt64 count -1"]
def releaseOps : List String := ["read count", "atomic.AddInt64 count -1", "atomic.StoreInt64 count 0"]
def resizeOps : List String := ["read max", "atomic.StoreUint32 max n"]
/-- `flowcontrol.NewFlowControl` builds the limiter of a `MaxRequestsInflight` schema with `maxinflight.New`,
    which is the atomic implementation modelled here. -/
def counterCtor : List String :=
  ["maxinflight.New(uint32(schema.MaxRequestsInflight.Max))", "New=return newBucket(Atomic, size)",
   "Atomic:return newAtomic(size)", "newAtomic=&atomicTokenBucket"]

/-! ## The same code under sequential use (what layer (b) composes) -/

structure Counter where
  count : Int
  max : Nat
  deriving DecidableEq, Repr

/-- `TryAcquire` run to completion without interference. -/
def Counter.tryAcquire (c : Counter) : Counter × Bool :=
  if c.count < 0 then ({ c with count := 1 }, true)
  else if c.count ≥ (c.max : Int) then (c, false)
  else if c.count + 1 > (c.max : Int) then (c, false)   -- add, overshoot, roll back
  else ({ c with count := c.count + 1 }, true)

/-- `Release` run to completion without interference. -/
def Counter.release (c : Counter) : Counter :=
  if c.count ≤ 0 then c
  else if c.count - 1 < 0 then { c with count := 0 }
  else { c with count := c.count - 1 }

def Counter.resize (c : Counter) (n : Nat) : Counter := { c with max := n }

/-- Run thread `t` until its current call returns (at most `fuel` atomic steps). -/
def runCall (s : Sys) (t : Tid) : Nat → Sys × Out
  | 0 => (s, .none)
  | fuel + 1 =>
    match stepThread s t with
    | (s', .none) => runCall s' t fuel
    | r => r


/-! ## Many limiter objects, reconfiguration and concurrency together

Every limiter object the gateway ever creates has its own counter. An event addresses one object: a thread
(= a request, which keeps the object it was handed by its one lookup) executes its next atomic operation on
it, or `Sync` resizes it in place. A type change, a deletion or a re-addition only changes which object
*later* lookups are handed — here: which object later events address — so every history of
reconfigurations interleaved in any way with any number of requests is a list of `(object, event)`. -/

structure Heap where
  objs : Nat → Sys

def Heap.init (maxOf : Nat → Nat) : Heap := ⟨fun o => KG.Model.MaxInflight.init (maxOf o)⟩

def Heap.step (h : Heap) (o : Nat) (e : Ev) : Heap :=
  ⟨fun p => if p = o then (KG.Model.MaxInflight.step (h.objs o) e).1 else h.objs p⟩

def Heap.run : Heap → List (Nat × Ev) → Heap
  | h, [] => h
  | h, (o, e) :: es => Heap.run (h.step o e) es

/-- the events of a global schedule that address object `o` -/
def eventsOf (o : Nat) : List (Nat × Ev) → List Ev
  | [] => []
  | (p, e) :: es => if p = o then e :: eventsOf o es else eventsOf o es

end KG.Model.MaxInflight
