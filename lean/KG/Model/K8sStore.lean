import KG.Base.Json
import KG.Gen.C19
/-!
# Model of the API-backed limiter store (C19)

Mirrors, function by function, `pkg/ratelimiter/store/k8s/cache_store.go` (`objectStore`) over
`pkg/ratelimiter/store/local/local.go` (`localStore`, the cache) and a stand-in for the API
(the typed `RateLimitConditions()` client over an object store: `Api`).

* A condition (`Cond`) is `metadata.name`, `spec.upstreamCluster`, the rest of the spec (`spec`), the status
  (`status`), the remaining metadata (`labels`) and `metadata.resourceVersion` (`rv`, 0 = "").
* The API (`Api`) maps a name to a condition; every successful write hands out a fresh resourceVersion;
  an update carrying a non-empty, stale resourceVersion is a conflict.
* Every API call the code makes consumes ONE entry of the fault script (`World.script`), exactly where
  the call is made (`call`): `ok` lets the call through (it may still fail naturally: not found, already
  exists, conflict), the error kinds answer with that error and leave the API untouched, `lost` applies the
  call and answers with an error (a reply lost after the commit). The API never reports an object it holds
  as missing: an injected `notFound` on an object means that somebody else has just removed it.
* `World.trace` records the API after every call: these are the crash points. A crash discards the store
  (cache, flags) — the API at the crash is an element of the trace, and what the next holder of a shard sees
  is `load` of a fresh store on that element.
* `wait.ExponentialBackoff(retry.DefaultRetry, …)` / `retry.RetryOnConflict(retry.DefaultRetry, …)` are the
  loops `couLoop` / `delLoop` on the number of remaining steps (`Cfg.steps`, 5 in client-go).
* `sync.Map` iteration order is not determined: `flush`, `stop`, `deleteUpstream` take the visiting order as
  a hint (`arrange`), every theorem holds for every hint.
* `util.GetShardID(upstream, shardCount)` is the parameter `sh : Str → Nat` (FNV itself is C13's business).
-/
namespace KG.Model.K8sStore
open KG

structure Cond where
  name : Str
  upstream : Str
  spec : Nat
  status : Nat
  labels : Nat
  rv : Nat
deriving DecidableEq, Repr

/-- what the property speaks about: name, spec (incl. upstream) and status -/
structure Data where
  upstream : Str
  spec : Nat
  status : Nat
deriving DecidableEq, Repr

def Cond.data (c : Cond) : Data := ⟨c.upstream, c.spec, c.status⟩

/-- Error classes the code (and the harness) can tell apart. `timeout` is `wait.ErrWaitTimeout`. -/
inductive Err | notFound | conflict | alreadyExists | other | timeout
deriving DecidableEq, Repr

inductive Fault | ok | notFound | conflict | alreadyExists | transient | lost
deriving DecidableEq, Repr

/-! ## The API stand-in -/

structure Api where
  objs : List Cond
  nextRv : Nat
deriving DecidableEq, Repr

def Api.get (a : Api) (n : Str) : Option Cond := a.objs.find? (fun c => c.name = n)

/-- The API the limiter talks to is the control plane this tree serves: a write to the MAIN resource (all the store
    ever does) keeps the submitted spec AND status because `ratelimitconditions` is registered WITHOUT a status
    subresource strategy (regenerated from rest.go + apiserver-runtime's strategy.go). `Api.write` relies on it;
    `KG.Props.C19.api_persists_status` makes it an obligation; the harness applies the real served strategy. -/
def servedKeepsStatus : Bool := KG.Gen.C19.mainResourceWritesPersistStatus

/-- store `c` under its name with a fresh resourceVersion -/
def Api.write (a : Api) (c : Cond) : Api :=
  { objs := { c with rv := a.nextRv } :: a.objs.filter (fun d => ¬ d.name = c.name), nextRv := a.nextRv + 1 }

def Api.remove (a : Api) (n : Str) : Api :=
  { a with objs := a.objs.filter (fun d => ¬ d.name = n) }

/-- the object as stored by `write` -/
def Api.stamped (a : Api) (c : Cond) : Cond := { c with rv := a.nextRv }

/-- PUT: not found when absent; conflict when the object carries a stale resourceVersion. -/
def natUpdate (c : Cond) (a : Api) : Api × Except Err Cond :=
  match a.get c.name with
  | none => (a, .error .notFound)
  | some old =>
    if c.rv ≠ 0 ∧ c.rv ≠ old.rv then (a, .error .conflict)
    else (a.write c, .ok (a.stamped c))

/-- POST: already exists when present (an empty name is refused by the server). -/
def natCreate (c : Cond) (a : Api) : Api × Except Err Cond :=
  if c.name = [] then (a, .error .other)
  else match a.get c.name with
    | some _ => (a, .error .alreadyExists)
    | none => (a.write c, .ok (a.stamped c))

def natGet (n : Str) (a : Api) : Api × Except Err Cond :=
  match a.get n with
  | none => (a, .error .notFound)
  | some c => (a, .ok c)

def natDelete (n : Str) (a : Api) : Api × Except Err Unit :=
  match a.get n with
  | none => (a, .error .notFound)
  | some _ => (a.remove n, .ok ())

def natList (a : Api) : Api × Except Err (List Cond) := (a, .ok a.objs)

/-! ## The world: API, fault script, crash points -/

/-- A crash point: the API after a call, and the name somebody else removed while that call was served (if any). -/
structure Pt where
  api : Api
  voided : Option Str
deriving DecidableEq, Repr

structure World where
  api : Api
  script : List Fault
  trace : List Pt        -- newest first: one entry per API call made so far

def faultErr : Fault → Err
  | .notFound => .notFound
  | .conflict => .conflict
  | .alreadyExists => .alreadyExists
  | _ => .other

/-- What the API is after a call with natural behaviour `nat` under fault `f`, what the caller is told, and the
    object somebody else removed. `tgt` is the object the call addresses (`none` for POST and LIST).
    * `ok`: the call is served.
    * `lost`: the call is served, the reply is lost (the caller sees an error).
    * `notFound` on a call that addresses an object: the API does not lie — somebody else has just removed the
      object, and the call is served on what is left (it answers NotFound).
    * otherwise: the call is not served, the caller sees that error. -/
def applyFault {α : Type} (f : Fault) (tgt : Option Str) (nat : Api → Api × Except Err α) (a : Api) :
    (Api × Except Err α) × Option Str :=
  match f, tgt with
  | .ok, _ => (nat a, none)
  | .lost, _ => (((nat a).1, .error .other), none)
  | .notFound, some n => (nat (a.remove n), some n)
  | f, _ => ((a, .error (faultErr f)), none)

/-- One API call: consumes one script entry (an exhausted script means `ok`), records the crash point. -/
def call {α : Type} (tgt : Option Str) (nat : Api → Api × Except Err α) (w : World) : World × Except Err α :=
  let f := w.script.headD .ok
  let r := applyFault f tgt nat w.api
  ({ api := r.1.1, script := w.script.tail, trace := ⟨r.1.1, r.2⟩ :: w.trace }, r.1.2)

/-- `RateLimitConditions().Update(ctx, item, …)`: the REST client refuses an empty name before sending. -/
def apiUpdate (c : Cond) (w : World) : World × Except Err Cond :=
  if c.name = [] then (w, .error .other) else call (some c.name) (natUpdate c) w
def apiCreate (c : Cond) (w : World) : World × Except Err Cond := call none (natCreate c) w
def apiGet (n : Str) (w : World) : World × Except Err Cond :=
  if n = [] then (w, .error .other) else call (some n) (natGet n) w
def apiDelete (n : Str) (w : World) : World × Except Err Unit :=
  if n = [] then (w, .error .other) else call (some n) (natDelete n) w
def apiList (w : World) : World × Except Err (List Cond) := call none natList w

/-! ## The local cache (`localStore`: cluster ↦ name ↦ condition) -/

abbrev Loc := List (Str × Cond)

def sameKey (k : Str) (n : Str) (e : Str × Cond) : Bool := e.1 = k ∧ e.2.name = n

/-- `localStore.Save(cluster, condition)` -/
def lput (k : Str) (c : Cond) (l : Loc) : Loc := (k, c) :: l.filter (fun e => ! sameKey k c.name e)
/-- `localStore.Delete(cluster, name)` -/
def ldel (k : Str) (n : Str) (l : Loc) : Loc := l.filter (fun e => ! sameKey k n e)
/-- `localStore.DeleteUpstream(cluster)` -/
def ldelUp (k : Str) (l : Loc) : Loc := l.filter (fun e => ¬ e.1 = k)
/-- `localStore.ListUpstream(cluster)` -/
def llistUp (k : Str) (l : Loc) : Loc := l.filter (fun e => e.1 = k)
/-- `localStore.Get(cluster, name)` -/
def lget (k : Str) (n : Str) (l : Loc) : Option Cond := (l.find? (sameKey k n)).map (·.2)

/-- The order in which a `sync.Map` range visits `l`: the entries named by the hint first, in that order,
    then the others. Always a permutation of `l` (`arrange_perm`). -/
def arrange : List (Str × Str) → Loc → Loc
  | [], l => l
  | (k, n) :: rest, l =>
    match l.find? (sameKey k n) with
    | some e => e :: arrange rest (l.erase e)
    | none => arrange rest l

/-! ## The store -/

structure Cfg where
  shard : Nat
  writeThrough : Bool      -- `syncPeriod == 0`
  steps : Nat              -- `retry.DefaultRetry.Steps`
deriving DecidableEq, Repr

structure Store where
  cfg : Cfg
  loc : Loc
  stopped : Bool

/-- result of a store operation, as the caller sees it -/
inductive Res | ok | err (e : Err) | wrongShard
deriving DecidableEq, Repr

/-- The body of `createOrUpdate`'s `wait.ExponentialBackoff`: `n` remaining steps, `item` the object the next
    `Update` sends (`none` after a failed `Create`, which overwrites `item` with the client's empty result:
    the next `Update` is refused by the client for its empty name). -/
def couLoop (cond : Cond) : Nat → Option Cond → World → World × Except Err Cond
  | 0, _, w => (w, .error .timeout)
  | _ + 1, none, w => (w, .error .other)
  | n + 1, some item, w =>
    match apiUpdate item w with
    | (w, .ok _) => (w, .ok item)
    | (w, .error .notFound) =>
      match apiCreate item w with
      | (w, .ok created) => (w, .ok created)
      | (w, .error _) => couLoop cond n none w
    | (w, .error .conflict) =>
      match apiGet cond.name w with
      | (w, .ok latest) =>
        couLoop cond n (some { latest with upstream := cond.upstream, spec := cond.spec, status := cond.status }) w
      | (w, .error _) => couLoop cond n (some item) w
    | (w, .error e) => (w, .error e)

/-- `createOrUpdate(condition)`: `item := condition.DeepCopy(); item.ResourceVersion = ""` -/
def createOrUpdate (steps : Nat) (cond : Cond) (w : World) : World × Except Err Cond :=
  couLoop cond steps (some { cond with rv := 0 }) w

/-- `retry.RetryOnConflict(retry.DefaultRetry, func() { err = Delete(name); nil or NotFound → nil })`;
    after the last step the last conflict is returned. -/
def delLoop (name : Str) : Nat → World → World × Except Err Unit
  | 0, w => (w, .error .conflict)
  | n + 1, w =>
    match apiDelete name w with
    | (w, .ok _) => (w, .ok ())
    | (w, .error .notFound) => (w, .ok ())
    | (w, .error .conflict) => delLoop name n w
    | (w, .error e) => (w, .error e)

section
variable (sh : Str → Nat)

/-- `Save(cluster, condition)` -/
def save (st : Store) (k : Str) (c : Cond) (w : World) : Store × World × Res :=
  if sh c.upstream ≠ st.cfg.shard then (st, w, .wrongShard)
  else if st.cfg.writeThrough then
    match createOrUpdate st.cfg.steps c w with
    | (w, .error e) => (st, w, .err e)
    | (w, .ok c') => ({ st with loc := lput k c' st.loc }, w, .ok)
  else ({ st with loc := lput k c st.loc }, w, .ok)

/-- `Delete(cluster, name)` (under the store mutex) -/
def delete (st : Store) (k : Str) (n : Str) (w : World) : Store × World × Res :=
  match delLoop n st.cfg.steps w with
  | (w, .error e) => (st, w, .err e)
  | (w, .ok _) => ({ st with loc := ldel k n st.loc }, w, .ok)

/-- the loop of `DeleteUpstream` over `itemsToDelete` -/
def delAll (steps : Nat) : Loc → World → World × Except Err Unit
  | [], w => (w, .ok ())
  | e :: rest, w =>
    match delLoop e.2.name steps w with
    | (w, .error err) => (w, .error err)
    | (w, .ok _) => delAll steps rest w

/-- `DeleteUpstream(cluster)` (under the store mutex) -/
def deleteUpstream (st : Store) (k : Str) (ord : List (Str × Str)) (w : World) : Store × World × Res :=
  match delAll st.cfg.steps (arrange ord (llistUp k st.loc)) w with
  | (w, .error e) => (st, w, .err e)
  | (w, .ok _) => ({ st with loc := ldelUp k st.loc }, w, .ok)

/-- the loop of `doSyncLocked` over the snapshot -/
def syncAll (shard steps : Nat) : Loc → World → World × Except Err Unit
  | [], w => (w, .ok ())
  | e :: rest, w =>
    if sh e.2.upstream ≠ shard then syncAll shard steps rest w
    else match createOrUpdate steps e.2 w with
      | (w, .error err) => (w, .error err)
      | (w, .ok _) => syncAll shard steps rest w

/-- `doSyncLocked()` = `Flush()` (under the store mutex) -/
def flush (st : Store) (ord : List (Str × Str)) (w : World) : Store × World × Res :=
  match syncAll sh st.cfg.shard st.cfg.steps (arrange ord st.loc) w with
  | (w, .error _) => (st, w, .err .other)      -- `fmt.Errorf("sync %v error: %v", …)`: the class is lost
  | (w, .ok _) => (st, w, .ok)

/-- `Stop()` -/
def stop (st : Store) (ord : List (Str × Str)) (w : World) : Store × World × Res :=
  if st.stopped then (st, w, .ok)
  else match syncAll sh st.cfg.shard st.cfg.steps (arrange ord st.loc) w with
    | (w, .error _) => (st, w, .err .other)
    | (w, .ok _) => ({ st with stopped := true }, w, .ok)

/-- the loop of `Load` over `items.Items` -/
def loadAll (shard : Nat) : List Cond → Loc → Loc
  | [], l => l
  | c :: rest, l =>
    if sh c.upstream ≠ shard then loadAll shard rest l
    else loadAll shard rest (lput c.upstream c l)

/-- `Load()` -/
def load (st : Store) (w : World) : Store × World × Res :=
  match apiList w with
  | (w, .error e) => (st, w, .err e)
  | (w, .ok items) => ({ st with loc := loadAll sh st.cfg.shard items st.loc }, w, .ok)

/-- `NewK8sCacheStore(client, syncPeriod, shard, shardCount)`: what replaces a crashed (or stopped) holder. -/
def newStore (shard : Nat) (wt : Bool) (steps : Nat) : Store :=
  { cfg := { shard := shard, writeThrough := wt, steps := steps }, loc := [], stopped := false }

/-- What the limiter does to a condition it keeps (`<upstream>.state`, reported conditions): `Get` hands out the
    STORED POINTER, the caller changes spec / status / labels IN PLACE, then calls `Save` with that same pointer.
    Stored values are immutable here, so the in-place change is an explicit update of the cache that precedes the
    save (and stays when the save fails): that is what the Go code does. `none`: `Get` answers NotFound. -/
def edited (st : Store) (k n : Str) (spec status labels : Nat) : Option (Store × Cond) :=
  match lget k n st.loc with
  | none => none
  | some c =>
    let c' := { c with spec := spec, status := status, labels := labels }
    some ({ st with loc := lput k c' st.loc }, c')

inductive Op
  | save (k : Str) (c : Cond)
  | saveStored (k : Str) (n : Str) (spec status labels : Nat)   -- Get; mutate in place; Save(the same pointer)
  | delete (k : Str) (n : Str)
  | deleteUpstream (k : Str) (ord : List (Str × Str))
  | flush (ord : List (Str × Str))
  | stop (ord : List (Str × Str))
  | load
  | restart (shard : Nat) (wt : Bool)     -- the process dies between two operations; a new store is built
deriving Repr

def step (st : Store) (op : Op) (w : World) : Store × World × Res :=
  match op with
  | .save k c => save sh st k c w
  | .saveStored k n sp stt lb =>
    match edited st k n sp stt lb with
    | none => (st, w, .err .notFound)
    | some (st1, c') => save sh st1 k c' w
  | .delete k n => delete st k n w
  | .deleteUpstream k ord => deleteUpstream st k ord w
  | .flush ord => flush sh st ord w
  | .stop ord => stop sh st ord w
  | .load => load sh st w
  | .restart s wt => (newStore s wt st.cfg.steps, w, .ok)

/-! ## A call of another goroutine landing inside a running flush

`doSyncLocked` holds the store mutex from its snapshot to its last write, and so do `Delete`, `DeleteUpstream`
(and every other flush): those wait. `Save` and `Load` do not take it. `flushI`/`stopI` are a flush in whose
window — after the snapshot, right before entry number `at` of it is written — another goroutine runs one
whole store call `intr` (granularity: store calls land between two `createOrUpdate`s of the flush). The flush
goes on with its snapshot. If the flush fails before, or has fewer than `at + 1` entries, the window never opens
and `intr` does not run. -/

/-- which methods hold the store mutex for their whole duration (regenerated from the source: `KG.Gen.C19`) -/
structure Locks where
  flush : Bool
  delete : Bool
  deleteUpstream : Bool
  save : Bool          -- write-through `Save` only (a periodic `Save` touches nothing but the cache)
  load : Bool
deriving DecidableEq, Repr

def genLocks : Locks :=
  { flush := KG.Gen.C19.flushHoldsMutex, delete := KG.Gen.C19.deleteHoldsMutex,
    deleteUpstream := KG.Gen.C19.deleteUpstreamHoldsMutex, save := KG.Gen.C19.saveExcludesFlush,
    load := KG.Gen.C19.loadHoldsMutex }

/-- can a call of another goroutine run inside a running flush of a store in mode `wt`?
    (the mutex is trusted to exclude its holders; `restart` is not a call) -/
def mayRunInside (L : Locks) (wt : Bool) : Op → Bool
  | .save _ _ => !(L.flush && L.save && wt)
  | .saveStored _ _ _ _ _ => !(L.flush && L.save && wt)
  | .delete _ _ => !(L.flush && L.delete)
  | .deleteUpstream _ _ => !(L.flush && L.deleteUpstream)
  | .flush _ => !L.flush
  | .stop _ => !L.flush
  | .load => !(L.flush && L.load)
  | .restart _ _ => false

inductive OpI
  | plain (op : Op)
  | flushI (ord : List (Str × Str)) (at_ : Nat) (intr : Op)
  | stopI (ord : List (Str × Str)) (at_ : Nat) (intr : Op)
deriving Repr

/-- the flush loop with the window: answer of the flush and, if the intruder ran, its answer and the worlds
    right before and right after it -/
def syncWindow (st : Store) (snap : Loc) (at_ : Nat) (intr : Op) (w : World) :
    Store × World × Except Err Unit × Option (Res × World × World) :=
  if snap.length ≤ at_ then
    match syncAll sh st.cfg.shard st.cfg.steps snap w with
    | (w, r) => (st, w, r, none)
  else
    match syncAll sh st.cfg.shard st.cfg.steps (snap.take at_) w with
    | (w1, .error e) => (st, w1, .error e, none)
    | (w1, .ok _) =>
      match step sh st intr w1 with
      | (st', w2, ires) =>
        match syncAll sh st.cfg.shard st.cfg.steps (snap.drop at_) w2 with
        | (w3, r) => (st', w3, r, some (ires, w1, w2))

def stepI (st : Store) (op : OpI) (w : World) : Store × World × Res × Option (Res × World × World) :=
  match op with
  | .plain op => match step sh st op w with | (st, w, r) => (st, w, r, none)
  | .flushI ord at_ intr =>
    match syncWindow sh st (arrange ord st.loc) at_ intr w with
    | (st, w, .error _, ir) => (st, w, .err .other, ir)
    | (st, w, .ok _, ir) => (st, w, .ok, ir)
  | .stopI ord at_ intr =>
    if st.stopped then (st, w, .ok, none)
    else match syncWindow sh st (arrange ord st.loc) at_ intr w with
      | (st, w, .error _, ir) => (st, w, .err .other, ir)
      | (st, w, .ok _, ir) => ({ st with stopped := true }, w, .ok, ir)

end

end KG.Model.K8sStore
