import KG.Base.Json
import KG.Gen.C05
import KG.Model.MaxInflight
/-!
# C05 (b) — `upstreamLimiter` + `FlowControlCache` + `localWrapper.Sync`, as a sequential state machine

Mirrors (the tree after `fix: hand requests the limiter in force …`):
* `pkg/flowcontrols/flowcontrol/flowcontrol.go`: `GuessFlowControlSchemaType`, `NewFlowControl`,
  `flowControl.Resize`, `resizeableTokenBucket.Resize`;
* `pkg/flowcontrols/remote/flowcontrol_wrapper.go`: `NewFlowControlCache`, `localWrapper.Sync`, `Current`
  (`meterWrapper` forwards `TryAcquire`/`Release` to the limiter it wraps; the meter is not modelled);
* `pkg/flowcontrols/limiter.go`: `syncLocalFlowControls`, `Load`, `GetOrDefault` (rate limiter kind `local`,
  or `remote` without a ready client set: both hand out `LocalFlowControl().Current()`);
* a request = what `dispatcher.ServeHTTP` does: look the limiter up once, `TryAcquire`, later `Release` on
  the value it was given (never on a fresh lookup).

Limiter objects live in a heap (`heap : Nat → Option Kind`, ids handed out in order, never freed: a request
in flight keeps its limiter alive after a type change or a deletion). The max-in-flight counter is the
sequential `Counter` of `KG.Model.MaxInflight` (proved there to be what the lock-free code does when calls
do not overlap; the interleaving model covers the overlap).
The token bucket's answer is an input of the op (`tb`): time is not modelled here (C06).
-/
namespace KG.Model.LocalLimiter
open KG KG.Model.MaxInflight

inductive FCType where
  | exempt | maxInflight | tokenBucket
  deriving DecidableEq, Repr, Inhabited

/-- `proxyv1alpha1.FlowControlSchema`; pointers are `Option`, `Exempt *struct{}` is a `Bool`.
    Equality of two values is `reflect.DeepEqual` / `apiequality.Semantic.DeepEqual`. -/
structure Schema where
  name : Str
  strategy : Str
  exempt : Bool
  mi : Option Int
  tb : Option (Int × Int)
  gmi : Option Int
  gtb : Option (Int × Int)
  deriving DecidableEq, Repr, Inhabited

/-- the zero value `proxyv1alpha1.FlowControlSchema{}` (a fresh `localWrapper.localConfig`) -/
def Schema.zero : Schema := ⟨[], [], false, none, none, none, none⟩

/-- `GuessFlowControlSchemaType` -/
def guessType (c : Schema) : FCType :=
  if c.exempt then .exempt
  else if c.mi.isSome || c.gmi.isSome then .maxInflight
  else if c.tb.isSome || c.gtb.isSome then .tokenBucket
  else .exempt

/-- Go's `uint32(x)` of an `int32` -/
def toU32 (x : Int) : Nat := (x % 4294967296).toNat

/-- A limiter object (`flowcontrol.FlowControl` behind a `meterWrapper`). -/
inductive Kind where
  | counter (c : Counter)            -- `flowControl{TokenBucket: maxinflight.New(max), max}`
  | infinity                         -- `flowControl{TokenBucket: InfinityTokenBucket, typ: Exempt}`
  | bucket (qps burst : Nat)         -- `resizeableTokenBucket`
  deriving DecidableEq, Repr, Inhabited

/-- `Type()` -/
def Kind.type : Kind → FCType
  | .counter _ => .maxInflight
  | .infinity => .exempt
  | .bucket _ _ => .tokenBucket

def panicNil : String := "panic: nil pointer dereference"

/-- `NewFlowControl(schema)`; `schema.MaxRequestsInflight.Max` / `schema.TokenBucket.QPS` dereference. -/
def newFlowControl (schema : Schema) : Except String Kind :=
  match guessType schema with
  | .maxInflight =>
    match schema.mi with
    | none => .error panicNil
    | some m => .ok (.counter ⟨0, toU32 m⟩)
  | .tokenBucket =>
    match schema.tb with
    | none => .error panicNil
    | some (q, b) => .ok (.bucket (toU32 q) (toU32 b))
  | .exempt => .ok .infinity

/-- `Resize(n, burst)` -/
def Kind.resize (k : Kind) (n burst : Nat) : Kind :=
  match k with
  | .counter c => .counter (c.resize n)
  | .infinity => .infinity
  | .bucket _ _ => .bucket n burst

/-- `flowControlCache.local` : `localWrapper{FlowControl, localConfig}` -/
structure Cache where
  config : Schema
  cur : Option Nat
  deriving DecidableEq, Repr

/-- `upstreamLimiter`: `currentFlowControlSpec` and the `flowControls` map -/
structure Limiter where
  spec : List Schema
  caches : Str → Option Cache
  /-- `upstreamLimiter.rateLimiter`: `local` / `remote` (set by `ResetLimiter`). The gateway is modelled
      without limiter-server client sets (`clientSets == nil`), so `Load` hands out the local limiter in every
      mode; a mode switch touches neither the caches nor the applied spec. -/
  mode : Str := []

/-- what a request in flight holds -/
structure Req where
  c : Str
  n : Str
  /-- the limiter it was given by `GetOrDefault`; `none` = `flowcontrol.DefaultFlowControl` -/
  obj : Option Nat
  admitted : Bool
  released : Bool
  deriving DecidableEq, Repr

structure World where
  heap : Nat → Option Kind
  next : Nat
  lims : Str → Limiter
  reqs : List Req

def World.init : World :=
  { heap := fun _ => none, next := 0, lims := fun _ => { spec := [], caches := fun _ => none }, reqs := [] }

def World.setHeap (w : World) (id : Nat) (k : Kind) : World :=
  { w with heap := fun i => if i = id then some k else w.heap i }

def World.alloc (w : World) (k : Kind) : World :=
  { w with heap := fun i => if i = w.next then some k else w.heap i, next := w.next + 1 }

def Limiter.setCache (l : Limiter) (n : Str) (c : Option Cache) : Limiter :=
  { l with caches := fun m => if m = n then c else l.caches m }

def World.setLim (w : World) (c : Str) (l : Limiter) : World :=
  { w with lims := fun d => if d = c then l else w.lims d }

def World.cache (w : World) (c n : Str) : Option Cache := (w.lims c).caches n

/-- `localWrapper.Sync(schema)` -/
def localSync (w : World) (cache : Cache) (schema : Schema) : Except String (World × Cache) :=
  if schema = cache.config then .ok (w, cache)
  else
    let create : Except String (World × Cache) :=
      match newFlowControl schema with
      | .error e => .error e
      | .ok k => .ok (w.alloc k, { config := schema, cur := some w.next })
    match cache.cur with
    | none => create                                   -- `f.FlowControl == nil`
    | some id =>
      match w.heap id with
      | none => .error "model: dangling limiter"
      | some k =>
        if k.type ≠ guessType schema then create       -- `f.Type() != newType`
        else
          match guessType schema with
          | .maxInflight =>
            match schema.mi with
            | none => .error panicNil
            | some m => .ok (w.setHeap id (k.resize (toU32 m) 0), { config := schema, cur := some id })
          | .tokenBucket =>
            match schema.tb with
            | none => .error panicNil
            | some (q, b) => .ok (w.setHeap id (k.resize (toU32 q) (toU32 b)), { config := schema, cur := some id })
          | .exempt => .ok (w, { config := schema, cur := some id })

/-- the loop `for _, newSchema := range flowControls.Schemas` of `syncLocalFlowControls` -/
def syncSchemas (c : Str) : World → List Schema → Except String World
  | w, [] => .ok w
  | w, s :: rest =>
    -- `Load` or `NewFlowControlCache` + `Store`
    let cache := ((w.lims c).caches s.name).getD { config := Schema.zero, cur := none }
    match localSync w cache s with
    | .error e => .error e
    | .ok (w', cache') => syncSchemas c (w'.setLim c ((w'.lims c).setCache s.name (some cache'))) rest

def names (l : List Schema) : List Str := l.map (·.name)

/-- `upstreamLimiter.Sync` = `syncLocalFlowControls` -/
def sync (w : World) (c : Str) (schemas : List Schema) : Except String World :=
  if (w.lims c).spec = schemas then .ok w
  else
    let old := (w.lims c).spec
    match syncSchemas c w schemas with
    | .error e => .error e
    | .ok w' =>
      let l := w'.lims c
      let l' : Limiter :=
        { spec := schemas, mode := l.mode,
          caches := fun n => if n ∈ names old ∧ n ∉ names schemas then none else l.caches n }
      .ok (w'.setLim c l')

def modeLocal : Str := [108, 111, 99, 97, 108]          -- "local"
def modeRemote : Str := [114, 101, 109, 111, 116, 101]  -- "remote"

/-- `upstreamLimiter.Load` after the map lookup succeeded, `clientSets == nil`:
    `remote` ⇒ "clientSets is nil" ⇒ local; `local` ⇒ local; anything else ⇒ "unknown type" ⇒ local. -/
def loadLimiter (mode : Str) (cache : Cache) : Option Nat :=
  if mode = modeRemote then cache.cur
  else if mode = modeLocal then cache.cur
  else cache.cur

/-- `ResetLimiter(rateLimiter)`: `if rateLimiter != f.rateLimiter { f.rateLimiter = rateLimiter;
    f.reconcile.EnsureReconcile(rateLimiter) }` — without client sets `EnsureReconcile` does nothing.
    The caches, their limiters and the applied spec are kept. -/
def resetLimiter (w : World) (c : Str) (mode : Str) : World :=
  w.setLim c { spec := (w.lims c).spec, caches := (w.lims c).caches, mode := mode }

/-- `GetOrDefault(name)`: `none` = the default (exempt) limiter; `some none` = a nil limiter. -/
def getOrDefault (w : World) (c n : Str) : Option (Option Nat) :=
  if n = [] then none
  else match (w.lims c).caches n with
    | none => none
    | some cache => some (loadLimiter (w.lims c).mode cache)

theorem loadLimiter_eq (mode : Str) (cache : Cache) : loadLimiter mode cache = cache.cur := by
  unfold loadLimiter; split
  · rfl
  · split <;> rfl

/-- `TryAcquire` on a limiter object under sequential use -/
def Kind.tryAcquire (k : Kind) (tb : Bool) : Kind × Bool :=
  match k with
  | .counter c => let r := c.tryAcquire; (.counter r.1, r.2)
  | .infinity => (.infinity, true)
  | .bucket q b => (.bucket q b, tb)

def Kind.release : Kind → Kind
  | .counter c => .counter c.release
  | k => k

/-- A request arrives for `(cluster, flow-control name)`: one lookup, one `TryAcquire`. -/
def acquire (w : World) (c n : Str) (tb : Bool) : Except String (World × Bool) :=
  match getOrDefault w c n with
  | none => .ok ({ w with reqs := w.reqs ++ [⟨c, n, none, true, false⟩] }, true)
  | some none => .error panicNil
  | some (some id) =>
    match w.heap id with
    | none => .error "model: dangling limiter"
    | some k =>
      let r := k.tryAcquire tb
      .ok ({ (w.setHeap id r.1) with reqs := w.reqs ++ [⟨c, n, some id, r.2, false⟩] }, r.2)

def markReleased (reqs : List Req) (i : Nat) : List Req :=
  match reqs[i]? with
  | none => reqs
  | some r => reqs.set i { r with released := true }

/-- The `i`-th request finishes: the dispatcher's deferred `Release()` on the limiter the request was
    given. Ill-formed (unknown, refused or already finished request): nothing happens — the dispatcher
    releases exactly once per admitted request (layer (c)). Returns whether a release was performed. -/
def release (w : World) (i : Nat) : World × Bool :=
  match w.reqs[i]? with
  | none => (w, false)
  | some r =>
    if r.admitted ∧ ¬ r.released then
      let w1 := { w with reqs := markReleased w.reqs i }
      match r.obj with
      | none => (w1, true)
      | some id =>
        match w.heap id with
        | none => (w1, true)
        | some k => (w1.setHeap id k.release, true)
    else (w, false)

inductive Op where
  | sync (c : Str) (schemas : List Schema)
  /-- `ResetLimiter(mode)` (what `ClusterInfo.Sync` calls when the GlobalRateLimiter gate flips) -/
  | reset (c : Str) (mode : Str)
  | acquire (c n : Str) (tb : Bool)
  | release (i : Nat)
  deriving Repr

inductive Out where
  | synced
  | acquired (admitted : Bool)
  | released (did : Bool)
  | panic (msg : String)
  deriving DecidableEq, Repr

def step (w : World) : Op → World × Out
  | .sync c schemas =>
    match sync w c schemas with
    | .ok w' => (w', .synced)
    | .error e => (w, .panic e)
  | .acquire c n tb =>
    match acquire w c n tb with
    | .ok (w', b) => (w', .acquired b)
    | .error e => (w, .panic e)
  | .release i => let r := release w i; (r.1, .released r.2)
  | .reset c mode => (resetLimiter w c mode, .synced)

def Out.isPanic : Out → Bool
  | .panic _ => true
  | _ => false

/-- Run a history; it ends at the first panic (the real process would be gone, or in a half-updated state). -/
def run : World → List Op → List Out
  | _, [] => []
  | w, op :: ops =>
    let r := step w op
    if r.2.isPanic then [r.2] else r.2 :: run r.1 ops

/-- the world after the history (up to the first panic) -/
def exec : World → List Op → World
  | w, [] => w
  | w, op :: ops =>
    let r := step w op
    if r.2.isPanic then w else exec r.1 ops

/-- What can be seen of `(cluster, name)` from outside: the limiter currently handed out for it. -/
def view (w : World) (c n : Str) : Option Kind :=
  match getOrDefault w c n with
  | some (some id) => w.heap id
  | _ => none


/-- The answer a request arriving now for `(c, n)` would get (`none`: the gateway would panic). -/
def answer (w : World) (c n : Str) (tb : Bool) : Option Bool :=
  match acquire w c n tb with
  | .ok (_, b) => some b
  | .error _ => none

/-- Does `op` concern `(cluster c, schema n)`? A `Sync` concerns every schema of its cluster, a finishing
    request the schema it arrived for. -/
def addresses (w : World) (op : Op) (c n : Str) : Prop :=
  match op with
  | .sync c' _ => c' = c
  | .reset _ _ => False          -- a mode switch concerns no schema at all
  | .acquire c' n' _ => c' = c ∧ n' = n
  | .release i =>
    match w.reqs[i]? with
    | some r => r.c = c ∧ r.n = n
    | none => False

/-- worlds reachable from the start by some history -/
def Reachable (w : World) : Prop := ∃ ops, w = exec World.init ops

/-! ## (c) `dispatcher.ServeHTTP`: what happens to the slot on every way out

The body of `ServeHTTP` is abstracted, statement by statement (top level of the function body, in source
order — regenerated from the source by `tools/extract/c05` into `KG.Gen.C05.serveHTTP`), into: -/

inductive Stmt where
  /-- `if cond { …answer…; return }` not mentioning the limiter: falls through, returns, or panics -/
  | guard
  /-- `if !fc.TryAcquire() { …answer 429…; return }` -/
  | acquireGuard
  /-- `defer fc.Release()` -/
  | deferRelease
  /-- any other `defer` -/
  | deferOther
  /-- any other statement not mentioning `TryAcquire`/`Release` (assignments, calls, `go`): falls through or panics.
      The last one is `proxyHandler.ServeHTTP(w, newReq)`: success, upstream error (answered by the error
      responder) and client abort all return or panic (`http.ErrAbortHandler`). -/
  | other
  /-- anything else that mentions `TryAcquire` or `Release` -/
  | bad
  deriving DecidableEq, Repr

def Stmt.ofString : String → Stmt
  | "guard" => .guard
  | "acquireGuard" => .acquireGuard
  | "deferRelease" => .deferRelease
  | "deferOther" => .deferOther
  | "other" => .other
  | _ => .bad

inductive Choice where
  | go | exit | panic
  deriving DecidableEq, Repr

/-- One way a request can go: what each statement does, and the limiter's answer. -/
structure Scenario where
  choice : Nat → Choice
  granted : Bool

inductive Event where
  | tryAcquire (ok : Bool)
  | release
  deriving DecidableEq, Repr

/-- Go runs every deferred call when the function returns or panics, last in first out; a deferred call
    that panics does not stop the remaining ones. `ds`: is the deferred call a `Release`? -/
def unwind (ds : List Bool) : List Event := (ds.filter id).map fun _ => Event.release

def execStmts (sc : Scenario) : List Stmt → Nat → List Bool → List Event
  | [], _, ds => unwind ds
  | st :: rest, i, ds =>
    match st with
    | .guard | .other =>
      match sc.choice i with
      | .go => execStmts sc rest (i + 1) ds
      | .exit => if st = .guard then unwind ds else execStmts sc rest (i + 1) ds
      | .panic => unwind ds
    | .acquireGuard =>
      match sc.choice i with
      | .panic => unwind ds
      | _ => if sc.granted then .tryAcquire true :: execStmts sc rest (i + 1) ds
             else .tryAcquire false :: unwind ds
    | .deferRelease => execStmts sc rest (i + 1) (true :: ds)
    | .deferOther => execStmts sc rest (i + 1) (false :: ds)
    | .bad => unwind ds

def serve (p : List Stmt) (sc : Scenario) : List Event := execStmts sc p 0 []

def mentionsLimiter : Stmt → Bool
  | .acquireGuard | .deferRelease | .bad => true
  | _ => false

/-- `pre ++ [acquireGuard, deferRelease] ++ post`, nothing else touching the limiter -/
def shapeOk : List Stmt → Bool
  | [] => false
  | .acquireGuard :: .deferRelease :: post => !post.any mentionsLimiter
  | st :: rest => !mentionsLimiter st && shapeOk rest

def countAcq (tr : List Event) : Nat := tr.count (.tryAcquire true)
def countRel (tr : List Event) : Nat := tr.count .release

/-- `dispatcher.ServeHTTP` as regenerated from the current source -/
def dispatcherProgram : List Stmt := KG.Gen.C05.serveHTTP.map Stmt.ofString

/-- `upstreamLimiter.Load` hands out the limiter in force (`Current()`), never the wrapper, at both places
    where it returns the local limiter. -/
def loadLocalReturns : List String := ["fcw.LocalFlowControl().Current()", "fcw.LocalFlowControl().Current()"]

end KG.Model.LocalLimiter
