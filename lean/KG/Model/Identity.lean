import KG.Base.Json
import KG.Gen.C02
/-!
# Model of identity propagation (C02)

One request through the gateway, restricted to what decides which identity the upstream is told to act as.
Mirrors, function by function:

* `net/http` server side parsing of the client's header lines (`textproto.readMIMEHeader`,
  `CanonicalMIMEHeaderKey`, `httpguts.ValidHeaderFieldName/Value`): `parse`, `canonicalKey`;
* `WithAuthentication` of the apiserver fork (deletes `Authorization` on success): `authnStrip`;
* `pkg/gateway/endpoints/filters/impersonation.go`: `unescapeExtraKey`, `buildImpersonationRequests`,
  `WithNoLoggingImpersonation` (`impersonate`), with `serviceaccount.SplitUsername/MakeUsername/MakeGroupNames`;
* client-go's bearer token wrapper (`bearerAuth`) and `pkg/transport/dynamic_impersonate.go`:
  `legalHeaderByte`, `shouldEscape`, `headerKeyEscape`, `WrapRequest` (`wrapRequest`);
* `net/http` transport validation of outgoing header fields, the wire and the upstream's parser: `transportOK`, `wire`;
* what a kube-apiserver reconstructs from the headers it receives: `decodeIdentity`.

A Go `http.Header` (a map from canonical name to a list of values) is a list of entries `(name, values)`; the value
list of a name is the concatenation of the entries carrying that name (`values`). `Add` appends an entry, `Del`
filters, `Set` is `Del` then append. Everything observable (`Get`, `h[name]`, what is written to the wire for one name)
is a function of `values`, so no "distinct keys" invariant is needed, and map iteration order is the entry order.
-/
namespace KG.Model.Identity
open KG

/-! ## bytes -/

def isUpper (c : UInt8) : Bool := 65 ≤ c && c ≤ 90
def isLower (c : UInt8) : Bool := 97 ≤ c && c ≤ 122
def isDigit (c : UInt8) : Bool := 48 ≤ c && c ≤ 57
/-- `c += 'a' - 'A'` for upper-case ASCII letters -/
def lowerByte (c : UInt8) : UInt8 := if isUpper c then c + 32 else c
def upperByte (c : UInt8) : UInt8 := if isLower c then c - 32 else c
/-- `strings.ToLower` on an ASCII string (header names are ASCII once the server accepted them) -/
def toLower (s : Str) : Str := s.map lowerByte

/-- `strings.HasPrefix` -/
def hasPrefix : Str → Str → Bool
  | _, [] => true
  | [], _ :: _ => false
  | a :: s, b :: p => a == b && hasPrefix s p

/-! ## constants (k8s.io/api/authentication/v1, k8s.io/apiserver/pkg/authentication/user|serviceaccount) -/

/-- "Authorization" -/
def hAuthorization : Str := [65, 117, 116, 104, 111, 114, 105, 122, 97, 116, 105, 111, 110]
/-- "Impersonate-User" -/
def hImpUser : Str := [73, 109, 112, 101, 114, 115, 111, 110, 97, 116, 101, 45, 85, 115, 101, 114]
/-- "Impersonate-Group" -/
def hImpGroup : Str := [73, 109, 112, 101, 114, 115, 111, 110, 97, 116, 101, 45, 71, 114, 111, 117, 112]
/-- "Impersonate-Extra-" -/
def hImpExtraPrefix : Str := [73, 109, 112, 101, 114, 115, 111, 110, 97, 116, 101, 45, 69, 120, 116, 114, 97, 45]
/-- "Impersonate-": the header family the PROPERTY speaks of (hand-written: the specification and the judge must not depend on
    anything regenerated from the code) -/
def hImpPrefix : Str := [73, 109, 112, 101, 114, 115, 111, 110, 97, 116, 101, 45]
/-- the prefix of the names `WrapRequest` deletes before writing its own, regenerated from the source -/
def hWrapDeletePrefix : Str := KG.Gen.C02.impersonateHeaderPrefix
/-- "Bearer " -/
def bearerPrefix : Str := [66, 101, 97, 114, 101, 114, 32]
/-- "system:serviceaccount:" -/
def saUsernamePrefix : Str := [115, 121, 115, 116, 101, 109, 58, 115, 101, 114, 118, 105, 99, 101, 97, 99, 99, 111, 117, 110, 116, 58]
/-- "system:serviceaccounts" -/
def allServiceAccountsGroup : Str := [115, 121, 115, 116, 101, 109, 58, 115, 101, 114, 118, 105, 99, 101, 97, 99, 99, 111, 117, 110, 116, 115]
/-- "system:serviceaccounts:" -/
def saGroupPrefix : Str := allServiceAccountsGroup ++ [58]
/-- "system:anonymous" -/
def anonymous : Str := [115, 121, 115, 116, 101, 109, 58, 97, 110, 111, 110, 121, 109, 111, 117, 115]
/-- "system:authenticated" -/
def allAuthenticated : Str := [115, 121, 115, 116, 101, 109, 58, 97, 117, 116, 104, 101, 110, 116, 105, 99, 97, 116, 101, 100]
/-- "system:unauthenticated" -/
def allUnauthenticated : Str := [115, 121, 115, 116, 101, 109, 58, 117, 110, 97, 117, 116, 104, 101, 110, 116, 105, 99, 97, 116, 101, 100]

/-! ## net/http: header names and values -/

/-- `isTokenTable` of net/http / `validHeaderFieldByte` of net/textproto (RFC 7230 token) -/
def isTokenByte (c : UInt8) : Bool :=
  isUpper c || isLower c || isDigit c ||
  c == 33 || c == 35 || c == 36 || c == 37 || c == 38 || c == 39 || c == 42 || c == 43 ||
  c == 45 || c == 46 || c == 94 || c == 95 || c == 96 || c == 124 || c == 126

/-- `httpguts.ValidHeaderFieldName` -/
def validName (n : Str) : Bool := !n.isEmpty && n.all isTokenByte

/-- a byte allowed in a header field value (`validHeaderValueByte`, `httpguts.ValidHeaderFieldValue`):
    no control characters except HTAB, no DEL -/
def validValueByte (c : UInt8) : Bool := (32 ≤ c && c != 127) || c == 9

def validValue (v : Str) : Bool := v.all validValueByte

def isOWS (c : UInt8) : Bool := c == 32 || c == 9

/-- `textproto.trim` / `TrimString` on a valid value: leading and trailing SP / HTAB removed -/
def trimOWS (v : Str) : Str := ((v.dropWhile isOWS).reverse.dropWhile isOWS).reverse

/-- the canonicalisation loop of `canonicalMIMEHeaderKey`: upper-case the first letter and every letter
    after a '-', lower-case the others. `upper` is the loop variable of the same name. -/
def canonLoop : Bool → Str → Str
  | _, [] => []
  | upper, c :: s =>
    let c' := if upper && isLower c then c - 32 else if !upper && isUpper c then c + 32 else c
    c' :: canonLoop (c' == 45) s

/-- `textproto.CanonicalMIMEHeaderKey`: unchanged when a byte is not a token byte -/
def canonicalKey (s : Str) : Str := if s.all isTokenByte then canonLoop true s else s

abbrev Headers := List (Str × List Str)

/-- `h[name]` (all values of one name, in order) -/
def values : Headers → Str → List Str
  | [], _ => []
  | (n, vs) :: h, k => if n = k then vs ++ values h k else values h k

/-- `h.Get(name)` for a canonical `name`: first value or "" -/
def hget (h : Headers) (k : Str) : Str := (values h k).head?.getD []

/-- `h.Del(name)` -/
def hdel (h : Headers) (k : Str) : Headers := h.filter (fun e => !(e.1 == k))

/-- `h.Set(name, v)` (the name is canonicalised by `Set`) -/
def hset (h : Headers) (k v : Str) : Headers := hdel h (canonicalKey k) ++ [(canonicalKey k, [v])]

/-- `h.Add(name, v)` (the name is canonicalised by `Add`) -/
def hadd (h : Headers) (k v : Str) : Headers := h ++ [(canonicalKey k, [v])]

/-- the net/http server reading the header lines of a request: every name must be a token and every value free of
    control bytes, else the server answers 400 itself; names are canonicalised, values trimmed. -/
def parse (raw : List (Str × Str)) : Option Headers :=
  if raw.all (fun l => validName l.1 && validValue l.2) then
    some (raw.map fun l => (canonicalKey l.1, [trimOWS l.2]))
  else none

/-! ## identities -/

structure Identity where
  name : Str
  groups : List Str
  /-- `map[string][]string` as entries; the values of a key are the concatenation of its entries -/
  extra : List (Str × List Str)
deriving DecidableEq, Repr

/-! ## authentication filter -/

/-- `req.Header.Del("Authorization")` after a successful authentication -/
def authnStrip (h : Headers) : Headers := hdel h hAuthorization

/-! ## UTF-8 (`unicode/utf8`, `encoding/json`) -/

/-- number of bytes of the valid UTF-8 sequence at the head of `s` (Go's `utf8.DecodeRuneInString`), 0 when there is none -/
def utf8SeqLen : Str → Nat
  | [] => 0
  | b0 :: rest =>
    let cont (c : UInt8) : Bool := 0x80 ≤ c && c ≤ 0xBF
    if b0 < 0x80 then 1
    else match rest with
      | [] => 0
      | b1 :: r1 =>
        if 0xC2 ≤ b0 && b0 ≤ 0xDF then (if cont b1 then 2 else 0)
        else match r1 with
          | [] => 0
          | b2 :: r2 =>
            let lo1 : UInt8 := if b0 == 0xE0 then 0xA0 else if b0 == 0xF0 then 0x90 else 0x80
            let hi1 : UInt8 := if b0 == 0xED then 0x9F else if b0 == 0xF4 then 0x8F else 0xBF
            if 0xE0 ≤ b0 && b0 ≤ 0xEF then (if lo1 ≤ b1 && b1 ≤ hi1 && cont b2 then 3 else 0)
            else match r2 with
              | [] => 0
              | b3 :: _ =>
                if 0xF0 ≤ b0 && b0 ≤ 0xF4 then (if lo1 ≤ b1 && b1 ≤ hi1 && cont b2 && cont b3 then 4 else 0) else 0

def jsonCarriedAux : Nat → Str → Str
  | 0, _ => []
  | _ + 1, [] => []
  | fuel + 1, b :: rest =>
    let n := utf8SeqLen (b :: rest)
    if n = 0 then [0xEF, 0xBF, 0xBD] ++ jsonCarriedAux fuel rest
    else (b :: rest).take n ++ jsonCarriedAux fuel ((b :: rest).drop n)

/-- a string as JSON carries it (`encoding/json`: every byte that does not start a valid UTF-8 sequence becomes U+FFFD) -/
def jsonCarried (s : Str) : Str := jsonCarriedAux s.length s

/-- `utf8.ValidString` -/
def utf8Valid (s : Str) : Bool := jsonCarried s == s

/-! ## impersonation filter -/

def ishex (c : UInt8) : Bool := isDigit c || (97 ≤ c && c ≤ 102) || (65 ≤ c && c ≤ 70)

def unhex (c : UInt8) : UInt8 :=
  if isDigit c then c - 48 else if 97 ≤ c && c ≤ 102 then c - 97 + 10 else if 65 ≤ c && c ≤ 70 then c - 65 + 10 else 0

/-- `url.PathUnescape`: `none` is the `EscapeError` ('%' not followed by two hex digits) -/
def pathUnescape : Str → Option Str
  | [] => some []
  | c :: s =>
    if c == 37 then
      match s with
      | a :: b :: r => if ishex a && ishex b then (pathUnescape r).map (fun t => (unhex a * 16 + unhex b) :: t) else none
      | _ => none
    else (pathUnescape s).map (fun t => c :: t)

/-- `unescapeExtraKey`: malformed keys are kept as they are -/
def unescapeExtraKey (k : Str) : Str := (pathUnescape k).getD k

/-- `strings.Split(s, ":")`-style split on one byte -/
def splitOn (c : UInt8) : Str → List Str
  | [] => [[]]
  | x :: xs =>
    if x == c then [] :: splitOn c xs
    else match splitOn c xs with
      | [] => [[x]]
      | p :: ps => (x :: p) :: ps

def isLabelByte (c : UInt8) : Bool := isLower c || isDigit c || c == 45
def isAlnumLower (c : UInt8) : Bool := isLower c || isDigit c

/-- `[a-z0-9]([-a-z0-9]*[a-z0-9])?` -/
def isDNS1123LabelShape (s : Str) : Bool :=
  match s with
  | [] => false
  | c :: _ => isAlnumLower c && s.all isLabelByte && (s.getLast?.map isAlnumLower).getD false

/-- `validation.NameIsDNSLabel(s, false)` has no complaint -/
def isDNS1123Label (s : Str) : Bool := s.length ≤ 63 && isDNS1123LabelShape s

/-- `validation.NameIsDNSSubdomain(s, false)` has no complaint: dot separated label shapes, at most 253 bytes -/
def isDNS1123Subdomain (s : Str) : Bool := s.length ≤ 253 && (splitOn 46 s).all isDNS1123LabelShape

def stripPrefix : Str → Str → Option Str
  | s, [] => some s
  | [], _ :: _ => none
  | a :: s, b :: p => if a == b then stripPrefix s p else none

/-- `serviceaccount.SplitUsername` -/
def splitUsername (username : Str) : Option (Str × Str) :=
  match stripPrefix username saUsernamePrefix with
  | none => none
  | some trimmed =>
    match splitOn 58 trimmed with
    | [ns, name] => if isDNS1123Label ns && isDNS1123Subdomain name then some (ns, name) else none
    | _ => none

/-- `serviceaccount.MakeUsername` -/
def makeUsername (ns name : Str) : Str := saUsernamePrefix ++ ns ++ [58] ++ name
/-- `serviceaccount.MakeGroupNames` -/
def makeGroupNames (ns : Str) : List Str := [allServiceAccountsGroup, saGroupPrefix ++ ns]

/-- one `v1.ObjectReference` built by `buildImpersonationRequests` -/
inductive ImpReq where
  | sa (ns name : Str)
  | user (name : Str)
  | group (name : Str)
  | extra (key value : Str)
deriving DecidableEq, Repr

/-- `utf8.ValidString(ref.Namespace) && utf8.ValidString(ref.Name) && utf8.ValidString(ref.FieldPath)` -/
def refUTF8 : ImpReq → Bool
  | .sa ns name => utf8Valid ns && utf8Valid name
  | .user name => utf8Valid name
  | .group name => utf8Valid name
  | .extra key value => utf8Valid value && utf8Valid key

/-- the requests for the `Impersonate-Extra-*` entries: one per value, key = `unescapeExtraKey(ToLower(suffix))` -/
def extraRequests : Headers → List ImpReq
  | [] => []
  | (n, vs) :: h =>
    if hasPrefix n hImpExtraPrefix then
      vs.map (ImpReq.extra (unescapeExtraKey (toLower (n.drop hImpExtraPrefix.length)))) ++ extraRequests h
    else extraRequests h

/-- `buildImpersonationRequests`: `none` is an error: "requested … without impersonating a user", or a reference that is not valid UTF-8 — a SubjectAccessReview could not carry it -/
def buildImpersonationRequests (h : Headers) : Option (List ImpReq) :=
  let requestedUser := hget h hImpUser
  let hasUser := !requestedUser.isEmpty
  let userReqs : List ImpReq :=
    if hasUser then
      match splitUsername requestedUser with
      | some (ns, name) => [ImpReq.sa ns name]
      | none => [ImpReq.user requestedUser]
    else []
  let groups := values h hImpGroup
  let hasGroups := !groups.isEmpty
  let hasUserExtra := h.any (fun e => hasPrefix e.1 hImpExtraPrefix)
  if (hasGroups || hasUserExtra) && !hasUser then none
  else
    let impersonationRequests := userReqs ++ groups.map ImpReq.group ++ extraRequests h
    if !impersonationRequests.all refUTF8 then none
    else some impersonationRequests

/-- the `authorizer.AttributesRecord` of one check (verb `impersonate`, `ResourceRequest: true`, `User` = the requestor) -/
structure Attrs where
  apiGroup : Str
  resource : Str
  subresource : Str
  ns : Str
  name : Str
deriving DecidableEq, Repr

/-- "serviceaccounts", "users", "groups", "userextras", "authentication.k8s.io" -/
def resServiceAccounts : Str := [115, 101, 114, 118, 105, 99, 101, 97, 99, 99, 111, 117, 110, 116, 115]
def resUsers : Str := [117, 115, 101, 114, 115]
def resGroups : Str := [103, 114, 111, 117, 112, 115]
def resUserExtras : Str := [117, 115, 101, 114, 101, 120, 116, 114, 97, 115]
def authenticationGroup : Str := [97, 117, 116, 104, 101, 110, 116, 105, 99, 97, 116, 105, 111, 110, 46, 107, 56, 115, 46, 105, 111]

/-- the record built in the loop body for one reference: `APIGroup` from the reference's APIVersion, `Namespace` and `Name`
    of the reference, `Resource` / `Subresource` set by the `switch` -/
def attrsFor : ImpReq → Attrs
  | .sa ns name => ⟨[], resServiceAccounts, [], ns, name⟩
  | .user name => ⟨[], resUsers, [], [], name⟩
  | .group name => ⟨[], resGroups, [], [], name⟩
  | .extra key value => ⟨authenticationGroup, resUserExtras, key, [], value⟩

inductive Decision where
  | allow | deny | noOpinion | error
deriving DecidableEq, Repr

/-- `err != nil || decision != authorizer.DecisionAllow` is a refusal -/
def Decision.allowed : Decision → Bool
  | .allow => true
  | _ => false

/-- accumulators of the authorisation loop: `username`, `groups`, `userExtra` -/
structure Acc where
  username : Str
  groups : List Str
  userExtra : List (Str × List Str)
deriving DecidableEq, Repr

/-- the `switch gvk.GroupKind()` of the loop body -/
def accStep (groupsSpecified : Bool) (a : Acc) : ImpReq → Acc
  | .sa ns name =>
    { a with username := makeUsername ns name,
             groups := if !groupsSpecified then makeGroupNames ns else a.groups }
  | .user name => { a with username := name }
  | .group name => { a with groups := a.groups ++ [name] }
  | .extra key value => { a with userExtra := a.userExtra ++ [(key, [value])] }

/-- the authorisation loop: `none` as soon as one request is not allowed (403) -/
def authorizeAll (az : Attrs → Decision) (groupsSpecified : Bool) : Acc → List ImpReq → Option Acc
  | a, [] => some a
  | a, r :: rs =>
    let a' := accStep groupsSpecified a r
    if (az (attrsFor r)).allowed then authorizeAll az groupsSpecified a' rs else none

/-- the `system:authenticated` / `system:unauthenticated` post-processing of the group list -/
def finalGroups (username : Str) (groups : List Str) : List Str :=
  if username ≠ anonymous then
    if groups.any (fun g => g == allAuthenticated || g == allUnauthenticated) then groups
    else groups ++ [allAuthenticated]
  else
    if groups.any (fun g => g == allUnauthenticated) then groups
    else groups ++ [allUnauthenticated]

/-- "clear all the impersonation headers from the request": `Del` of the user and group headers and of
    (the canonical form of) every name with the extra prefix -/
def clearImpersonation (h : Headers) : Headers :=
  let h1 := hdel (hdel h hImpUser) hImpGroup
  let names := (h1.filter (fun e => hasPrefix e.1 hImpExtraPrefix)).map (fun e => canonicalKey e.1)
  h1.filter (fun e => !names.contains e.1)

inductive FilterOut where
  /-- 500: groups or extras requested without a user -/
  | internalError
  /-- 403: some derived request was not allowed -/
  | forbidden
  /-- the next handler runs with these headers and this context user -/
  | pass (h : Headers) (user : Identity)
deriving DecidableEq, Repr

/-- `WithNoLoggingImpersonation` -/
def impersonate (h : Headers) (requestor : Identity) (az : Attrs → Decision) : FilterOut :=
  match buildImpersonationRequests h with
  | none => .internalError
  | some [] => .pass h requestor
  | some reqs =>
    let groupsSpecified := !(values h hImpGroup).isEmpty
    match authorizeAll az groupsSpecified ⟨[], [], []⟩ reqs with
    | none => .forbidden
    | some a =>
      .pass (clearImpersonation h) ⟨a.username, finalGroups a.username a.groups, a.userExtra⟩

/-! ## transport: gateway credential, impersonating round tripper -/

/-- client-go `bearerAuthRoundTripper.RoundTrip`: an `Authorization` header that is already there wins -/
def bearerAuth (token : Str) (h : Headers) : Headers :=
  if !(hget h hAuthorization).isEmpty then h else hset h hAuthorization (bearerPrefix ++ token)

/-- `shouldEscape`: the set of bytes `headerKeyEscape` %-encodes, regenerated from the source by EVALUATING its predicate on
    every byte (however the source spells it: table, range tests, helper functions): the bytes that are not legal in a header
    name, '%' itself, and upper-case letters (a case-insensitive header name cannot carry them) — `escaped_set` below -/
def shouldEscape (b : UInt8) : Bool := KG.Gen.C02.escapedBytes.contains b.toNat

/-- one upper-case hexadecimal digit (`%X`) -/
def hexUpper (n : UInt8) : UInt8 := if n < 10 then 48 + n else 55 + n

/-- `headerKeyEscape`: `%%%02X` for bytes that should be escaped -/
def headerKeyEscape : Str → Str
  | [] => []
  | b :: k =>
    if shouldEscape b then 37 :: hexUpper (b / 16) :: hexUpper (b % 16) :: headerKeyEscape k
    else b :: headerKeyEscape k

/-- the `Add` calls for the groups -/
def addGroups (h : Headers) : List Str → Headers
  | [] => h
  | g :: gs => addGroups (hadd h hImpGroup g) gs

def addValues (h : Headers) (name : Str) : List Str → Headers
  | [] => h
  | v :: vs => addValues (hadd h name v) name vs

/-- the `Add` calls for the extras -/
def addExtras (h : Headers) : List (Str × List Str) → Headers
  | [] => h
  | (k, vv) :: es => addExtras (addValues h (hImpExtraPrefix ++ headerKeyEscape k) vv) es

/-- the loop deleting every header whose canonical name starts with `Impersonate-` -/
def delImpersonate (h : Headers) : Headers := h.filter (fun e => !hasPrefix (canonicalKey e.1) hWrapDeletePrefix)

/-- `headerValueSurvives`: no SP / HTAB at `v[0]` or `v[len(v)-1]`, no control byte (`(b < ' ' && b != '\t') || b == 0x7f`) -/
def headerValueSurvives (v : Str) : Bool :=
  !(match v.head?, v.getLast? with
    | some a, some z => isOWS a || isOWS z
    | _, _ => false) &&
  v.all (fun b => !((b < 32 && b != 9) || b == 127))

/-- `checkImpersonationValues` has no complaint: name, every group, every extra value survive -/
def checkImpersonationValues (u : Identity) : Bool :=
  headerValueSurvives u.name && u.groups.all headerValueSurvives && u.extra.all (fun e => e.2.all headerValueSurvives)

/-- the header writing part of `WrapRequest` (everything but the value check) -/
def wrapHeaders (h : Headers) (u : Identity) : Headers :=
  if !(hget h hImpUser).isEmpty then h
  else
    let h1 := delImpersonate h
    let h2 := hset h1 hImpUser u.name
    let h3 := addGroups h2 u.groups
    addExtras h3 u.extra

/-- `dynamicImpersonatingRoundTripper.WrapRequest` with a context user: `none` is the error returned when the identity has a
    value a header cannot carry (the check sits after the early return and before anything is written; tied behaviourally:
    the harness compares the refusals on both paths) -/
def wrapRequest (h : Headers) (u : Identity) : Option Headers :=
  if !(hget h hImpUser).isEmpty then some h
  else if !checkImpersonationValues u then none
  else some (wrapHeaders h u)

/-- net/http's transport refuses a request with an invalid header field name or value -/
def transportOK (h : Headers) : Bool := h.all (fun e => validName e.1 && e.2.all validValue)

/-- what the upstream's server reads: names canonicalised again, values written and read trimmed -/
def wire (h : Headers) : Headers := h.map (fun e => (canonicalKey e.1, e.2.map trimOWS))

/-- `headerNewlineToSpace` of net/http's header writer -/
def newlineToSpace (v : Str) : Str := v.map (fun c => if c == 10 || c == 13 then 32 else c)

/-- the upgrade path writes the request itself (`Request.Write` in `DialForUpgrade`): no transport validates the
    header fields, the writer turns CR / LF into spaces -/
def writeUpgrade (h : Headers) : Headers := h.map (fun e => (e.1, e.2.map newlineToSpace))

/-- the header fields as they arrive at the upstream on the plain / the upgrade path -/
def sendOver (upgrade : Bool) (h : Headers) : Headers := wire (if upgrade then writeUpgrade h else h)

/-! ## the whole path -/

inductive Outcome where
  /-- 400 from the net/http server: a header line it does not accept -/
  | badRequest
  /-- 401: not authenticated -/
  | unauthorized
  /-- 500 from the impersonation filter -/
  | internalError
  /-- 403 from the impersonation filter -/
  | forbidden
  /-- 502: the transport refused to send a header the gateway generated; nothing reaches the upstream -/
  | transportRefused
  /-- 502 on both paths: `WrapRequest` returned an error (`RoundTrip` returns it to the reverse proxy's error handler,
      `DialForUpgrade` returns it to the upgrade handler's responder); nothing reaches the upstream -/
  | valueRefused
  /-- upgrade path: the upstream's own server refused the header fields with 400 and served nothing -/
  | upstreamRefused
  /-- the upstream received a request with these headers; `ctxUser` is the context user the dispatcher saw -/
  | forwarded (received : Headers) (ctxUser : Identity)
deriving DecidableEq, Repr

/-- The dispatcher handing the request to the endpoint's transport, with the header set `h1` and the context user left by
    the filters: gateway credential (plain path only), `WrapRequest`, validation, the wire. -/
def deliver (token : Str) (upgrade : Bool) (h1 : Headers) (ctxUser : Identity) : Outcome :=
  let h2 := if upgrade then h1 else bearerAuth token h1
  match wrapRequest h2 ctxUser with
  | none => .valueRefused
  | some h3 =>
    if upgrade then
      if transportOK (writeUpgrade h3) then .forwarded (sendOver true h3) ctxUser else .upstreamRefused
    else
      if transportOK h3 then .forwarded (sendOver false h3) ctxUser else .transportRefused

/-- One request: raw client header lines, the authenticator's answer, the authorizer the impersonation filter consults
    (`az`, any function of the attributes record it is asked about), the gateway's bearer token.
    `upgrade`: on the upgrade path only `WrapRequest` is applied (the client-go wrappers are bypassed).
    Order of the filters: `Gen.C02.proxyChain` (authentication, then impersonation, then dispatcher). -/
def serveWith (token : Str) (raw : List (Str × Str)) (auth : Option Identity) (az : Attrs → Decision)
    (upgrade : Bool) : Outcome :=
  match parse raw with
  | none => .badRequest
  | some h0 =>
    match auth with
    | none => .unauthorized
    | some u =>
      match impersonate (authnStrip h0) u az with
      | .internalError => .internalError
      | .forbidden => .forbidden
      | .pass h1 ctxUser => deliver token upgrade h1 ctxUser

/-! ## the authorizer the shipped wiring builds

`cmd/kube-gateway/app` `CreateProxyConfig`: `o.Authorization.ApplyTo(&recommendedConfig.Config, clusterController)` →
`AuthorizerConfig.New` → `NewMultiClusterSubjectAccessReviewAuthorizer`: every check is a SubjectAccessReview (JSON) created
in the TARGET cluster through the endpoint's client; the filter gets `c.Authorization.Authorizer` (shape facts regenerated).
The decision cache is C12's subject (switched off in the harness). -/

/-- the record as the SubjectAccessReview carries it to the target cluster -/
def jsonAttrs (a : Attrs) : Attrs :=
  ⟨jsonCarried a.apiGroup, jsonCarried a.resource, jsonCarried a.subresource, jsonCarried a.ns, jsonCarried a.name⟩

/-- `MultiClusterSubjectAccessReviewAuthorizer.Authorize` for requestor `u` against the target cluster's policy: the review
    travels through the endpoint's client, whose transport impersonates the requestor (`WrapRequest` again); if that refuses,
    the answer is `decisionOnError` (deny, with an error); otherwise it is the cluster's answer about the record as JSON
    carries it. No other case: in particular no requestor (user name, group) is answered locally. -/
def wiredAuthorizer (u : Identity) (policy : Attrs → Decision) : Attrs → Decision :=
  fun a => if (wrapRequest [] u).isNone then .error else policy (jsonAttrs a)

/-- the authorizer the filter consults for a request of an authenticated client -/
def wiredFor (auth : Option Identity) (policy : Attrs → Decision) : Attrs → Decision :=
  match auth with
  | some u => wiredAuthorizer u policy
  | none => policy

/-- One request through the gateway as shipped: `policy` is the TARGET CLUSTER's authorizer (what it answers to a
    SubjectAccessReview about a record). -/
def serve (token : Str) (raw : List (Str × Str)) (auth : Option Identity) (policy : Attrs → Decision)
    (upgrade : Bool) : Outcome :=
  serveWith token raw auth (wiredFor auth policy) upgrade

/-! ## the upstream's decoder -/

/-- the extras a kube-apiserver reconstructs: for every received name with the extra prefix,
    key = `unescapeExtraKey(ToLower(suffix))` -/
def decodeExtras : Headers → List (Str × List Str)
  | [] => []
  | (n, vs) :: h =>
    if hasPrefix n hImpExtraPrefix then
      (unescapeExtraKey (toLower (n.drop hImpExtraPrefix.length)), vs) :: decodeExtras h
    else decodeExtras h

/-- the identity a kube-apiserver is told to act as by the headers it received -/
def decodeIdentity (h : Headers) : Identity :=
  ⟨hget h hImpUser, values h hImpGroup, decodeExtras h⟩

/-- is this (received, canonical) name identity bearing: `Authorization` or the `Impersonate-` family -/
def isIdentityName (n : Str) : Bool := n == hAuthorization || hasPrefix n hImpPrefix

end KG.Model.Identity
