import KG.Base.Json
/-! Driver entry points for property C18 (filled in by the C18 model). -/
namespace KG.Driver.C18
open Lean

/-- `handle method args`: `none` when the method is unknown. -/
def handle (_m : String) (_a : Json) : Option (Except String Json) := none

end KG.Driver.C18
