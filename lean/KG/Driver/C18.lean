import KG.Base.Json
import KG.Spec.Reclaim
/-! Driver entry points for property C18 (reclaiming dead gateway instances).

* `C18.run   {shards, ops}`            → `{init, steps:[{out, state}]}`: the model run on a history.
* `C18.judge {shards, ops, outs, states}` → `{violations:[{step, class}]}`: the C18 judge (`KG.Spec.Reclaim.judgeStep`)
  evaluated on states observed on the implementation (`states[0]` initial, `states[k+1]` after op `k`).
* `C18.shard {shards, names}`          → the model's `GetShardID` of each name.
* `C18.consts`                         → the regenerated constants.
-/
namespace KG.Driver.C18
open Lean KG KG.Model.Reclaim KG.Spec.Reclaim

/-! ### decoding -/

def optInt (j : Json) (k : String) : Except String (Option Int) :=
  match J.optObj j k with
  | none => pure none
  | some v => do pure (some (← v.getInt?))

def optPair (j : Json) (k : String) : Except String (Option (Int × Int)) :=
  match J.optObj j k with
  | none => pure none
  | some v => do
    let a ← v.getArr?
    match a.toList with
    | [x, y] => pure (some (← x.getInt?, ← y.getInt?))
    | _ => throw s!"{k}: pair expected"

def optHex (j : Json) (k : String) : Except String (Option Str) :=
  match J.optObj j k with
  | none => pure none
  | some v => do pure (some (← J.asHex v))

def decItem (j : Json) : Except String Item := do
  pure ⟨← J.getHex j "name", ← optInt j "mif", ← optPair j "tb"⟩

def decSchema (j : Json) : Except String Schema := do
  pure ⟨← J.getHex j "name", ← optInt j "gmif", ← optPair j "gtb"⟩

def decList {α} (f : Json → Except String α) (j : Json) (k : String) : Except String (List α) := do
  (← J.getArr j k).toList.mapM f

def decKind (j : Json) : Except String (Str × Kind) := do
  let n ← J.getHex j "name"
  match ← J.getStr j "kind" with
  | "mif" => pure (n, .mif)
  | "tb" => pure (n, .tb)
  | "unknown" => pure (n, .unknown)
  | k => throw s!"bad kind {k}"

def decOp (j : Json) : Except String Op := do
  match ← J.getStr j "op" with
  | "heartbeat" => pure (.heartbeat (← J.getHex j "i") (← J.getNat j "t"))
  | "report" => pure (.report (← J.getHex j "u") (← J.getHex j "i") (← decList decKind j "items") (← decList decItem j "quota"))
  | "acquire" =>
      let reqs ← decList (fun r => do pure ((← J.getHex r "fc"), (← J.getInt r "tokens"))) j "reqs"
      pure (.acquire (← J.getHex j "u") (← J.getHex j "i") (← J.getInt j "rid") reqs)
  | "cleanupTimeout" => pure (.cleanupTimeout (← J.getNat j "now"))
  | "cleanupUnknown" => pure .cleanupUnknown
  | "setLeader" => pure (.setLeader (← J.getNat j "s") (← J.getBool j "b"))
  | "leaderCheck" => pure .leaderCheck
  | "list" => pure (.list (← J.getHex j "u") (← decList decSchema j "schemas"))
  | "unlist" => pure (.unlist (← J.getHex j "u"))
  | "handle" => pure (.handle (← J.getHex j "u"))
  | "wireRejected" => pure .wireRejected
  | "burst" =>
      let st ← match ← optPair j "st" with
        | none => pure none
        | some (c, r) => pure (some (⟨c, r⟩ : IState))
      pure (.burst (← J.getHex j "u") (← J.getHex j "i") (← J.getHex j "fc") st)
  | "faults" => pure (.faults (← J.getHexList j "names"))
  | "apiDelete" => pure (.apiDelete (← J.getHex j "name"))
  | o => throw s!"unknown op {o}"

/-- A wire op is one model op, or — `swarm` — the sequence of primitive ops a crowd of instances performs: every
    instance heartbeats at `t`, then `rounds` times every instance reports for every upstream (one max-in-flight item
    `fc`; `quotas` = what the real allocation answered, in that order). Only the state after the whole group is
    compared and judged. -/
def decOps (j : Json) : Except String (List Op) := do
  match ← J.getStr j "op" with
  | "swarm" =>
      let t ← J.getNat j "t"
      let insts ← J.getHexList j "insts"
      let ups ← J.getHexList j "ups"
      let rounds ← J.getNat j "rounds"
      let fc ← J.getHex j "fc"
      let quotas ← (← J.getArr j "quotas").toList.mapM fun q => do (← q.getArr?).toList.mapM decItem
      let hbs := insts.map fun i => Op.heartbeat i t
      let pairs := (List.range rounds).flatMap fun _ => insts.flatMap fun i => ups.map fun u => (u, i)
      if pairs.length ≠ quotas.length then throw "swarm: one quota list per report"
      let reps := (pairs.zip quotas).map fun (p, q) => Op.report p.1 p.2 [(fc, .mif)] q
      pure (hbs ++ reps)
  | _ => do pure [← decOp j]

def decCond (j : Json) : Except String (Nat × Cond) := do
  pure (← J.getNat j "sh", ⟨← J.getHex j "name", ← J.getHex j "u", ← J.getHex j "i", ← optHex j "label",
    ← decList decItem j "items", ← decList decItem j "status"⟩)

def decStateEntry (j : Json) : Except String (Inst × IState) := do
  let a ← j.getArr?
  match a.toList with
  | [i, c, r] => pure (← J.asHex i, ⟨← c.getInt?, ← r.getInt?⟩)
  | _ => throw "state entry: [inst, count, reqId] expected"

def decFC (j : Json) : Except String (Nat × Ups × FC) := do
  pure (← J.getNat j "sh", ← J.getHex j "u", ⟨← J.getHex j "name", ← J.getBool j "mif", ← J.getInt j "max",
    ← J.getInt j "burst", ← J.getInt j "count", ← decList decStateEntry j "states"⟩)

def decHb (j : Json) : Except String (Inst × Nat) := do
  let a ← j.getArr?
  match a.toList with
  | [i, t] => pure (← J.asHex i, ← t.getNat?)
  | _ => throw "hb entry: [inst, t] expected"

def decState (j : Json) : Except String State := do
  let nats (k : String) : Except String (List Nat) := do (← J.getArr j k).toList.mapM (·.getNat?)
  pure {
    hb := ← decList decHb j "hb",
    leaders := ← nats "leaders",
    shards := ← nats "shards",
    clusters := ← decList (fun c => do pure (← J.getNat c "sh", ← J.getHex c "u", ← decList decSchema c "spec")) j "clusters",
    conds := ← decList decCond j "conds",
    fcs := ← decList decFC j "fcs",
    listed := ← decList (fun c => do pure (← J.getHex c "u", ← decList decSchema c "schemas")) j "listed",
    locks := ← J.getHexList j "locks",
    failing := ← J.getHexList j "failing" }

/-! ### encoding -/

def encOptInt : Option Int → Json
  | none => Json.null
  | some v => J.int v

def encOptPair : Option (Int × Int) → Json
  | none => Json.null
  | some (a, b) => Json.arr #[J.int a, J.int b]

def encItem (it : Item) : Json := J.obj [("name", J.hex it.name), ("mif", encOptInt it.mif), ("tb", encOptPair it.tb)]

def encSchema (sc : Schema) : Json :=
  J.obj [("name", J.hex sc.name), ("gmif", encOptInt sc.gmif), ("gtb", encOptPair sc.gtb)]

def encArr {α} (f : α → Json) (l : List α) : Json := Json.arr (l.map f).toArray

def encCond (r : Nat × Cond) : Json :=
  J.obj [("sh", J.nat r.1), ("name", J.hex r.2.name), ("u", J.hex r.2.upstream), ("i", J.hex r.2.inst),
    ("label", match r.2.label with | none => Json.null | some l => J.hex l),
    ("items", encArr encItem r.2.items), ("status", encArr encItem r.2.status)]

def encFC (r : Nat × Ups × FC) : Json :=
  let f := r.2.2
  J.obj [("sh", J.nat r.1), ("u", J.hex r.2.1), ("name", J.hex f.name), ("mif", J.bool f.isMif), ("max", J.int f.max),
    ("burst", J.int f.burst), ("count", J.int f.count),
    ("states", encArr (fun p : Inst × IState => Json.arr #[J.hex p.1, J.int p.2.count, J.int p.2.reqId]) f.states)]

def encState (s : State) : Json :=
  J.obj [
    ("hb", encArr (fun p : Inst × Nat => Json.arr #[J.hex p.1, J.nat p.2]) s.hb),
    ("leaders", encArr J.nat s.leaders),
    ("shards", encArr J.nat s.shards),
    ("clusters", encArr (fun r : Nat × Ups × List Schema =>
        J.obj [("sh", J.nat r.1), ("u", J.hex r.2.1), ("spec", encArr encSchema r.2.2)])
        (s.clusters.filter fun r => !r.2.2.isEmpty)),
    ("conds", encArr encCond s.conds),
    ("fcs", encArr encFC s.fcs),
    ("listed", encArr (fun r : Ups × List Schema => J.obj [("u", J.hex r.1), ("schemas", encArr encSchema r.2)]) s.listed),
    ("locks", J.hexList s.locks),
    ("failing", J.hexList s.failing)]

def encOut : Out → Json
  | .unit => J.obj [("k", Json.str "unit")]
  | .err e => J.obj [("k", Json.str "err"), ("e", Json.str e)]
  | .reported l => J.obj [("k", Json.str "reported"), ("label", J.hex l)]
  | .acquired rs => J.obj [("k", Json.str "acquired"), ("rs", encArr (fun r : Str × Bool × Int × String =>
      J.obj [("fc", J.hex r.1), ("accept", J.bool r.2.1), ("limit", J.int r.2.2.1), ("err", Json.str r.2.2.2)]) rs)]

def decOut (j : Json) : Except String Out := do
  match ← J.getStr j "k" with
  | "unit" => pure .unit
  | "err" => pure (.err (← J.getStr j "e"))
  | "reported" => pure (.reported (← J.getHex j "label"))
  | "acquired" =>
      let rs ← decList (fun r => do
        pure ((← J.getHex r "fc"), (← J.getBool r "accept"), (← J.getInt r "limit"), (← J.getStr r "err"))) j "rs"
      pure (.acquired rs)
  | k => throw s!"bad out {k}"

/-! ### methods -/

def shardFn (n : Nat) : Ups → Nat := getShardID n

def runSteps (f : Ups → Nat) : State → List (List Op) → List Json → List Json
  | _, [], acc => acc.reverse
  | s, [op] :: rest, acc =>
    let (s', out) := step f s op
    runSteps f s' rest (J.obj [("out", encOut out), ("state", encState s')] :: acc)
  | s, group :: rest, acc =>
    let s' := run f s group
    runSteps f s' rest (J.obj [("out", encOut .unit), ("state", encState s')] :: acc)

def doRun (a : Json) : Except String Json := do
  let n ← J.getNat a "shards"
  if n = 0 then throw "panic: integer divide by zero (shard count 0)"
  let ops ← decList decOps a "ops"
  pure <| J.obj [("init", encState init), ("steps", Json.arr (runSteps (shardFn n) init ops []).toArray)]

def judgeAll (f : Ups → Nat) : Nat → List (List Op) → List Out → List State → List Json → List Json
  | k, group :: ops, ok :: oks, pre :: post :: rest, acc =>
    let cls := match group with
      | [op] => judgeStep f pre op ok post ++ judgeState post
      | _ => judgeState post   -- a group: only the state it ends in
    let v := cls.map fun c => J.obj [("step", J.nat k), ("class", Json.str c)]
    judgeAll f (k + 1) ops oks (post :: rest) (acc ++ v)
  | _, _, _, _, acc => acc

def doJudge (a : Json) : Except String Json := do
  let n ← J.getNat a "shards"
  if n = 0 then throw "panic: integer divide by zero (shard count 0)"
  let ops ← decList decOps a "ops"
  let oks ← decList decOut a "outs"
  let states ← decList decState a "states"
  if states.length ≠ ops.length + 1 ∨ oks.length ≠ ops.length then throw "judge: need one state per op plus the initial one"
  pure <| J.obj [("violations", Json.arr (judgeAll (shardFn n) 0 ops oks states []).toArray)]

def doShard (a : Json) : Except String Json := do
  let n ← J.getNat a "shards"
  if n = 0 then throw "panic: integer divide by zero (shard count 0)"
  let names ← J.getHexList a "names"
  pure <| encArr (fun u => J.nat (getShardID n u)) names

def doConsts : Json :=
  J.obj [("timeoutMs", J.nat timeout), ("timeoutPassPeriodMs", J.nat KG.Gen.C18.timeoutPassPeriodMs),
    ("unknownPassPeriodMs", J.nat KG.Gen.C18.unknownPassPeriodMs), ("label", Json.str KG.Gen.C18.instanceLabel)]

def handle (m : String) (a : Json) : Option (Except String Json) :=
  match m with
  | "run" => some (doRun a)
  | "judge" => some (doJudge a)
  | "shard" => some (doShard a)
  | "consts" => some (pure doConsts)
  | _ => none

end KG.Driver.C18
