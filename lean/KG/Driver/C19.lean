import KG.Base.Json
import KG.Spec.K8sStore
/-! Driver entry points for property C19 (API-backed limiter store). Byte strings travel as hex.

* `C19.run`   — the model on a whole case (store configuration, initial API, operations, fault script):
                per operation the answer, the cache, the API and the number of API calls made so far; and the
                API after every call (the crash points).
* `C19.judge` — the durability judge (`KG.Spec.K8sStore.judge`) on OBSERVATIONS (of the real store): the claims
                are derived from the operations and their observed answers, and checked against the observed
                API at every crash point.
* `C19.load`  — what a fresh store for a shard holds after `Load()` on a given API (model), and the
                declarative `persistedOf`. -/
namespace KG.Driver.C19
open Lean KG KG.Model.K8sStore KG.Spec.K8sStore

def decodeCond (j : Json) : Except String Cond := do
  pure { name := ← J.getHex j "name", upstream := ← J.getHex j "up", spec := ← J.getNat j "spec",
         status := ← J.getNat j "status", labels := ← J.getNat j "labels", rv := ← J.getNat j "rv" }

def encodeCond (c : Cond) : Json :=
  J.obj [("name", J.hex c.name), ("up", J.hex c.upstream), ("spec", J.nat c.spec), ("status", J.nat c.status),
         ("labels", J.nat c.labels), ("rv", J.nat c.rv)]

def decodePair (j : Json) : Except String (Str × Str) := do
  match (← j.getArr?).toList with
  | [a, b] => pure (← J.asHex a, ← J.asHex b)
  | _ => throw "pair expected"

def decodeOrd (j : Json) : Except String (List (Str × Str)) :=
  match j.getObjVal? "ord" with
  | .ok v => do (← v.getArr?).toList.mapM decodePair
  | .error _ => pure []

def decodeOp (j : Json) : Except String Op := do
  match ← J.getStr j "op" with
  | "save" => pure (.save (← J.getHex j "key") (← decodeCond (← J.getObj j "cond")))
  | "saveStored" => do
      let c ← decodeCond (← J.getObj j "cond")
      pure (.saveStored (← J.getHex j "key") (← J.getHex j "name") c.spec c.status c.labels)
  | "delete" => pure (.delete (← J.getHex j "key") (← J.getHex j "name"))
  | "deleteUpstream" => pure (.deleteUpstream (← J.getHex j "key") (← decodeOrd j))
  | "flush" => pure (.flush (← decodeOrd j))
  | "stop" => pure (.stop (← decodeOrd j))
  | "load" => pure .load
  | "restart" => pure (.restart (← J.getNat j "shard") (← J.getBool j "wt"))
  | o => throw s!"unknown op {o}"

def decodeFault (j : Json) : Except String Fault := do
  match ← j.getStr? with
  | "ok" => pure .ok
  | "notFound" => pure .notFound
  | "conflict" => pure .conflict
  | "alreadyExists" => pure .alreadyExists
  | "transient" => pure .transient
  | "lost" => pure .lost
  | f => throw s!"unknown fault {f}"

def errName : Err → String
  | .notFound => "notFound"
  | .conflict => "conflict"
  | .alreadyExists => "alreadyExists"
  | .other => "other"
  | .timeout => "timeout"

def resName : Res → String
  | .ok => "ok"
  | .err e => errName e
  | .wrongShard => "wrongShard"

def decodeRes (s : String) : Except String Res :=
  match s with
  | "ok" => pure .ok
  | "notFound" => pure (.err .notFound)
  | "conflict" => pure (.err .conflict)
  | "alreadyExists" => pure (.err .alreadyExists)
  | "other" => pure (.err .other)
  | "timeout" => pure (.err .timeout)
  | "wrongShard" => pure .wrongShard
  | r => throw s!"unknown result {r}"

/-- `util.GetShardID(upstream, shardCount)` as a table computed by the real function for every upstream of the case. -/
def decodeShards (a : Json) : Except String (Str → Nat) := do
  let tbl ← (← J.getArr a "shards").toList.mapM fun p => do
    match (← p.getArr?).toList with
    | [u, s] => pure (← J.asHex u, ← s.getNat?)
    | _ => throw "shard pair expected"
  pure fun u => (tbl.lookup u).getD 0

def decodeConds (a : Json) (k : String) : Except String (List Cond) := do
  (← J.getArr a k).toList.mapM decodeCond

def decodeLoc (a : Json) (k : String) : Except String Loc := do
  (← J.getArr a k).toList.mapM fun p => do
    match (← p.getArr?).toList with
    | [key, c] => pure (← J.asHex key, ← decodeCond c)
    | _ => throw "loc pair expected"

def encodeConds (l : List Cond) : Json := Json.arr (l.map encodeCond).toArray
def encodeLoc (l : Loc) : Json := Json.arr (l.map fun e => Json.arr #[J.hex e.1, encodeCond e.2]).toArray

/-- `{"op":"flush"|"stop", "ord":…, "intr":{"at":k,"op":{…}}}` is a flush with another goroutine's call in its window -/
def decodeOpI (j : Json) : Except String OpI := do
  match J.optObj j "intr" with
  | none => pure (.plain (← decodeOp j))
  | some i =>
    let at_ ← J.getNat i "at"
    let intr ← decodeOp (← J.getObj i "op")
    match ← J.getStr j "op" with
    | "flush" => pure (.flushI (← decodeOrd j) at_ intr)
    | "stop" => pure (.stopI (← decodeOrd j) at_ intr)
    | o => throw s!"{o} cannot carry an intruder"

def encodePts (l : List Pt) : Json :=
  Json.arr (l.map fun s => J.obj [("api", encodeConds s.api.objs),
    ("ext", match s.voided with | some n => J.hex n | none => Json.null)]).toArray

def decodePts (o : Json) (k : String) : Except String (List Pt) := do
  match o.getObjVal? k with
  | .error _ => pure []
  | .ok v =>
    (← v.getArr?).toList.mapM fun p => do
      let ext ← match J.optObj p "ext" with
        | some e => do pure (some (← J.asHex e))
        | none => pure none
      pure ({ api := { objs := ← decodeConds p "api", nextRv := 0 }, voided := ext } : Pt)

def runOps (sh : Str → Nat) : Store → World → List OpI → List Json → List Json
  | _, _, [], acc => acc.reverse
  | st, w, op :: ops, acc =>
    match observe sh st op w with
    | (o, st', w') =>
      runOps sh st' w' ops (J.obj [("res", Json.str (resName o.res)), ("loc", encodeLoc st'.loc),
        ("api", encodeConds w'.api.objs), ("nextRv", J.nat w'.api.nextRv), ("calls", J.nat w'.trace.length),
        ("stopped", J.bool st'.stopped), ("ran", J.bool o.ran), ("ires", Json.str (resName o.ires)),
        ("seg1", encodePts o.seg1), ("seg2", encodePts o.seg2), ("seg3", encodePts o.seg3)] :: acc)

def doRun (a : Json) : Except String Json := do
  let sh ← decodeShards a
  let st := newStore (← J.getNat a "shard") (← J.getBool a "wt") (← J.getNat a "steps")
  let api : Api := { objs := ← decodeConds a "api", nextRv := ← J.getNat a "nextRv" }
  let ops ← (← J.getArr a "ops").toList.mapM decodeOpI
  let script ← (← J.getArr a "script").toList.mapM decodeFault
  let w : World := { api := api, script := script, trace := [] }
  -- the model judged by its own judge (`KG.Props.C19.c19_durable` proves it true on every allowed history)
  let ok := (checkAll sh st Ghost.empty w ops).all fun p => judge p.1 p.2
  pure <| J.obj [("steps", Json.arr (runOps sh st w ops []).toArray), ("judge", J.bool ok)]

/-- The judge on observations of the real store. One observation: the operation, the cache before it, whether the
    store was stopped, the crash points (before / inside / after the window), the answers, the API at the return.
    -/
def judgeObs (sh : Str → Nat) : Cfg → Ghost → Nat → List Json → Except String Json
  | _, _, _, [] => pure (J.obj [("ok", J.bool true)])
  | cfg, g, i, o :: rest => do
    let op ← decodeOpI (← J.getObj o "op")
    let st : Store := { cfg := cfg, loc := ← decodeLoc o "loc", stopped := ← J.getBool o "stopped" }
    let ran := (J.getBool o "ran").toOption.getD false
    let ires ← match J.getStr o "ires" with
      | .ok s => decodeRes s
      | .error _ => pure Res.ok
    let obs : Obs := { st := st, op := op, seg1 := ← decodePts o "points", ran := ran, seg2 := ← decodePts o "ipoints",
                       ires := ires, seg3 := ← decodePts o "points3", res := ← decodeRes (← J.getStr o "res"),
                       fin := { objs := ← decodeConds o "api", nextRv := 0 } }
    let r := checkObs sh g obs
    match (r.1.zipIdx).find? (fun p => ! judge p.1.1 p.1.2) with
    | some p =>
      let (n, kind) := (firstBroken p.1.1 p.1.2).getD ([], 9)
      pure (J.obj [("ok", J.bool false), ("at", J.nat i), ("point", J.nat p.2), ("name", J.hex n), ("kind", J.nat kind),
                   ("api", encodeConds p.1.2.objs)])
    | none =>
      let cfg' := match op with
        | .plain (.restart s wt) => { cfg with shard := s, writeThrough := wt }
        | _ => cfg
      judgeObs sh cfg' r.2 (i + 1) rest

def doJudge (a : Json) : Except String Json := do
  let sh ← decodeShards a
  let cfg : Cfg := { shard := ← J.getNat a "shard", writeThrough := ← J.getBool a "wt", steps := ← J.getNat a "steps" }
  judgeObs sh cfg Ghost.empty 0 (← J.getArr a "obs").toList

def doLoad (a : Json) : Except String Json := do
  let sh ← decodeShards a
  let shard ← J.getNat a "shard"
  let api : Api := { objs := ← decodeConds a "api", nextRv := ← J.getNat a "nextRv" }
  let w : World := { api := api, script := [], trace := [] }
  let r := load sh (newStore shard true 5) w
  pure <| J.obj [("res", Json.str (resName r.2.2)), ("loc", encodeLoc r.1.loc),
                 ("persisted", encodeConds (persistedOf sh shard api))]

/-- `C19.locks {wt}`: which calls the model lets run inside a running flush (from the regenerated lock facts) -/
def doLocks (a : Json) : Except String Json := do
  let wt ← J.getBool a "wt"
  let c : Cond := ⟨[], [], 0, 0, 0, 0⟩
  pure <| J.obj [("save", J.bool (mayRunInside genLocks wt (.save [] c))), ("saveStored", J.bool (mayRunInside genLocks wt (.saveStored [] [] 0 0 0))), ("delete", J.bool (mayRunInside genLocks wt (.delete [] []))),
    ("deleteUpstream", J.bool (mayRunInside genLocks wt (.deleteUpstream [] []))), ("flush", J.bool (mayRunInside genLocks wt (.flush []))),
    ("stop", J.bool (mayRunInside genLocks wt (.stop []))), ("load", J.bool (mayRunInside genLocks wt .load))]

def handle (m : String) (a : Json) : Option (Except String Json) :=
  match m with
  | "locks" => some (doLocks a)
  | "run" => some (doRun a)
  | "judge" => some (doJudge a)
  | "load" => some (doLoad a)
  | _ => none

end KG.Driver.C19
