import KG.Base.Json
import KG.Driver.C03
/-!
Driver entry points for C14 (round-robin).

`C14.run {setup:[C03 harness ops…], lb:[{key,c}…], events:[[name…] | {sync:op}…], impl:[pop outputs…]?}` — the endpoint map is
the one the C03 model reaches on `setup` (with quiescence after every op); the cursors are then overwritten with `lb`; the
picks `uss` are run sequentially (`popMany`).  The reply carries the model's results and final cursors and, for the results
`impl` observed from the implementation, the verdict of the counting judges `strictOK` / `boundedOK` of `KG.Spec.Endpoints`
(the statements of `c14_strict` / `c14_bounded`).
-/
namespace KG.Driver.C14
open Lean KG KG.Model.Endpoints KG.Spec.Endpoints KG.Driver.C03

def decodeKey (j : Json) : Except String Key := do
  (← j.getArr?).toList.mapM fun x => do pure (← J.getHex x "n", ← J.getNat x "gen")

def runSetup (ops : Array Json) (policyScopes : Bool := false) : Except String State := do
  let mut s := initScoped policyScopes
  for j in ops do
    let h ← decodeOp s j
    let r := step s h.op
    s := (quiesce h.up (fuelOf r.1) r.1 []).1
  pure s

def dedupKeys : List Key → List Key
  | [] => []
  | k :: ks => k :: (dedupKeys ks).filter (fun k' => k' != k)

def idLt (a b : EName × Nat) : Bool := a.1.toHex < b.1.toHex || (a.1 == b.1 && a.2 < b.2)

/-- the ready *set* of an ordered ready list -/
def canonSet (κ : Key) : Key :=
  ((κ.filter fun e => e.1 != [112, 105, 99, 107, 111, 110, 101, 58] && e.1 != [0]).toArray.qsort idLt).toList

structure GroupVerdict where
  members : Key
  k : Nat
  orders : Nat
  n : Nat
  applicable : Bool
  counts : List ((EName × Nat) × Nat)
  bad : Option ((EName × Nat) × Nat)
  strays : Bool       -- a pick of this group answered something that is not a ready member

/-- judge the picks that were made on one ready set: `keys`/`res` are the ordered ready lists and the results of those picks -/
def judgeGroup (lb : List (Key × Nat)) (members : Key) (keys : List Key) (res : List PopOut) : GroupVerdict :=
  let K := dedupKeys keys
  let k := members.length
  let N := keys.length
  let nodup := decide members.Nodup
  let noWrap := K.all fun κ => decide (lbGet lb κ + N < 2 ^ 64)
  let applicable := nodup && noWrap && decide (2 ≤ k)
  let counts := members.map fun e => (e, countPicked e.1 e.2 res)
  -- per cursor: the picks that used one ordered ready list are strict round-robin among themselves (`c14_strict` on that
  -- key's picks; picks on other keys do not touch its cursor, `c14_cursor_law`)
  let perKeyBad := K.findSome? fun κ =>
    let mineRes := ((keys.zip res).filter fun p => p.1 == κ).map (·.2)
    let Nκ := mineRes.length
    if !decide (lbGet lb κ + Nκ < 2 ^ 64) then none else
    (members.map fun e => (e, countPicked e.1 e.2 mineRes)).find? fun p => !(strictOK k Nκ p.2)
  let bad := if !applicable then none else
    match counts.find? fun p => !(boundedOK k K.length N p.2) || (K.length == 1 && !(strictOK k N p.2)) with
    | some b => some b
    | none => perKeyBad
  let strays := res.any fun x => match x with
    | .picked n g => !members.contains (n, g)
    | _ => decide (1 ≤ k)
  { members := members, k := k, orders := K.length, n := N, applicable := applicable, counts := counts, bad := bad, strays := strays }

def encodeId (e : EName × Nat) : Json := J.obj [("n", J.hex e.1), ("gen", J.nat e.2)]

def doRun (a : Json) : Except String Json := do
  let policyScopes := (J.getBool a "policy_scopes").toOption.getD false
  let s ← runSetup (← J.getArr a "setup") policyScopes
  let lb ← (← J.getArr a "lb").toList.mapM fun x => do
    let k ← decodeKey (← J.getObj x "key")
    -- a preset for the cursor of policy i carries "policy": i when the policies have scopes of their own
    let k := match (J.getNat x "policy").toOption with
      | some i => if policyScopes then scopeTag i ++ k else k
      | none => k
    pure (k, ← J.getNat x "c")
  -- the window: picks (arrays of upstream names) and Syncs (`{"sync": <C03 sync op>}`) in between, in order
  let events ← J.getArr a "events"
  let mut st : State := { s with lb := lb }
  let mut lbAuth : List (Key × Nat) := []   -- PickOne's own cursors, when the code gives it some (`own`)
  let mut resultsA : Array PopOut := #[]
  let mut keysA : Array Key := #[]
  let mut polA : Array (Option Nat) := #[]   -- the dispatch policy of each pick (none: PickOne, a bare picker)
  let mut stable := true     -- no Sync / probe of the window changed an endpoint's readiness: the ready sets are stable
  let pickoneTag : EName × Nat := ([112, 105, 99, 107, 111, 110, 101, 58], 0)   -- "pickone:" marks keys of the other cursor scope
  for ev in events do
    match ev with
    | Json.arr xs =>
      let us ← xs.toList.mapM J.asHex
      polA := polA.push none
      keysA := keysA.push ((readyList st.eps us).map EP.id)
      let r := pop st.eps st.lb us
      resultsA := resultsA.push r.1
      st := { st with lb := r.2 }
    | _ =>
      match J.optObj ev "pick" with
      | some pk =>
        -- a dispatch policy's pick: {"us":[…], "policy": i}
        let us ← J.getHexList pk "us"
        let pol ← J.getNat pk "policy"
        let tag := if policyScopes then scopeTag pol else []
        polA := polA.push (some pol)
        keysA := keysA.push (tag ++ (readyList st.eps us).map EP.id)
        let r := popScoped tag st.eps st.lb us
        resultsA := resultsA.push r.1
        st := { st with lb := r.2 }
      | none =>
      match J.optObj ev "pickone" with
      | some po =>
        -- ClusterInfo.PickOne(): a Pop over AllEndpoints() in the observed order, on the policies' cursors or on its own
        let us ← J.getHexList po "order"
        let own := (J.getBool po "own").toOption.getD false
        let key := (readyList st.eps us).map EP.id
        polA := polA.push none
        if own then
          let r := pop st.eps lbAuth us
          keysA := keysA.push (pickoneTag :: key)
          resultsA := resultsA.push r.1
          lbAuth := r.2
        else
          let r := pop st.eps st.lb us
          keysA := keysA.push key
          resultsA := resultsA.push r.1
          st := { st with lb := r.2 }
      | none =>
        let opj ← match J.optObj ev "probe" with
          | some p => pure p
          | none => J.getObj ev "sync"
        let h ← decodeOp st opj
        let r := step st h.op
        let st' := (quiesce h.up (fuelOf r.1) r.1 []).1
        if (st'.eps.map fun e => (e.id, e.isReady)) != (st.eps.map fun e => (e.id, e.isReady)) then stable := false
        st := st'
  let keys := keysA.toList
  let r : List PopOut × List (Key × Nat) := (resultsA.toList, st.lb)
  -- judge the implementation's results (or the model's own when none are given), pick i ↔ result i
  let implRes ← match J.optObj a "impl" with
    | some i => (← i.getArr?).toList.mapM decodePop
    | none => pure r.1
  let sets := dedupKeys (keys.map canonSet)
  let pairs := keys.zip implRes
  let verdicts := sets.map fun m =>
    let mine := pairs.filter fun p => canonSet p.1 == m
    let v := judgeGroup lb m (mine.map (·.1)) (mine.map (·.2))
    if stable then v else { v with applicable := false, bad := none }
  -- per policy (`PolicyStrict`): the picks of ONE policy on one ordered ready list are strict round-robin among themselves,
  -- whatever other policies pick in between; asked for when the code gives every policy its own cursors
  let judgePerPolicy := (J.getBool a "judge_per_policy").toOption.getD false
  let triples := (polA.toList.zip keys).zip implRes
  let polKeys := dedupKeys ((triples.filterMap fun t => match t.1.1 with
    | some p => some ((([1] : EName), p) :: (t.1.2.filter fun e => e.1 != [0]))
    | none => none))
  let policyBad : Option (Nat × (EName × Nat) × Nat × Nat) := if !(judgePerPolicy && stable) then none else
    polKeys.findSome? fun pk =>
      match pk with
      | (_, p) :: κ =>
        let mine := (triples.filter fun t => t.1.1 == some p && (t.1.2.filter fun e => e.1 != [0]) == κ).map (·.2)
        let k := κ.length
        let real := (if policyScopes then scopeTag p else []) ++ κ
        if !(decide κ.Nodup && decide (2 ≤ k) && decide (lbGet lb real + keys.length < 2 ^ 64)) then none else
        (κ.map fun e => (e, countPicked e.1 e.2 mine)).findSome? fun c =>
          if strictOK k mine.length c.2 then none else some (p, c.1, c.2, mine.length)
      | [] => none
  pure <| J.obj [
    ("policy_bad", match policyBad with
      | some (p, e, cnt, n) => J.obj [("policy", J.nat p), ("id", encodeId e), ("count", J.nat cnt), ("n", J.nat n)]
      | none => Json.null),
    ("results", Json.arr (r.1.map encodePop).toArray), ("lb", encodeLb r.2), ("lb_pickone", encodeLb lbAuth),
    ("groups", Json.arr (verdicts.map fun v => J.obj [
      ("members", Json.arr (v.members.map encodeId).toArray), ("k", J.nat v.k), ("orders", J.nat v.orders), ("n", J.nat v.n),
      ("applicable", J.bool v.applicable), ("strays", J.bool v.strays),
      ("counts", Json.arr (v.counts.map fun p => J.obj [("id", encodeId p.1), ("count", J.nat p.2)]).toArray),
      ("bad", match v.bad with
        | some p => J.obj [("id", encodeId p.1), ("count", J.nat p.2)]
        | none => Json.null)]).toArray)]

/-- `C14.window {setup:[C03 harness ops…], subset:[name…], d:Nat, impl:[pop outputs…]}` — a fresh stable window judged against
    the **final configuration**: the ready set is what the model reaches on `setup` (the Syncs in the order they were issued,
    the health table), not what the pickers happened to see.  `subset = []`: every ready endpoint, bounded deviation with the
    `d` distinct orders observed; else the ready endpoints of the subset in its order, strict floor/ceil. -/
def doWindow (a : Json) : Except String Json := do
  let s ← runSetup (← J.getArr a "setup")
  let subset ← J.getHexList a "subset"
  let d ← J.getNat a "d"
  let impl ← (← J.getArr a "impl").toList.mapM decodePop
  let ready := if subset.isEmpty then (sortEps s.eps).filter EP.isReady else readyList s.eps subset
  let members := ready.map EP.id
  let k := members.length
  let N := impl.length
  let counts := members.map fun e => (e, countPicked e.1 e.2 impl)
  let applicable := decide members.Nodup && decide (2 ≤ k)
  let bad := if !applicable then none else
    counts.find? fun p => if subset.isEmpty then !(boundedOK k (max d 1) N p.2) else !(strictOK k N p.2)
  let strays := impl.any fun x => match x with
    | .picked n g => !members.contains (n, g)
    | _ => decide (1 ≤ k)
  pure <| J.obj [
    ("members", Json.arr (members.map encodeId).toArray), ("k", J.nat k), ("n", J.nat N), ("applicable", J.bool applicable),
    ("strays", J.bool strays),
    ("names", J.hexList ((sortEps s.eps).map (·.name))),
    ("eps", Json.arr ((sortEps s.eps).map encodeEP).toArray),
    ("counts", Json.arr (counts.map fun p => J.obj [("id", encodeId p.1), ("count", J.nat p.2)]).toArray),
    ("bad", match bad with
      | some p => J.obj [("id", encodeId p.1), ("count", J.nat p.2)]
      | none => Json.null)]

def handle (m : String) (a : Json) : Option (Except String Json) :=
  match m with
  | "run" => some (doRun a)
  | "window" => some (doWindow a)
  | _ => none

end KG.Driver.C14
