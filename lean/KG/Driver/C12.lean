import KG.Base.Json
import KG.Spec.AuthCache
/-!
Driver entry points for C12.

`C12.run {cfg, tokOracle, sarOracle, attrs, ops, impl}`:
* runs the scheduled requests `ops` (`Macro`s) on the model from `init` and returns every answer given
  (`outs`), the number of small steps executed, the live cache keys;
* evaluates the judge of `KG.Spec.AuthCache` on the model's own answers (`modelJudge`) and on the observations
  `impl` made on the real code (`implJudge`: one verdict per observation).

Oracles are rule lists: the answer of instance `i` for a token / spec at time `t` is the answer of the first
rule `[i, key, from, ans]` with `from ≤ t` (default: not authenticated / no opinion).
-/
namespace KG.Driver.C12
open Lean KG KG.Model.AuthCache KG.Spec.AuthCache

def getHexOpt (j : Json) (k : String) : Except String (Option Str) :=
  match J.optObj j k with
  | none => pure none
  | some v => do pure (some (← J.asHex v))

def decodeUser (j : Json) : Except String UserInfo := do
  let extra ← (← J.getArr j "extra").toList.mapM fun kv => do
    let a ← kv.getArr?
    match a.toList with
    | [k, vs] => do
      let vals ← (← vs.getArr?).toList.mapM J.asHex
      pure ((← J.asHex k), vals)
    | _ => throw "bad extra"
  pure { name := ← J.getHex j "name", uid := ← J.getHex j "uid", groups := ← J.getHexList j "groups", extra := extra }

def decodeAttrs (j : Json) : Except String Attrs := do
  let user ← match J.optObj j "user" with
    | none => pure none
    | some u => do pure (some (← decodeUser u))
  pure { user := user, verb := ← J.getHex j "verb", ns := ← J.getHex j "ns", apiGroup := ← J.getHex j "apiGroup",
         apiVersion := ← J.getHex j "apiVersion", resource := ← J.getHex j "resource",
         subresource := ← J.getHex j "subresource", name := ← J.getHex j "name", path := ← J.getHex j "path",
         resourceRequest := ← J.getBool j "resourceRequest" }

def decodeTokAns (j : Json) : Except String TokAns := do
  match ← J.getStr j "k" with
  | "ok" => pure (.ok (← J.getHex j "user"))
  | "no" => pure .no
  | "err" => pure .err
  | k => throw s!"bad token answer {k}"

def decodeSarAns (j : Json) : Except String SarAns := do
  match ← J.getStr j "k" with
  | "st" => pure (.status ⟨← J.getBool j "allowed", ← J.getBool j "denied", ← J.getHex j "reason"⟩)
  | "err" => pure .err
  | k => throw s!"bad sar answer {k}"

structure TokRule where
  inst : Inst
  tok : Str
  frm : Time
  ans : TokAns

structure SarRule where
  inst : Inst
  spec : Spec
  frm : Time
  ans : SarAns

def tokOracle (rules : List TokRule) (c : Inst) (tok : Str) (t : Time) : TokAns :=
  match rules.find? (fun r => decide (r.inst = c) && decide (r.tok = tok) && decide (r.frm ≤ t)) with
  | some r => r.ans
  | none => .no

def sarOracle (rules : List SarRule) (c : Inst) (spec : Spec) (t : Time) : SarAns :=
  match rules.find? (fun r => decide (r.inst = c) && decide (r.spec = spec) && decide (r.frm ≤ t)) with
  | some r => r.ans
  | none => .status ⟨false, false, []⟩

def nth (l : List α) (i : Nat) (what : String) : Except String α :=
  match l[i]? with
  | some x => pure x
  | none => throw s!"index {i} out of range in {what}"

def decodeEv (j : Json) : Except String Ev := do
  match ← J.getStr j "e" with
  | "tick" => pure (.tick (← J.getNat j "dt"))
  | "add" => pure (.addWithKey (← J.getHex j "key") (← J.getNat j "inst"))
  | "del" => pure (.delete (← J.getHex j "key"))
  | "delStop" => pure (.deleteWithStop (← J.getHex j "key"))
  | "delAll" => pure .deleteAll
  | "stop" => pure (.stop (← J.getNat j "inst"))
  | "ep" => pure (.setEndpoint (← J.getNat j "inst") (← J.getHex j "name") (← J.getBool j "healthy") (← J.getBool j "disabled"))
  | "rmEp" => pure (.removeEndpoint (← J.getNat j "inst") (← J.getHex j "name"))
  | "dropTok" => pure (.dropTok (← J.getHex j "host") (← J.getNat j "inst"))
  | "dropSar" => pure (.dropSar (← J.getHex j "host") (← J.getNat j "inst"))
  | "dropStopped" => pure .dropStopped
  | e => throw s!"unknown event {e}"

/-- nesting is bounded by `fuel` (the harness nests at most three deep) -/
def bound (j : Json) : Bool :=
  match j.getObjVal? "bound" with
  | .ok (Json.bool b) => b
  | _ => false

def decodeMacro (attrs : List Attrs) : Nat → Json → Except String Model.AuthCache.Macro
  | 0, _ => throw "macro nesting too deep"
  | fuel + 1, j => do
    let sub (k : String) : Except String (List Model.AuthCache.Macro) :=
      match J.optObj j k with
      | none => pure []
      | some v => do (← v.getArr?).toList.mapM (decodeMacro attrs fuel)
    match ← J.getStr j "op" with
    | "ev" => pure (.ev (← decodeEv (← J.getObj j "ev")))
    | "tok" => pure (.tok (← J.getHex j "host") (← J.getHex j "tok") 0 0 (bound j) (← sub "mid0") (← sub "mid1") (← sub "mid2"))
    | "sar" => pure (.sar (← J.getHex j "host") (← nth attrs (← J.getNat j "attrs") "attrs") 0 (bound j) (← sub "mid0") (← sub "mid"))
    | "pipe" => do
      let tg ← getHexOpt j "target"
      pure (.pipe (← J.getHex j "host") (← J.getHex j "tok") tg (← sub "mid0") (← sub "mid1") (← sub "mid2")
        (← sub "midA") (← sub "mid") (← sub "midD"))
    | o => throw s!"unknown op {o}"

def errName : ErrKind → String
  | .notFound => "notFound"
  | .noReady => "noReady"
  | .moved => "moved"
  | .upstream => "upstream"
  | .both => "both"
  | .other => "other"

def errOfName : String → Except String ErrKind
  | "notFound" => pure .notFound
  | "noReady" => pure .noReady
  | "moved" => pure .moved
  | "upstream" => pure .upstream
  | "both" => pure .both
  | "other" => pure .other
  | e => throw s!"unknown error kind {e}"

def encTokRes : TokRes → Json
  | .authenticated u => J.obj [("k", "auth"), ("user", J.hex u)]
  | .unauthenticated => J.obj [("k", "unauth")]
  | .error k => J.obj [("k", "err"), ("e", errName k)]

def decTokRes (j : Json) : Except String TokRes := do
  match ← J.getStr j "k" with
  | "auth" => pure (.authenticated (← J.getHex j "user"))
  | "unauth" => pure .unauthenticated
  | "err" => pure (.error (← errOfName (← J.getStr j "e")))
  | k => throw s!"bad token result {k}"

def decisionName : Decision → String
  | .deny => "deny"
  | .allow => "allow"
  | .noOpinion => "noOpinion"

def encSarRes (r : SarRes) : Json :=
  J.obj [("d", decisionName r.decision), ("reason", J.hex r.reason),
         ("e", match r.err with | some k => errName k | none => "")]

def decSarRes (j : Json) : Except String SarRes := do
  let d ← match ← J.getStr j "d" with
    | "deny" => pure Decision.deny
    | "allow" => pure Decision.allow
    | "noOpinion" => pure Decision.noOpinion
    | d => throw s!"bad decision {d}"
  let e ← match ← J.getStr j "e" with
    | "" => pure none
    | e => do pure (some (← errOfName e))
  pure ⟨d, ← J.getHex j "reason", e⟩

def srcName : Src → String
  | .none => "none"
  | .fresh => "fresh"
  | .cached _ _ => "cached"

def optInst : Option Inst → Json
  | some c => J.nat c
  | none => J.int (-1)

def optHex : Option Str → Json
  | some s => J.hex s
  | none => Json.null

def encOut : Out → Json
  | .tok o => J.obj [("kind", "tok"), ("rid", J.nat o.rid), ("inst", optInst o.inst), ("upstream", optInst o.upstream), ("res", encTokRes o.res),
                     ("time", J.nat o.time), ("src", srcName o.src), ("ep", optHex o.ep), ("ready", J.hexList o.ready)]
  | .sar o => J.obj [("kind", "sar"), ("rid", J.nat o.rid), ("inst", optInst o.inst), ("upstream", optInst o.upstream), ("res", encSarRes o.res),
                     ("time", J.nat o.time), ("src", srcName o.src), ("ep", optHex o.ep), ("ready", J.hexList o.ready)]

  | .disp o => J.obj [("kind", "disp"), ("rid", J.int (-1)), ("inst", optInst o.selected), ("upstream", optInst o.upstream),
                      ("proxied", optInst o.proxied), ("time", J.nat o.time), ("res", Json.null), ("src", "none"),
                      ("ep", Json.null), ("ready", Json.arr #[])]

def decOwn (j : Json) : Except String (Option Inst) := do
  let i ← J.getInt j "own"
  pure (if i < 0 then none else some i.toNat)

def doRun (a : Json) : Except String Json := do
  let cfgJ ← J.getObj a "cfg"
  let cfg : Cfg := { successTTL := ← J.getNat cfgJ "successTTL", failureTTL := ← J.getNat cfgJ "failureTTL",
                     allowTTL := ← J.getNat cfgJ "allowTTL", denyTTL := ← J.getNat cfgJ "denyTTL",
                     bindTok := KG.Gen.C12.bindsTokenToUpstream, bindSar := KG.Gen.C12.bindsSarToUpstream,
                     bindDisp := KG.Gen.C12.dispatcherUsesBoundCluster }
  let attrs ← (← J.getArr a "attrs").toList.mapM decodeAttrs
  let tokRules ← (← J.getArr a "tokOracle").toList.mapM fun r => do
    pure (⟨← J.getNat r "inst", ← J.getHex r "tok", ← J.getNat r "from", ← decodeTokAns (← J.getObj r "ans")⟩ : TokRule)
  let sarRules ← (← J.getArr a "sarOracle").toList.mapM fun r => do
    let atr ← nth attrs (← J.getNat r "attrs") "attrs"
    pure (⟨← J.getNat r "inst", specOf atr, ← J.getNat r "from", ← decodeSarAns (← J.getObj r "ans")⟩ : SarRule)
  let env : Env := { cfg := cfg, tokO := tokOracle tokRules, sarO := sarOracle sarRules }
  let ops ← (← J.getArr a "ops").toList.mapM (decodeMacro attrs 6)
  let r := runMacros env ⟨init, [], []⟩ ops
  -- candidate times for the judge: every time at which an answer was given (model), plus the observation's own
  let modelTimes := r.outs.map fun o => match o with | .tok x => x.time | .sar x => x.time | .disp x => x.time
  let impl := match J.optObj a "impl" with
    | some (Json.arr xs) => xs.toList
    | _ => []
  let implObs ← impl.mapM fun j => do
    match ← J.getStr j "kind" with
    | "tok" => do
      pure (Sum.inl ({ own := ← decOwn j, ownReady := ← J.getBool j "ownReady", tok := ← J.getHex j "tok",
                       res := ← decTokRes (← J.getObj j "res"), time := ← J.getNat j "time",
                       reviewed := ← J.getBool j "reviewed" } : TokObs))
    | "sar" => do
      pure (Sum.inr ({ own := ← decOwn j, ownReady := ← J.getBool j "ownReady",
                       attrs := ← nth attrs (← J.getNat j "attrs") "attrs",
                       res := ← decSarRes (← J.getObj j "res"), time := ← J.getNat j "time",
                       reviewed := ← J.getBool j "reviewed" } : SarObs))
    | k => throw s!"bad observation kind {k}"
  let implTimes := implObs.map fun o => match o with | .inl x => x.time | .inr x => x.time
  let cands := (modelTimes ++ implTimes).eraseDups
  let implJudge := implObs.map fun o => match o with
    | .inl x => tokJudgeR env cands x
    | .inr x => sarJudgeR env cands x
  pure <| J.obj [
    ("outs", Json.arr (r.outs.map encOut).toArray),
    ("steps", J.nat r.steps.length),
    ("tokKeys", Json.arr (r.s.tokMap.map fun kv => Json.arr #[J.hex kv.1.host, J.nat kv.1.inst]).toArray),
    ("sarKeys", Json.arr (r.s.sarMap.map fun kv => Json.arr #[J.hex kv.1.host, J.nat kv.1.inst]).toArray),
    ("stopped", Json.arr (r.s.stopped.map J.nat).toArray),
    ("pending", J.nat (r.s.tokPend.length + r.s.sarPend.length)),
    ("bindTok", J.bool cfg.bindTok), ("bindSar", J.bool cfg.bindSar),
    ("implJudge", Json.arr (implJudge.map J.bool).toArray)]

/-- `C12.host {hp}`: `Hostname` of a request whose `Host` header is `hp` -/
def doHost (a : Json) : Except String Json := do
  pure (J.hex (hostWithoutPort (← J.getHex a "hp")))

def handle (m : String) (a : Json) : Option (Except String Json) :=
  match m with
  | "run" => some (doRun a)
  | "host" => some (doHost a)
  | _ => none

end KG.Driver.C12
