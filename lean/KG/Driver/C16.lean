import KG.Base.Json
import KG.Spec.Validate
/-! Driver entry points for property C16 (admission validation and its consumers).

`C16.run {env, known, cluster, prev?}`: the model of the plugin's `Validate` on `cluster` (for both answers of
`PopAny`), the declarative spec (`valid`, `usable`, the classes), and the outcome (`ok` / `err` / `panic`) of every
consumer model on the object: `CreateClusterInfo` (local and remote mode), `Sync` as an update of `prev`, the
controller's `syncUpstreamCluster`, the limiter server's handler + one status update, two reconcile periods of the
gateway against that limiter server; plus the limiter sizes that result.

The external parsers arrive as finite tables (`env`): every byte string the object contains, with the answer the
REAL parser gave for it. Byte strings travel as hex. -/
namespace KG.Driver.C16
open Lean KG KG.Model.Validate KG.Spec.Validate

structure Tables where
  urls : List (Str × Option URL × Bool)
  pairs : List (Str × Str × Bool)
  pems : List (Str × Bool)
  gates : List (Str × Option Bool)
  popFirst : Bool

def asciiLower (s : Str) : Str := s.map (fun b => if 65 ≤ b ∧ b ≤ 90 then b + 32 else b)

def mkEnv (t : Tables) (popFirst : Bool) : Env :=
  { urlParse := fun s => match t.urls.find? (fun e => e.1 = s) with
      | some e => e.2.1
      | none => none,
    x509KeyPair := fun c k => match t.pairs.find? (fun e => e.1 = c ∧ e.2.1 = k) with
      | some e => e.2.2
      | none => false,
    parseCertsPEM := fun d => match t.pems.find? (fun e => e.1 = d) with
      | some e => e.2
      | none => false,
    featureGateSet := fun v => match t.gates.find? (fun e => e.1 = v) with
      | some e => e.2
      | none => none,
    restHostOK := fun s => match t.urls.find? (fun e => e.1 = s) with
      | some e => e.2.2
      | none => false,
    lower := asciiLower,
    popFirst := popFirst }

/-- a Go nil slice travels as `null` -/
def getArrD (j : Json) (k : String) : Except String (Array Json) :=
  match J.optObj j k with
  | none => pure #[]
  | some v => v.getArr?

def getHexListD (j : Json) (k : String) : Except String (List Str) := do
  (← getArrD j k).toList.mapM J.asHex

def optInt (j : Json) (k : String) : Except String (Option Int) :=
  match J.optObj j k with
  | none => pure none
  | some v => do pure (some (← v.getInt?))

def optTB (j : Json) (k : String) : Except String (Option TokenBucket) :=
  match J.optObj j k with
  | none => pure none
  | some v => do pure (some ⟨← J.getInt v "qps", ← J.getInt v "burst"⟩)

def optBool (j : Json) (k : String) : Except String (Option Bool) :=
  match J.optObj j k with
  | none => pure none
  | some v => do pure (some (← v.getBool?))

def decodeErrType (s : String) : Except String ErrType :=
  match s with
  | "required" => pure .required
  | "invalid" => pure .invalid
  | "duplicate" => pure .duplicate
  | "forbidden" => pure .forbidden
  | "other" => pure .other
  | _ => throw s!"unknown error type {s}"

def encodeErrType : ErrType → String
  | .required => "required"
  | .invalid => "invalid"
  | .duplicate => "duplicate"
  | .forbidden => "forbidden"
  | .other => "other"

def decodeFieldErr (j : Json) : Except String FieldErr := do
  let a ← j.getArr?
  match a.toList with
  | [t, p] => pure ⟨← decodeErrType (← t.getStr?), ← p.getStr?⟩
  | _ => throw "field error: expected [type, path]"

def encodeErrs (l : Errs) : Json :=
  Json.arr (l.map fun e => Json.arr #[Json.str (encodeErrType e.typ), Json.str e.path]).toArray

def decodeSchema (j : Json) : Except String Schema := do
  pure { name := ← J.getHex j "name", strategy := ← J.getHex j "strategy", exempt := ← J.getBool j "exempt",
         maxRequestsInflight := ← optInt j "max", tokenBucket := ← optTB j "tb",
         globalMaxRequestsInflight := ← optInt j "gmax", globalTokenBucket := ← optTB j "gtb" }

def decodeServer (j : Json) : Except String Server := do
  pure { endpoint := ← J.getHex j "endpoint", disabled := ← optBool j "disabled" }

def decodeClientConfig (j : Json) : Except String ClientConfig := do
  pure { insecure := ← J.getBool j "insecure", bearerToken := ← J.getHex j "bearerToken", keyData := ← J.getHex j "keyData",
         certData := ← J.getHex j "certData", caData := ← J.getHex j "caData", qps := ← J.getInt j "qps",
         burst := ← J.getInt j "burst", qpsDivisor := ← J.getInt j "qpsDivisor" }

def decodeSecureServing (j : Json) : Except String SecureServing := do
  pure { keyData := ← J.getHex j "keyData", certData := ← J.getHex j "certData",
         clientCAData := ← J.getHex j "clientCAData", serverNames := ← getHexListD j "serverNames" }

def decodePolicy (j : Json) : Except String Policy := do
  pure { strategy := ← J.getHex j "strategy", upstreamSubset := ← getHexListD j "upstreamSubset",
         nRules := ← J.getNat j "nRules", flowControlSchemaName := ← J.getHex j "flowControlSchemaName",
         logMode := ← J.getHex j "logMode" }

def decodeKV (j : Json) : Except String (Str × Str) := do
  let a ← j.getArr?
  match a.toList with
  | [k, v] => pure (← J.asHex k, ← J.asHex v)
  | _ => throw "annotation: expected [key, value]"

def decodeLifecycle (j : Json) : Except String Lifecycle :=
  match J.optObj j "lifecycle" with
  | none => pure {}
  | some l => do
    let labels ← (← getArrD l "labels").toList.mapM decodeKV
    pure { terminating := (J.getBool l "terminating").toOption.getD false,
           finalizers := ← getHexListD l "finalizers",
           generation := (J.getInt l "generation").toOption.getD 0,
           resourceVersion := (J.getHex l "resourceVersion").toOption.getD [],
           managedFields := (J.getNat l "managedFields").toOption.getD 0,
           ownerReferences := (J.getNat l "ownerReferences").toOption.getD 0,
           labels := labels }

def decodeCluster (j : Json) : Except String Cluster := do
  let ann ← match J.optObj j "annotations" with
    | none => pure none
    | some v => do pure (some (← (← v.getArr?).toList.mapM decodeKV))
  pure { name := ← J.getHex j "name",
         metaErrs := ← (← getArrD j "metaErrs").toList.mapM decodeFieldErr,
         annotations := ann,
         servers := ← (← getArrD j "servers").toList.mapM decodeServer,
         clientConfig := ← decodeClientConfig (← J.getObj j "clientConfig"),
         secureServing := ← decodeSecureServing (← J.getObj j "secureServing"),
         schemas := ← (← getArrD j "schemas").toList.mapM decodeSchema,
         loggingMode := ← J.getHex j "loggingMode",
         policies := ← (← getArrD j "policies").toList.mapM decodePolicy,
         lifecycle := ← decodeLifecycle j }

def decodeKnown (j : Json) : Except String Known := do
  pure { name := ← J.getHex j "name", serverNames := ← getHexListD j "serverNames" }

def decodeTables (j : Json) : Except String Tables := do
  let urls ← (← getArrD j "urls").toList.mapM fun e => do
    let ok ← J.getBool e "ok"
    let sc ← J.getHex e "scheme"
    let ho ← J.getHex e "host"
    let u : Option URL := if ok then some ⟨sc, ho⟩ else none
    pure (← J.getHex e "s", u, ← J.getBool e "restOK")
  let pairs ← (← getArrD j "pairs").toList.mapM fun e => do
    pure (← J.getHex e "cert", ← J.getHex e "key", ← J.getBool e "ok")
  let pems ← (← getArrD j "pems").toList.mapM fun e => do
    pure (← J.getHex e "data", ← J.getBool e "ok")
  let gates ← (← getArrD j "gates").toList.mapM fun e => do
    let ok ← J.getBool e "ok"
    let g ← J.getBool e "global"
    let r : Option Bool := if ok then some g else none
    pure (← J.getHex e "v", r)
  pure { urls, pairs, pems, gates, popFirst := ← J.getBool j "popFirst" }

def kindOf {α : Type} : M α → String
  | .ok _ => "ok"
  | .error (.err _) => "err"
  | .error (.panic _) => "panic"

def whatOf {α : Type} : M α → String
  | .ok _ => ""
  | .error (.err w) => w
  | .error (.panic w) => w

def outcome {α : Type} (r : M α) : Json := J.obj [("k", Json.str (kindOf r)), ("what", Json.str (whatOf r))]

def encodeValidate (r : M Errs) : Json :=
  match r with
  | .ok l => J.obj [("k", Json.str "ok"), ("errs", encodeErrs l)]
  | e => J.obj [("k", Json.str (kindOf e)), ("what", Json.str (whatOf e)), ("errs", Json.arr #[])]

def encodeFCType : FCType → String
  | .unknown => "Unknown"
  | .exempt => "Exempt"
  | .maxRequestsInflight => "MaxRequestsInflight"
  | .tokenBucket => "TokenBucket"

def encodeSizes (l : List (Str × FlowControlCache)) : Json :=
  Json.arr (l.map fun kv => match kv.2.fc with
    | some fc => Json.arr #[J.hex kv.1, Json.str (encodeFCType fc.typ), J.nat fc.n, J.nat fc.burst]
    | none => Json.arr #[J.hex kv.1, Json.str "nil", J.nat 0, J.nat 0]).toArray

def encodeGlobalSizes (l : List (Str × GlobalFC)) : Json :=
  Json.arr (l.map fun kv => Json.arr #[J.hex kv.1, Json.str (encodeFCType kv.2.typ), J.int kv.2.n, J.int kv.2.burst]).toArray

def sizesOf (r : M ClusterInfo) : Json :=
  match r with
  | .ok ci => encodeSizes ci.flowcontrol.flowControls
  | _ => Json.arr #[]

def quota : Str → Int × Int := fun _ => (1, 1)
def used : Str → Int := fun _ => 0

/-- two reconcile periods of a gateway in remote mode against a limiter server that handled the object -/
def reconcileTwice (c : Cluster) (ci : ClusterInfo) : M Unit := do
  let u ← upstreamConditionHandler emptyUpstream c
  let _ ← reconcileLoop quota used [1] 2 (ci.flowcontrol.flowControls, u)
  pure ()

def doRun (a : Json) : Except String Json := do
  let t ← decodeTables (← J.getObj a "env")
  let env := mkEnv t t.popFirst
  let envAlt := mkEnv t (!t.popFirst)
  let known ← (← getArrD a "known").toList.mapM decodeKnown
  let submitted ← decodeCluster (← J.getObj a "cluster")
  let opName := ((J.getStr a "op").toOption).getD "create"
  let op : Operation := match opName with
    | "update" => .update
    | "update-no-old" => .update
    | "status" => .statusUpdate
    | _ => .create
  let stored ← match J.optObj a "prev" with
    | none => pure none
    | some pj => do pure (some (← decodeCluster pj))
  -- `a.GetOldObject()`
  let oldObj : Option Cluster := if opName = "update" || opName = "status" then stored else none
  -- the admission chain: Admit; for a status write the registry's PrepareForUpdate; Validate.
  -- Everything below is about the object Validate sees (= what is stored when it is accepted).
  let admitted := admitAdmission op submitted
  let c : Cluster := match op, stored with
    | .statusUpdate, some o => prepareForStatusUpdate o admitted
    | _, _ => admitted
  let k := classes env c
  let createLocal := createClusterInfo env false c
  let createRemote := createClusterInfo env true c
  let limiter := upstreamConditionHandler emptyUpstream c
  let limiterUpd : M Upstream := match createRemote with
    | .ok ci => limiterApply quota used c ci.flowcontrol.flowControls
    | _ => limiterApply quota used c []
  let reconcile : M Unit := match createRemote with
    | .ok ci => reconcileTwice c ci
    | .error e => .error e
  let update ← match J.optObj a "prev" with
    | none => pure Json.null
    | some pj => do
      let p ← decodeCluster pj
      let r : M ClusterInfo := do
        let ci ← createClusterInfo env false p
        ci.sync env c
      pure (J.obj [("k", Json.str (kindOf r)), ("what", Json.str (whatOf r)), ("sizes", sizesOf r)])
  pure <| J.obj [
    ("core", encodeValidate (validateUpstreamCluster env c)),
    ("coreAlt", encodeValidate (validateUpstreamCluster envAlt c)),
    ("admitted", Json.arr (admitted.policies.map fun p => J.hex p.strategy).toArray),
    ("endpoints", match createLocal with
      | .ok ci => J.hexList ci.endpoints
      | _ => Json.arr #[]),
    ("resolved", match createLocal with
      | .ok ci => Json.arr (ci.policies.map fun p => J.obj [
          ("upstreams", J.hexList (resolveUpstreams ci p)),
          ("loaded", J.hexList (loadedUpstreams ci p)),
          ("limiter", match resolveFlowControl ci p with
            | some fc => Json.arr #[Json.str (encodeFCType fc.typ), J.nat fc.n, J.nat fc.burst]
            | none => Json.arr #[Json.str "nil", J.nat 0, J.nat 0])]).toArray
      | _ => Json.arr #[]),
    ("validate", encodeValidate (validateAdmission env known op oldObj c)),
    ("validateAlt", encodeValidate (validateAdmission envAlt known op oldObj c)),
    ("valid", J.bool (valid env known c)),
    ("usable", J.bool (usable env c)),
    ("classes", J.obj [("endpoints", J.bool k.endpoints), ("oneScheme", J.bool k.oneScheme),
      ("clientTLS", J.bool k.clientTLS), ("serving", J.bool k.serving), ("flowControl", J.bool k.flowControl),
      ("names", J.bool k.names), ("policyRefs", J.bool k.policyRefs),
      ("meta", J.bool (c.metaErrs = [])), ("clientLimits", J.bool (clientLimitsOK c.clientConfig)),
      ("form", J.bool (formOK c)), ("featureGate", J.bool (featureGateOK env c)),
      ("noConflict", J.bool (noConflict env known c))]),
    ("createLocal", outcome createLocal),
    ("createRemote", outcome createRemote),
    ("sizes", sizesOf createLocal),
    ("update", update),
    ("controller", outcome (syncUpstreamCluster env false [] c)),
    ("controllerOthers", outcome (
      -- the gateway already serves the other clusters of the lister (not the object's own name) and, for an
      -- update, the old object
      let others := (known.filter (fun k => env.lower k.name ≠ env.lower c.name)).map Known.toCluster
      let m0 := applyOthers env false [] others
      let m1 := match opName != "create", stored with
        | true, some o => (match syncUpstreamCluster env false m0 o with
          | .ok m' => m'
          | .error _ => m0)
        | _, _ => m0
      syncUpstreamCluster env false m1 c)),
    ("limiter", outcome limiter),
    ("limiterUpdate", outcome limiterUpd),
    ("globalSizes", match limiter with
      | .ok u => encodeGlobalSizes u.flowControls
      | _ => Json.arr #[]),
    ("reconcile", outcome reconcile)]

/-- `handle method args`: `none` when the method is unknown. -/
def handle (m : String) (a : Json) : Option (Except String Json) :=
  match m with
  | "run" => some (doRun a)
  | _ => none

end KG.Driver.C16
