import KG.Base.Json
import KG.Spec.TokenBucket
/-! Driver entry points for property C06 (local token bucket).

Instants travel as decimal strings (nanoseconds since Go's zero time; they exceed 2^63). -/
namespace KG.Driver.C06
open Lean KG KG.Model.TokenBucket KG.Spec.TokenBucket

def getBig (j : Json) (k : String) : Except String Int := do
  let s ← J.getStr j k
  match s.toInt? with
  | some i => pure i
  | none => throw s!"bad integer in {k}: {s}"

/-- an op of a script: `{"t":"<ns>"}` or `{"rq":qps,"rb":burst}` -/
def decodeOp (j : Json) : Except String (Sum Int (Nat × Nat)) :=
  match j.getObjVal? "t" with
  | .ok _ => do pure (.inl (← getBig j "t"))
  | .error _ => do pure (.inr (← J.getNat j "rq", ← J.getNat j "rb"))

def bools (l : List Bool) : Json := Json.arr (l.map J.bool).toArray

/-- `C06.script {qps, burst, ops}`: the answers of the Float twin (must equal the real code's), of the exact
    rational model with nanosecond truncation, and of the ideal bucket. -/
def doScript (a : Json) : Except String Json := do
  let qps ← J.getNat a "qps"
  let burst ← J.getNat a "burst"
  let ops ← (← J.getArr a "ops").toList.mapM decodeOp
  let fops := ops.map fun | .inl t => F.FOp.acquire t | .inr (q, b) => F.FOp.resize q b
  let rops := ops.map fun | .inl t => Op.acquire (t : Rat) | .inr (q, b) => Op.resize q b
  let twin := (F.FBucket.runOps (F.FBucket.new qps burst) fops).1
  let ns := (Bucket.runOps Arith.ns (Bucket.new qps burst) rops).1
  let ideal := (Bucket.runOps Arith.ideal (Bucket.new qps burst) rops).1
  pure <| J.obj [("twin", bools twin), ("ns", bools ns), ("ideal", bools ideal),
    ("f32exact", J.bool (f32 qps == qps))]

def decodeObs (j : Json) : Except String Obs :=
  match j.getObjVal? "t" with
  | .ok _ => do pure (.acquire ((← getBig j "t") : Rat) (← J.getBool j "ok"))
  | .error _ => do pure (.resize (← J.getNat j "rq") (← J.getNat j "rb") (← J.getBool j "resized"))

/-- `C06.judge {qps, burst, slack, obs}`: the property's judges on an observed history. -/
def doJudge (a : Json) : Except String Json := do
  let qps ← J.getNat a "qps"
  let burst ← J.getNat a "burst"
  let obs ← (← J.getArr a "obs").toList.mapM decodeObs
  let slack ← J.getNat a "slack"
  let v := judgeGo slack qps burst [] {} obs
  pure <| J.obj [("upper", J.bool v.upper), ("lower", J.bool v.lower), ("resize", J.bool v.resize)]

/-- `C06.seg {qps, burst, slack, prev, events}`: the two judges the theorems `c06_upper_judge` / `c06_lower_judge` are
    about, on one stretch of calls under constant `(qps, burst)`: `upperOK` on all its windows, `lowerOK` counted from
    `prev` (0 = the creation of the bucket). -/
def doSeg (a : Json) : Except String Json := do
  let p := paramsOf (← J.getNat a "qps") (← J.getNat a "burst")
  let slack ← J.getNat a "slack"
  let prev ← getBig a "prev"
  let ev ← (← J.getArr a "events").toList.mapM fun j => do
    pure (((← getBig j "t") : Rat), ← J.getBool j "ok")
  pure <| J.obj [("upper", J.bool (upperOK p ev)), ("lower", J.bool (lowerOK p slack (prev : Rat) ev))]

/-- `C06.window {qps, burst, t0, t1, count}`: is `count ≤ ⌈burst + qps·(t1−t0)⌉ (+⌊qps/1e9⌋)`; also the bound. -/
def doWindow (a : Json) : Except String Json := do
  let p := paramsOf (← J.getNat a "qps") (← J.getNat a "burst")
  let t0 ← getBig a "t0"
  let t1 ← getBig a "t1"
  let count ← J.getNat a "count"
  let b := boundInt p ((t1 : Rat) - (t0 : Rat))
  pure <| J.obj [("ok", J.bool (decide ((count : Int) ≤ b))), ("bound", J.int b)]

/-- `C06.owed {qps, burst, d}`: `min(burst, ⌊qps·d⌋)` for `d` nanoseconds of idleness. -/
def doOwed (a : Json) : Except String Json := do
  let p := paramsOf (← J.getNat a "qps") (← J.getNat a "burst")
  let d ← getBig a "d"
  pure <| J.obj [("owed", J.nat (owed p (d : Rat)))]

/-! ### Sync histories -/

def optNat (j : Json) (k : String) : Except String (Option Nat) :=
  match J.optObj j k with
  | none => pure none
  | some v => do pure (some (← v.getNat?))

def optPair (j : Json) (k : String) : Except String (Option (Nat × Nat)) :=
  match J.optObj j k with
  | none => pure none
  | some v => do
    let a ← v.getArr?
    if h : a.size = 2 then pure (some (← a[0].getNat?, ← a[1].getNat?)) else throw s!"{k}: expected [qps, burst]"

def decodeSchema (j : Json) : Except String (Nat × Schema) := do
  let n ← J.getNat j "name"
  let ex := (J.getBool j "exempt").toOption.getD false
  pure (n, { exempt := ex, mi := ← optNat j "mi", gmi := ← optNat j "gmi", tb := ← optPair j "tb",
             gtb := ← optPair j "gtb", strategy := (J.getNat j "strategy").toOption.getD 0 })

def encodeSeen : Seen → Json
  | .none => J.obj [("kind", Json.str "none")]
  | .exempt => J.obj [("kind", Json.str "exempt")]
  | .mi m => J.obj [("kind", Json.str "mi"), ("a", J.nat m)]
  | .tb q b => J.obj [("kind", Json.str "tb"), ("a", J.nat q), ("b", J.nat b)]

def decodeSeen (j : Json) : Except String Seen := do
  match ← J.getStr j "kind" with
  | "none" => pure .none
  | "exempt" => pure .exempt
  | "mi" => pure (.mi (← J.getNat j "a"))
  | "tb" => pure (.tb (← J.getNat j "a") (← J.getNat j "b"))
  | k => throw s!"unknown limiter kind {k}"

/-- one op of a history: `{"sync":[schema…]}`, `{"acq":name,"t":"<ns>"}` or `{"reset":"remote"|"local"}` -/
def histStep (u : UL F.FBucket) (j : Json) : Except String (UL F.FBucket × Json) :=
  match j.getObjVal? "sync" with
  | .ok v => do
    let spec ← (← v.getArr?).toList.mapM decodeSchema
    match u.sync floatOps spec with
    | none => pure (u, J.obj [("panic", J.bool true)])
    | some u' =>
      pure (u', J.obj [("seen", Json.arr (spec.map fun x => encodeSeen (see floatOps (u'.load x.1))).toArray),
                       ("legal", J.bool (specLegal spec))])
  | .error _ =>
    match j.getObjVal? "reset" with
    | .ok _ => pure (u, J.obj [("reset", J.bool true)])   -- ResetLimiter: the local limiter stays in force (no client sets)
    | .error _ => do
    let n ← J.getNat j "acq"
    let t ← getBig j "t"
    match u.acquireWith (fun b => b.step (.acquire t)) n with
    | none => pure (u, J.obj [("ok", Json.null)])
    | some r => pure (r.2, J.obj [("ok", J.bool r.1)])

def histLoop : UL F.FBucket → List Json → List Json → Except String (List Json)
  | _, [], acc => pure acc.reverse
  | u, j :: rest, acc => do
    let r ← histStep u j
    histLoop r.1 rest (r.2 :: acc)

/-- `C06.hist {ops}`: the model of `UpstreamLimiter.Sync` (which limiter serves each name, with which parameters)
    with Float-twin buckets: per sync what is in force for every schema of the spec, per acquire the answer. -/
def doHist (a : Json) : Except String Json := do
  let ops ← J.getArr a "ops"
  pure (Json.arr (← histLoop UL.init ops.toList []).toArray)

/-- `C06.inforce {schema, seen}`: the clause `inForceOK` on what the real code shows. -/
def doInForce (a : Json) : Except String Json := do
  let s ← decodeSchema (← J.getObj a "schema")
  let o ← decodeSeen (← J.getObj a "seen")
  pure <| J.obj [("ok", J.bool (inForceOK s.2 o)), ("legal", J.bool (schemaLegal s.2))]

def handle (m : String) (a : Json) : Option (Except String Json) :=
  match m with
  | "script" => some (doScript a)
  | "judge" => some (doJudge a)
  | "window" => some (doWindow a)
  | "owed" => some (doOwed a)
  | "seg" => some (doSeg a)
  | "hist" => some (doHist a)
  | "inforce" => some (doInForce a)
  | _ => none

end KG.Driver.C06
