import KG.Base.Json
import KG.Spec.TokenBucket
/-! Driver entry points for property C06 (local token bucket).

Instants travel as decimal strings (nanoseconds since Go's zero time; they exceed 2^63). -/
namespace KG.Driver.C06
open Lean KG KG.Model.TokenBucket KG.Spec.TokenBucket

def getBig (j : Json) (k : String) : Except String Int := do
  let s ← J.getStr j k
  match s.toInt? with
  | some i => pure i
  | none => throw s!"bad integer in {k}: {s}"

/-- an op of a script: `{"t":"<ns>"}` or `{"rq":qps,"rb":burst}` -/
def decodeOp (j : Json) : Except String (Sum Int (Nat × Nat)) :=
  match j.getObjVal? "t" with
  | .ok _ => do pure (.inl (← getBig j "t"))
  | .error _ => do pure (.inr (← J.getNat j "rq", ← J.getNat j "rb"))

def bools (l : List Bool) : Json := Json.arr (l.map J.bool).toArray

/-- `C06.script {qps, burst, ops}`: the answers of the Float twin (must equal the real code's), of the exact
    rational model with nanosecond truncation, and of the ideal bucket. -/
def doScript (a : Json) : Except String Json := do
  let qps ← J.getNat a "qps"
  let burst ← J.getNat a "burst"
  let ops ← (← J.getArr a "ops").toList.mapM decodeOp
  let fops := ops.map fun | .inl t => F.FOp.acquire t | .inr (q, b) => F.FOp.resize q b
  let rops := ops.map fun | .inl t => Op.acquire (t : Rat) | .inr (q, b) => Op.resize q b
  let twin := (F.FBucket.runOps (F.FBucket.new qps burst) fops).1
  let ns := (Bucket.runOps Arith.ns (Bucket.new qps burst) rops).1
  let ideal := (Bucket.runOps Arith.ideal (Bucket.new qps burst) rops).1
  pure <| J.obj [("twin", bools twin), ("ns", bools ns), ("ideal", bools ideal),
    ("f32exact", J.bool (f32 qps == qps))]

def decodeObs (j : Json) : Except String Obs :=
  match j.getObjVal? "t" with
  | .ok _ => do pure (.acquire ((← getBig j "t") : Rat) (← J.getBool j "ok"))
  | .error _ => do pure (.resize (← J.getNat j "rq") (← J.getNat j "rb") (← J.getBool j "resized"))

/-- `C06.judge {qps, burst, slack, obs}`: the property's judges on an observed history. -/
def doJudge (a : Json) : Except String Json := do
  let qps ← J.getNat a "qps"
  let burst ← J.getNat a "burst"
  let obs ← (← J.getArr a "obs").toList.mapM decodeObs
  let slack ← J.getNat a "slack"
  let v := judgeGo slack qps burst [] {} obs
  pure <| J.obj [("upper", J.bool v.upper), ("lower", J.bool v.lower), ("resize", J.bool v.resize)]

/-- `C06.window {qps, burst, t0, t1, count}`: is `count ≤ ⌈burst + qps·(t1−t0)⌉ (+⌊qps/1e9⌋)`; also the bound. -/
def doWindow (a : Json) : Except String Json := do
  let p := paramsOf (← J.getNat a "qps") (← J.getNat a "burst")
  let t0 ← getBig a "t0"
  let t1 ← getBig a "t1"
  let count ← J.getNat a "count"
  let b := boundInt p ((t1 : Rat) - (t0 : Rat))
  pure <| J.obj [("ok", J.bool (decide ((count : Int) ≤ b))), ("bound", J.int b)]

/-- `C06.owed {qps, burst, d}`: `min(burst, ⌊qps·d⌋)` for `d` nanoseconds of idleness. -/
def doOwed (a : Json) : Except String Json := do
  let p := paramsOf (← J.getNat a "qps") (← J.getNat a "burst")
  let d ← getBig a "d"
  pure <| J.obj [("owed", J.nat (owed p (d : Rat)))]

def handle (m : String) (a : Json) : Option (Except String Json) :=
  match m with
  | "script" => some (doScript a)
  | "judge" => some (doJudge a)
  | "window" => some (doWindow a)
  | "owed" => some (doOwed a)
  | _ => none

end KG.Driver.C06
