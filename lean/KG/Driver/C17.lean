import KG.Base.Json
import KG.Driver.C01
/-! Driver entry points for C17 (admission normalisation). -/
namespace KG.Driver.C17
open Lean KG KG.Model.Match KG.Spec.Match

/-- `C17.norm {rule, attrs:[…]}`: the normalised rule, the rule normalised twice, and for every request
    the model's verdict before and after normalisation. -/
def doNorm (a : Json) : Except String Json := do
  let r ← KG.Driver.C01.decodeRule (← J.getObj a "rule")
  let attrs ← (← J.getArr a "attrs").toList.mapM KG.Driver.C01.decodeAttrs
  let n := normalizeRule r
  pure <| J.obj [
    ("norm", KG.Driver.C01.encodeRule n),
    ("norm2", KG.Driver.C01.encodeRule (normalizeRule n)),
    ("before", Json.arr (attrs.map fun x => J.bool (ruleMatches x r)).toArray),
    ("after", Json.arr (attrs.map fun x => J.bool (ruleMatches x n)).toArray)]

def handle (m : String) (a : Json) : Option (Except String Json) :=
  match m with
  | "norm" => some (doNorm a)
  | _ => none

end KG.Driver.C17
