import KG.Base.Json
import KG.Model.RemoteLimiter
import KG.Spec.RemoteLimiter
/-! Driver entry points for property C09: `C09.case {cfg, ops, obs?}` runs the model over the operation list and,
    when the implementation's observations are given, evaluates the judge on them. -/
namespace KG.Driver.C09
open Lean KG KG.Model.RemoteLimiter KG.Spec.RemoteLimiter

def decStrategy (s : String) : Strategy :=
  if s = "" then .empty else if s = "local" then .loc else if s = "globalAllocate" then .alloc
  else if s = "globalCount" then .count else .other

def optInt (j : Json) (k : String) : Except String (Option Int) :=
  match J.optObj j k with
  | none => pure none
  | some v => do pure (some (← v.getInt?))

def optTB (j : Json) (k : String) : Except String (Option TB) :=
  match J.optObj j k with
  | none => pure none
  | some v => do
    let a ← v.getArr?
    match a.toList with
    | [q, b] => pure (some { qps := ← q.getInt?, burst := ← b.getInt? })
    | _ => throw s!"{k}: want [qps, burst]"

def decSchema (j : Json) : Except String Schema := do
  pure { strategy := decStrategy (← J.getStr j "strategy"), exempt := ← J.getBool j "exempt",
         mi := ← optInt j "mi", tb := ← optTB j "tb", gmi := ← optInt j "gmi", gtb := ← optTB j "gtb" }

def decItem (j : Json) : Except String Item := do
  pure { strategy := decStrategy (← J.getStr j "strategy"), mi := ← optInt j "mi", tb := ← optTB j "tb" }

def decErr (s : String) : ErrKind := if s = "" then .none else if s = "RequestIDTooOld" then .tooOld else .other

def decOp (j : Json) : Except String Op := do
  match ← J.getStr j "op" with
  | "schema" => pure (.schema (← decSchema (← J.getObj j "schema")))
  | "shards" => pure (.shards (← J.getNat j "n"))
  | "sync" =>
    let l ← J.getNat j "leader"
    -- leader: 0 = no endpoint published for the cluster's shard, k > 0 = leader number k
    pure (.sync (← J.getBool j "fail") (← J.getNat j "n") (if l = 0 then none else some l) (← J.getInt j "now"))
  | "event" => pure .event
  | "restart" => pure .restart
  | "acquire" => pure (.acquire (← J.getNat j "id"))
  | "release" => pure (.release (← J.getNat j "id"))
  | "tick" =>
    let ans ← match J.optObj j "ans" with
      | none => pure none
      | some a => do
        pure (some ({ accept := ← J.getBool a "accept", limit := ← J.getInt a "limit", err := decErr (← J.getStr a "err") } : TickAnswer))
    pure (.tick (← J.getInt j "now") ans)
  | "hb" => pure (.hb (← J.getBool j "ok") (← J.getInt j "now") (← J.getBool j "other"))
  | "reconcile" => pure .reconcileCount
  | "answer" => pure (.answer (← J.getBool j "named") (← decItem (← J.getObj j "item")))
  | "meter" => pure (.meter { maxInflight := ← J.getInt j "max", rateNum := ← J.getInt j "rateNum", rateDen := ← J.getInt j "rateDen" })
  | "setlimit" =>
    pure (.setLimit { hasReq := ← J.getBool j "hasReq", tokens := ← J.getInt j "tokens", accept := ← J.getBool j "accept",
                      limit := ← J.getInt j "limit", err := decErr (← J.getStr j "err"), rt := ← J.getInt j "rt" })
  | o => throw s!"unknown op {o}"

def decCfg (j : Json) : Except String Cfg := do
  let rl := match ← J.getStr j "rateLimiter" with
    | "remote" => RL.remote
    | "local" => RL.loc
    | "" => RL.loc
    | _ => RL.other
  pure { rateLimiter := rl, hasCS := ← J.getBool j "hasCS" }

def encLim : Lim → Json
  | .exempt m => J.obj [("kind", Json.str "Exempt"), ("size", J.int m)]
  | .mi s => J.obj [("kind", Json.str "MaxRequestsInflight"), ("size", J.int s)]
  | .tb q b => J.obj [("kind", Json.str "TokenBucket"), ("qps", J.int q), ("burst", J.int b)]

def decLim (j : Json) : Except String Lim := do
  match ← J.getStr j "kind" with
  | "Exempt" => pure (.exempt (← J.getInt j "size"))
  | "MaxRequestsInflight" => pure (.mi (← J.getInt j "size"))
  | "TokenBucket" => pure (.tb (← J.getInt j "qps") (← J.getInt j "burst"))
  | k => throw s!"unknown limiter kind {k}"

def encOpt {α} (f : α → Json) : Option α → Json
  | none => Json.null
  | some a => f a

def encStrategy : Strategy → Json
  | .empty => Json.str "" | .loc => Json.str "local" | .alloc => Json.str "globalAllocate"
  | .count => Json.str "globalCount" | .other => Json.str "other"

def encTB (t : TB) : Json := Json.arr #[J.int t.qps, J.int t.burst]

def encItem (i : Item) : Json :=
  J.obj [("strategy", encStrategy i.strategy), ("mi", encOpt J.int i.mi), ("tb", encOpt encTB i.tb)]

def encChoice : Choice → Json
  | .dflt => Json.str "default" | .loc => Json.str "local" | .remote => Json.str "remote"

def decChoice (s : String) : Except String Choice :=
  match s with
  | "default" => pure .dflt | "local" => pure .loc | "remote" => pure .remote
  | _ => throw s!"unknown choice {s}"

def encObs (o : Obs) : Json :=
  J.obj [("choice", encChoice o.choice), ("lim", encOpt encLim o.lim), ("rlim", encOpt encLim o.rlim),
         ("wkind", J.nat o.wkind), ("unavail", J.bool o.unavail), ("wmax", J.int o.wmax), ("wreserve", J.int o.wreserve),
         ("lastAcq", J.int o.lastAcq), ("acquired", J.int o.acquired), ("overLimited", J.int o.overLimited),
         ("tokens", J.int o.tokens), ("tokenBatch", J.int o.tokenBatch), ("tokenInflight", J.int o.tokenInflight),
         ("wqps", J.int o.wqps), ("wburst", J.int o.wburst), ("ready", J.bool o.ready), ("ret", J.bool o.ret),
         ("remoteConfig", encOpt encItem o.remoteConfig), ("leader", J.nat o.leader),
         ("event", J.bool o.event), ("lastSync", J.int o.lastSync), ("req", encOpt J.int o.req),
         ("admitted", encOpt J.bool o.admitted)]

def optLim (j : Json) (k : String) : Except String (Option Lim) :=
  match J.optObj j k with
  | none => pure none
  | some v => do pure (some (← decLim v))

def decObs (j : Json) : Except String Obs := do
  let rc ← match J.optObj j "remoteConfig" with
    | none => pure none
    | some v => do pure (some (← decItem v))
  pure { choice := ← decChoice (← J.getStr j "choice"), lim := ← optLim j "lim", rlim := ← optLim j "rlim",
         wkind := ← J.getNat j "wkind", unavail := ← J.getBool j "unavail", wmax := ← J.getInt j "wmax",
         wreserve := ← J.getInt j "wreserve", lastAcq := ← J.getInt j "lastAcq", acquired := ← J.getInt j "acquired",
         overLimited := ← J.getInt j "overLimited", tokens := ← J.getInt j "tokens", tokenBatch := ← J.getInt j "tokenBatch",
         tokenInflight := ← J.getInt j "tokenInflight", wqps := ← J.getInt j "wqps", wburst := ← J.getInt j "wburst",
         ready := ← J.getBool j "ready", ret := ← J.getBool j "ret", remoteConfig := rc,
         leader := ← J.getNat j "leader", event := ← J.getBool j "event", lastSync := ← J.getInt j "lastSync",
         req := ← optInt j "req",
         admitted := ← (match J.optObj j "admitted" with | none => pure none | some v => do pure (some (← v.getBool?))) }

def encVerdict (v : List (List String)) : Json :=
  Json.arr (v.map fun l => Json.arr (l.map Json.str).toArray).toArray

/-- `C09.case {cfg, ops, obs?}` → `{model:[obs…], panic: null|msg, verdictModel:[[…]…], verdictImpl?:[[…]…]}` -/
def doCase (a : Json) : Except String Json := do
  let cfg ← decCfg (← J.getObj a "cfg")
  let ops ← (← J.getArr a "ops").toList.mapM decOp
  let r := run cfg ops
  let base := [("model", Json.arr (r.1.map encObs).toArray),
               ("panic", encOpt Json.str r.2),
               ("counts", Json.arr ((countsFrom (initState cfg) ops).map fun c => Json.arr #[J.int c.1, J.int c.2]).toArray),
               ("verdictModel", encVerdict (judgeAll cfg ops r.1))]
  match J.optObj a "obs" with
  | none => pure (J.obj base)
  | some o => do
    let obs ← (← o.getArr?).toList.mapM decObs
    pure (J.obj (base ++ [("verdictImpl", encVerdict (judgeAll cfg ops obs))]))

def handle (m : String) (a : Json) : Option (Except String Json) :=
  match m with
  | "case" => some (doCase a)
  | _ => none

end KG.Driver.C09
