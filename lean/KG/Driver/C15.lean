import KG.Base.Json
import KG.Spec.Lifecycle
/-!
Driver entry points for C15 (removal / cancellation scopes).

* `C15.run {ops, keys, rids}` — replays a history on the model and returns the final state: clusters, endpoints,
  name resolution for `keys`, request phases for `rids`, the oracle problems met on the way, and the verdict of
  the Lean judge on the model's own observation.
* `C15.judge {clusters, eps, reqs}` — the same judge on an observation made on the real code.

ops: `{"op":"apply","name":hex,"aliases":[hex],"servers":[{"url":hex,"disabled":b}]}`, `{"op":"delete","name":hex}`,
`{"op":"start","r":n,"host":hex}`, `{"op":"pick","r":n,"eid":i}` (i ≥ 0: the endpoint the code picked, -1: the code
answered "no ready endpoints", -2: unknown), `{"op":"finish","r":n}`, `{"op":"health","url":hex,"ok":b}`.
-/
namespace KG.Driver.C15
open Lean KG KG.Model.Lifecycle KG.Spec.Lifecycle

def decodeServer (j : Json) : Except String (Str × Bool) := do
  pure (← J.getHex j "url", ← J.getBool j "disabled")

/-- one history step; returns the new state and an optional oracle problem -/
def stepJson (st : State) (j : Json) : Except String (State × List String) := do
  let op ← J.getStr j "op"
  match op with
  | "apply" =>
    let servers ← (← J.getArr j "servers").toList.mapM decodeServer
    let sp : Spec := { name := ← J.getHex j "name", aliases := ← J.getHexList j "aliases", servers := servers }
    pure (step st (.apply sp), [])
  | "delete" => pure (step st (.delete (← J.getHex j "name")), [])
  | "start" => pure (step st (.reqStart (← J.getNat j "r") (← J.getHex j "host")), [])
  | "finish" => pure (step st (.reqFinish (← J.getNat j "r")), [])
  | "health" => pure (step st (.health (← J.getHex j "url") (← J.getBool j "ok")), [])
  | "pick" =>
    let r ← J.getNat j "r"
    let eid ← J.getInt j "eid"
    match st.reqs r with
    | some (Phase.resolved o) =>
      let cands := pickable st o
      if eid == -2 then pure (step st (.reqPick r 0), [])
      else if eid == -1 then
        if cands.isEmpty then pure (step st (.reqPick r 0), [])
        else pure (step st (.reqPick r 0), [s!"pick r={r}: the code found no ready endpoint, the model has {cands.length}"])
      else
        match cands.findIdx? (fun e => e.id == eid.toNat) with
        | some i => pure (step st (.reqPick r i), [])
        | none => pure (st, [s!"not-pickable r={r} eid={eid}"])
    | _ => pure (st, [s!"pick r={r}: request is not waiting for an endpoint in the model"])
  | _ => throw s!"unknown op {op}"

def phaseJson (st : State) (r : Nat) : Json :=
  let mk (p : String) (o eid : Int) (d : Bool) :=
    J.obj [("r", J.nat r), ("phase", Json.str p), ("o", J.int o), ("eid", J.int eid), ("done", J.bool d)]
  match st.reqs r with
  | none => mk "none" (-1) (-1) false
  | some Phase.rejected => mk "rejected" (-1) (-1) false
  | some (Phase.resolved o) => mk "resolved" o (-1) false
  | some (Phase.noEndpoint o) => mk "noEndpoint" o (-1) false
  | some (Phase.proxying e o) => mk "proxying" o e (reqDone st r e o)
  | some (Phase.finished e o) => mk "finished" o e (reqDone st r e o)

def clusterJson (st : State) (o : Nat) : List Json :=
  match st.heap o with
  | none => []
  | some c => [J.obj [("o", J.nat o), ("name", J.hex c.name), ("aliases", J.hexList c.aliases),
                      ("done", J.bool (done st.cancels (clChain o))),
                      ("resolvable", J.bool (st.names c.name == some o)),
                      ("pickable", Json.arr ((pickable st o).map fun e => J.nat e.id).toArray)]]

def epJson (st : State) (e : Ep) : Json :=
  J.obj [("id", J.nat e.id), ("owner", J.nat e.owner), ("url", J.hex e.url), ("inMap", J.bool e.inMap),
         ("disabled", J.bool e.disabled), ("healthy", J.bool e.healthy), ("hcOn", J.bool e.hcOn), ("hcGen", J.nat e.hcGen),
         ("done", J.bool (done st.cancels e.chain)), ("hcLive", J.bool (hcLive st.cancels e)),
         ("ready", J.bool (!e.disabled && e.healthy))]

def optNat : Option Nat → Json
  | some n => J.nat n
  | none => J.int (-1)

def doRun (a : Json) : Except String Json := do
  let ops ← J.getArr a "ops"
  let keys ← J.getHexList a "keys"
  let rids ← (← J.getArr a "rids").toList.mapM (·.getNat?)
  let mut st := init
  let mut errs : List String := []
  for j in ops do
    let (s, e) ← stepJson st j
    st := s
    errs := errs ++ e
  pure <| J.obj [
    ("next", J.nat st.next),
    ("clusters", Json.arr ((List.range st.next).flatMap (clusterJson st)).toArray),
    ("eps", Json.arr (st.eps.map (epJson st)).toArray),
    ("names", Json.arr (keys.map fun k => J.obj [("k", J.hex k), ("o", optNat (get st k))]).toArray),
    ("reqs", Json.arr (rids.map (phaseJson st)).toArray),
    ("errors", Json.arr (errs.map Json.str).toArray),
    ("judge", J.bool (judge (observe st rids)))]

def decodeObs (a : Json) : Except String Obs := do
  let cs ← (← J.getArr a "clusters").toList.mapM fun j => do
    pure ({ o := ← J.getNat j "o", resolvable := ← J.getBool j "resolvable", done := ← J.getBool j "done" } : ObsCluster)
  let es ← (← J.getArr a "eps").toList.mapM fun j => do
    pure ({ id := ← J.getNat j "id", owner := ← J.getNat j "owner", inMap := ← J.getBool j "inMap",
            done := ← J.getBool j "done", hcLive := ← J.getBool j "hcLive" } : ObsEp)
  let rs ← (← J.getArr a "reqs").toList.mapM fun j => do
    pure ({ r := ← J.getNat j "r", eid := ← J.getNat j "eid", live := ← J.getBool j "live" } : ObsReq)
  pure { clusters := cs, eps := es, reqs := rs }

/-- the judge on an observation of the implementation, with the first offending items for the report -/
def doJudge (a : Json) : Except String Json := do
  let ob ← decodeObs a
  let badC := (ob.clusters.filter (fun c => !clusterOk c)).map (fun c => J.nat c.o)
  let badE := (ob.eps.filter (fun e => !epOk ob.clusters e)).map (fun e => J.nat e.id)
  let badR := (ob.reqs.filter (fun q => !reqOk ob.eps q)).map (fun q => J.nat q.r)
  pure <| J.obj [("ok", J.bool (judge ob)), ("clusters", Json.arr badC.toArray), ("eps", Json.arr badE.toArray),
                 ("reqs", Json.arr badR.toArray)]

def handle (m : String) (a : Json) : Option (Except String Json) :=
  match m with
  | "run" => some (doRun a)
  | "judge" => some (doJudge a)
  | _ => none

end KG.Driver.C15
