import KG.Base.Json
import KG.Gen.C05
import KG.Spec.LocalLimiter
/-! Driver entry points for property C05.

* `C05.hist {ops, outs}`: run a reconfiguration/request history through the sequential model
  (`KG.Model.LocalLimiter`), return the model's answers, the limiter description seen by each arriving
  request, the exact judge (`judgeExact`) on the model's answers and the property's judge (`judge`) on the answers `outs`
  observed on the real code.
* `C05.sched {max, events}`: run a schedule through the small-step model of the lock-free counter
  (`KG.Model.MaxInflight`), return the shared state and the stepping thread's state after every event.
* `C05.serve {choices, granted}`: run the abstracted `dispatcher.ServeHTTP` (regenerated program) on a scenario.
-/
namespace KG.Driver.C05
open Lean KG KG.Model.LocalLimiter KG.Spec.LocalLimiter

def optInt (j : Json) (k : String) : Except String (Option Int) :=
  match J.optObj j k with
  | none => pure none
  | some v => do pure (some (← v.getInt?))

def optPair (j : Json) (k : String) : Except String (Option (Int × Int)) :=
  match J.optObj j k with
  | none => pure none
  | some v => do
    let a ← v.getArr?
    match a.toList with
    | [x, y] => pure (some (← x.getInt?, ← y.getInt?))
    | _ => throw s!"{k}: expected [qps, burst]"

def decodeSchema (j : Json) : Except String Schema := do
  pure { name := ← J.getHex j "name", strategy := ← J.getHex j "strategy", exempt := ← J.getBool j "exempt",
         mi := ← optInt j "mi", tb := ← optPair j "tb", gmi := ← optInt j "gmi", gtb := ← optPair j "gtb" }

def decodeOp (j : Json) : Except String Op := do
  match ← J.getStr j "op" with
  | "sync" => do
    let ss ← (← J.getArr j "schemas").toList.mapM decodeSchema
    pure (.sync (← J.getHex j "c") ss)
  | "acq" => pure (.acquire (← J.getHex j "c") (← J.getHex j "n") ((J.getBool j "tb").toOption.getD true))
  | "rel" => pure (.release (← J.getNat j "i"))
  | "reset" => pure (.reset (← J.getHex j "c") (← J.getHex j "mode"))
  | o => throw s!"unknown op {o}"

def decodeOut (j : Json) : Except String Out := do
  match ← J.getStr j "k" with
  | "synced" => pure .synced
  | "acq" => pure (.acquired (← J.getBool j "ok"))
  | "rel" => pure (.released (← J.getBool j "did"))
  | "panic" => pure (.panic "")
  | o => throw s!"unknown out {o}"

def descKind : Option Kind → String
  | none => "default"
  | some (.counter c) => s!"mi:{c.max}"
  | some .infinity => "exempt"
  | some (.bucket q b) => s!"tb:{q}:{b}"

/-- description of the limiter `GetOrDefault(c, n)` hands out (its `String()` in the code) -/
def descOf (w : World) (c n : Str) : String :=
  match getOrDefault w c n with
  | none => "default"
  | some none => "nil"
  | some (some id) => descKind (w.heap id)

def encodeOut (o : Out) (desc : String) : Json :=
  match o with
  | .synced => J.obj [("k", "synced")]
  | .acquired b => J.obj [("k", "acq"), ("ok", J.bool b), ("desc", desc)]
  | .released d => J.obj [("k", "rel"), ("did", J.bool d)]
  | .panic m => J.obj [("k", "panic"), ("msg", m)]

def runDesc : World → List Op → List Json
  | _, [] => []
  | w, op :: ops =>
    let r := step w op
    let d := match op with
      | .acquire c n _ => descOf w c n
      | _ => ""
    if r.2.isPanic then [encodeOut r.2 d] else encodeOut r.2 d :: runDesc r.1 ops

def optIdx : Option Nat → Json
  | some i => J.nat i
  | none => J.int (-1)

def doHist (a : Json) : Except String Json := do
  let ops ← (← J.getArr a "ops").toList.mapM decodeOp
  let outs ← match J.optObj a "outs" with
    | none => pure []
    | some v => do (← v.getArr?).toList.mapM decodeOut
  let mouts := run World.init ops
  pure <| J.obj [
    ("model", Json.arr (runDesc World.init ops).toArray),
    ("judge_model", optIdx (judgeExact ops mouts)),
    ("judge_impl", optIdx (judge ops outs))]

open KG.Model.MaxInflight in
def pcName : PC → String
  | .idle => "TryAcquire.0"
  | .acq1 _ => "TryAcquire.1"
  | .cas _ _ => "TryAcquire.2"
  | .adding _ => "TryAcquire.3"
  | .rollback => "TryAcquire.4"
  | .holding => "Release.0"
  | .rel1 => "Release.1"
  | .rel2 => "Release.2"

open KG.Model.MaxInflight in
def outName : KG.Model.MaxInflight.Out → String
  | .none => "none"
  | .admitted => "admitted"
  | .rejected => "rejected"
  | .released => "released"

open KG.Model.MaxInflight in
def decodeEv (j : Json) : Except String Ev :=
  match J.optObj j "resize" with
  | some v => do pure (.resize (← v.getNat?))
  | none => do pure (.step (← J.getNat j "t"))

open KG.Model.MaxInflight in
def runSched : Sys → List Ev → List Json
  | _, [] => []
  | s, e :: es =>
    let r := KG.Model.MaxInflight.step s e
    let at_ := match e with
      | .step t => pcName (r.1.pc t)
      | .resize _ => ""
    J.obj [("count", J.int r.1.count), ("max", J.nat r.1.max), ("out", outName r.2), ("at", at_),
           ("holders", J.nat r.1.holders.length), ("pending", J.nat r.1.pending.length)] :: runSched r.1 es

open KG.Model.MaxInflight in
def doSched (a : Json) : Except String Json := do
  let m ← J.getNat a "max"
  let evs ← (← J.getArr a "events").toList.mapM decodeEv
  pure <| J.obj [("steps", Json.arr (runSched (init m) evs).toArray)]

/-! `C05.full {events}`: reconfiguration and interleaving together on one schema `("a", "s")`: the maps and
    lookups of `KG.Model.LocalLimiter`, one small-step counter (`KG.Model.MaxInflight.Sys`) per max-in-flight
    limiter object (the `Heap` of `c05_bound_every_limiter`). A thread = a request loop: lookup (one step),
    then the atomic steps of `TryAcquire` / `Release` on the object it was handed. -/
structure Full where
  w : World
  sys : Nat → KG.Model.MaxInflight.Sys
  bind : Nat → Option Nat
  /-- the schema names the request loops use: thread `t` asks for `names[t % |names|]` -/
  names : List Str := []

def fullCluster : Str := [97]
def fullSchema : Str := [115]

def Full.init : Full := { w := World.init, sys := fun _ => KG.Model.MaxInflight.init 0, bind := fun _ => none }

inductive FEv where
  | step (t : Nat)
  | sync (schemas : List Schema)
  | reset (mode : Str)

def decodeFEv (j : Json) : Except String FEv :=
  match J.optObj j "sync" with
  | some v => do pure (.sync (← (← v.getArr?).toList.mapM decodeSchema))
  | none =>
    match J.optObj j "reset" with
    | some v => do pure (.reset (← J.asHex v))
    | none => do pure (.step (← J.getNat j "t"))

def Full.nameOf (f : Full) (t : Nat) : Str :=
  if f.names.isEmpty then fullSchema else f.names.getD (t % f.names.length) fullSchema

/-- state of the limiter currently handed out for schema `n`: `(count, max)` of its counter, or `(-1, 0)` -/
def curState (f : Full) (n : Str) : Int × Nat :=
  match getOrDefault f.w fullCluster n with
  | some (some id) =>
    match f.w.heap id with
    | some (.counter _) => ((f.sys id).count, (f.sys id).max)
    | _ => (-1, 0)
  | _ => (-1, 0)

def fullOut (f : Full) (n : Str) (at_ out : String) : Json :=
  let st := curState f n
  J.obj [("at", at_), ("out", out), ("count", J.int st.1), ("max", J.nat st.2)]

/-- after a `Sync`: every max-in-flight limiter object has the limit the sequential model gives it (a new
    object starts as `init max`, a resized one keeps its counter) -/
def syncSys (w : World) (sys : Nat → KG.Model.MaxInflight.Sys) : Nat → KG.Model.MaxInflight.Sys := fun i =>
  match w.heap i with
  | some (.counter c) => { sys i with max := c.max }
  | _ => sys i

def fullStep (f : Full) : FEv → Except String (Full × Json)
  | .reset mode =>
    let f' : Full := { f with w := resetLimiter f.w fullCluster mode }
    .ok (f', fullOut f' (f'.nameOf 0) "" "none")
  | .sync schemas =>
    match KG.Model.LocalLimiter.sync f.w fullCluster schemas with
    | .error e => .error e
    | .ok w' =>
      let f' : Full := { f with w := w', sys := syncSys w' f.sys }
      .ok (f', fullOut f' (f'.nameOf 0) "" "none")
  | .step t =>
    let n := f.nameOf t
    match f.bind t with
    | none =>
      match getOrDefault f.w fullCluster n with
      | none => .ok (f, fullOut f n "Lookup" "admitted+released")
      | some none => .error panicNil
      | some (some id) =>
        match f.w.heap id with
        | none => .error "model: dangling limiter"
        | some (.counter _) =>
          let f' := { f with bind := fun u => if u = t then some id else f.bind u }
          .ok (f', fullOut f' n (pcName ((f.sys id).pc t)) "none")
        | some _ => .ok (f, fullOut f n "Lookup" "admitted+released")
    | some id =>
      let r := KG.Model.MaxInflight.stepThread (f.sys id) t
      let done := r.2 == .rejected || r.2 == .released
      let f' : Full := { f with sys := fun i => if i = id then r.1 else f.sys i,
                                bind := fun u => if u = t ∧ done then none else f.bind u }
      .ok (f', fullOut f' n (if done then "Lookup" else pcName (r.1.pc t)) (outName r.2))

def runFull : Full → List FEv → List Json
  | _, [] => []
  | f, e :: es =>
    match fullStep f e with
    | .error m => [J.obj [("at", ""), ("out", "panic"), ("msg", m)]]
    | .ok (f', j) => j :: runFull f' es

def doFull (a : Json) : Except String Json := do
  let evs ← (← J.getArr a "events").toList.mapM decodeFEv
  let names := (J.getHexList a "names").toOption.getD []
  pure <| J.obj [("steps", Json.arr (runFull { Full.init with names := names } evs).toArray)]

def decodeChoice : Json → Except String Choice
  | .str "go" => pure .go
  | .str "exit" => pure .exit
  | .str "panic" => pure .panic
  | _ => throw "bad choice"

def program : List Stmt := dispatcherProgram

def doServe (a : Json) : Except String Json := do
  let cs ← (← J.getArr a "choices").toList.mapM decodeChoice
  let granted ← J.getBool a "granted"
  let sc : Scenario := { choice := fun i => cs.getD i .go, granted := granted }
  let tr := serve program sc
  pure <| J.obj [("acquired", J.nat (countAcq tr)), ("released", J.nat (countRel tr)),
                 ("tried", J.nat (tr.countP fun e => e matches .tryAcquire _)),
                 ("program", Json.arr (KG.Gen.C05.serveHTTP.map Json.str).toArray),
                 ("shapeOk", J.bool (shapeOk program))]

def handle (m : String) (a : Json) : Option (Except String Json) :=
  match m with
  | "hist" => some (doHist a)
  | "sched" => some (doSched a)
  | "serve" => some (doServe a)
  | "full" => some (doFull a)
  | _ => none

end KG.Driver.C05
