import KG.Base.Json
/-! Driver entry points for property C05 (filled in by the C05 model). -/
namespace KG.Driver.C05
open Lean

/-- `handle method args`: `none` when the method is unknown. -/
def handle (_m : String) (_a : Json) : Option (Except String Json) := none

end KG.Driver.C05
