import KG.Base.Json
import KG.Driver.C04
import KG.Spec.Gateway
/-! Driver entry point `C04.gateway` — the composed model of the data plane (`KG.Model.Gateway`) threaded over a whole
    sequence, and the end-to-end judge (`KG.Spec.Gateway.judge`) applied to the observations of the real chain.

`C04.gateway {clusters, local, ops, obs}`:
* `clusters`: the UpstreamCluster objects in the order they are created, each with the oracle of that cluster
  (`tokens`: bearer token → identity; `denyImp`: (requestor, name) pairs its SubjectAccessReview refuses);
* `local`: the oracle for requests not bound to a cluster (IP-literal Host);
* `ops`: `request` (with `hold`), `finish k`, `health p ep healthy`;
* `obs` (optional): per op, what the real chain was observed to do (`null` for ops without observation).
Answer: the outcome of every cluster creation, per op the model's output, the judge's verdict on the observation and on
the model's own output (the latter is proved to be empty). -/
namespace KG.Driver.C04Gateway
open Lean KG KG.Model.Gateway KG.Spec.Gateway

def decodeSchema (j : Json) : Except String Model.LocalLimiter.Schema := do
  let mi := match J.optObj j "mi" with
    | some v => v.getInt?.toOption
    | none => none
  let tb ← match J.optObj j "tb" with
    | some v => do
      match (← v.getArr?).toList with
      | [a, b] => pure (some ((← a.getInt?), (← b.getInt?)))
      | _ => throw "tb is not a pair"
    | none => pure none
  pure { name := ← J.getHex j "name", strategy := [], exempt := ← J.getBool j "exempt", mi := mi, tb := tb, gmi := none, gtb := none }

/-- a dispatch rule (same wire form as `harness/matchgen.RuleJSON`) -/
def decodeRule (j : Json) : Except String Model.Match.Rule := do
  let sas ← (← J.getArr j "serviceAccounts").toList.mapM fun sa => do
    pure ({ ns := ← J.getHex sa "ns", name := ← J.getHex sa "name" } : Model.Match.SA)
  pure { verbs := ← J.getHexList j "verbs", apiGroups := ← J.getHexList j "apiGroups",
         resources := ← J.getHexList j "resources", resourceNames := ← J.getHexList j "resourceNames",
         users := ← J.getHexList j "users", serviceAccounts := sas,
         userGroups := ← J.getHexList j "userGroups", nonResourceURLs := ← J.getHexList j "nonResourceURLs" }

def decodePolicy (j : Json) : Except String Model.Match.PolicyCfg := do
  let rules ← (← J.getArr j "rules").toList.mapM decodeRule
  pure { rules := rules, flowControlSchemaName := ← J.getHex j "fc", upstreamSubset := ← J.getHexList j "subset",
         logMode := ← J.getHex j "logMode" }

def decodeIdentity (j : Json) : Except String Model.Identity.Identity := do
  pure { name := ← J.getHex j "name", groups := ← J.getHexList j "groups", extra := [] }

structure Oracle where
  tokens : List (Str × Model.Identity.Identity)
  denyImp : List (Str × Str)

def decodeOracle (j : Json) : Except String Oracle := do
  let tokens ← (← J.getArr j "tokens").toList.mapM fun t => do
    pure ((← J.getHex t "token"), (← decodeIdentity t))
  let deny ← (← J.getArr j "denyImp").toList.mapM fun t => do
    pure ((← J.getHex t "requestor"), (← J.getHex t "name"))
  pure { tokens := tokens, denyImp := deny }

def Oracle.authn (o : Oracle) (tok : Str) : Option Model.Identity.Identity := o.tokens.lookup tok

/-- refused: the (requestor, `actingAsAttributes.Name`) pairs listed -/
def Oracle.authz (o : Oracle) (u : Model.Identity.Identity) (q : Model.Identity.Attrs) : Model.Identity.Decision :=
  if o.denyImp.any (fun d => d.1 == u.name && d.2 == q.name) then .deny else .allow

def decodeCluster (j : Json) : Except String (ClusterCfg × Oracle) := do
  let servers ← (← J.getArr j "servers").toList.mapM fun s => do
    pure ({ endpoint := ← J.getHex s "endpoint", disabled := ← J.getBool s "disabled" } : Model.Endpoints.Server)
  let cfg : ClusterCfg :=
    { name := ← J.getHex j "name", aliases := ← J.getHexList j "aliases", denyAll := ← J.getBool j "denyAll",
      closeWhenIdle := ← J.getBool j "closeWhenIdle", loggingMode := ← J.getHex j "logging",
      policies := ← (← J.getArr j "policies").toList.mapM decodePolicy,
      schemas := ← (← J.getArr j "schemas").toList.mapM decodeSchema,
      servers := servers, token := ← J.getHex j "token" }
  pure (cfg, ← decodeOracle j)

def decodeInfo (j : Json) : Except String ReqInfo := do
  pure { verb := ← J.getHex j "verb", isResource := ← J.getBool j "isResource", apiGroup := ← J.getHex j "apiGroup",
         resource := ← J.getHex j "resource", subresource := ← J.getHex j "subresource", name := ← J.getHex j "name",
         path := ← J.getHex j "path" }

def decodeRequest (j : Json) : Except String Request := do
  let ip ← J.getHex j "ip"
  let now ← match (← J.getStr j "now").toInt? with
    | some n => pure n
    | none => throw "now is not a decimal integer"
  let info ← match J.optObj j "info" with
    | some v => do pure (some (← decodeInfo v))
    | none => pure none
  pure { host := ← J.getHex j "host", method := ← J.getHex j "method", target := ← J.getHex j "target",
         lines := ← KG.Driver.C04.decodeLines j "lines", body := ← J.getHex j "body",
         remoteIP := if ip = [] then none else some ip, info := info, hostIsIP := ← J.getBool j "hostIsIP",
         order := ← J.getHexList j "order", now := (now : Rat) }

def decodeOp (j : Json) : Except String Op := do
  match ← J.getStr j "kind" with
  | "request" => pure (.request (← decodeRequest (← J.getObj j "req")) (← J.getBool j "hold"))
  | "finish" => pure (.finish (← J.getNat j "k"))
  | "health" => pure (.setHealth (← J.getNat j "p") (← J.getHex j "ep") (← J.getBool j "healthy"))
  | k => throw s!"unknown op kind {k}"

def decodeIdHeaders (j : Json) (k : String) : Except String Model.Identity.Headers := do
  (← J.getArr j k).toList.mapM fun e => do
    pure ((← J.getHex e "name"), (← J.getHexList e "values"))

def decodeObs (j : Json) : Except String Obs := do
  let ra ← J.getInt j "retryAfter"
  let up ← KG.Driver.C04.decodeUpReq (← J.getObj j "up")
  pure { nUp := ← J.getNat j "nUp", endpoint := ← J.getHex j "endpoint", up := up,
         identity := ← decodeIdHeaders j "identity",
         term := { httpCode := ← J.getNat j "status", retryAfter := if ra < 0 then none else some ra.toNat,
                   isStatus := ← J.getBool j "isStatus",
                   body := ⟨← J.getHex j "kind", ← J.getHex j "apiVersion", ← J.getHex j "statusStr", ← J.getHex j "reason", ← J.getNat j "code"⟩,
                   upstreamRequests := ← J.getNat j "nUp", upstreamBytes := ← J.getNat j "upBytes" },
         notProxied := ← J.getBool j "notProxied" }

def encodeIdHeaders (h : Model.Identity.Headers) : Json :=
  Json.arr (h.map fun e => J.obj [("name", J.hex e.1), ("values", J.hexList e.2)]).toArray

def optNat : Option Nat → Json
  | some n => J.nat n
  | none => J.int (-1)

/-- is the endpoint choice of a request bound to `cl` and routed under `pk` a function of the (unobservable) map order:
    no explicit subset and at least two ready endpoints -/
def orderSensitive (cl : Cluster) (pk : Model.Match.Picker) : Bool :=
  match cl.cfg.policies[pk.policy]? with
  | some p => p.upstreamSubset.isEmpty && decide (2 ≤ (Model.Endpoints.readyList cl.ep.eps pk.upstreams).length)
  | none => false

def encodeOutcome (r : Request) (free : Bool) : Outcome → Json
  | .badRequest => J.obj [("kind", Json.str "badRequest")]
  | .notProxied => J.obj [("kind", Json.str "notProxied")]
  | .proxyError => J.obj [("kind", Json.str "proxyError")]
  | .panic e => J.obj [("kind", Json.str "panic"), ("msg", Json.str e)]
  | .terminated a => J.obj [("kind", Json.str "terminated"), ("code", J.nat a.httpCode), ("retryAfter", optNat a.retryAfter),
                            ("reason", J.hex a.body.reason)]
  | .forwarded f =>
    J.obj [("kind", Json.str "forwarded"), ("cluster", J.nat f.cluster), ("policy", J.nat f.policy), ("schema", J.hex f.schema),
           ("endpoint", J.hex f.endpoint.1), ("gen", J.nat f.endpoint.2), ("free", J.bool free),
           ("closeWhenIdle", J.bool f.closeWhenIdle),
           ("up", KG.Driver.C04.encodeUpReq r.lines f.up), ("identity", encodeIdHeaders f.identity)]

structure Acc where
  x : Run
  σ : KG.Spec.LocalLimiter.SState
  outs : Array Json

def doGateway (a : Json) : Except String Json := do
  let cl ← (← J.getArr a "clusters").toList.mapM decodeCluster
  let localO ← decodeOracle (← J.getObj a "local")
  let ops ← (← J.getArr a "ops").toList.mapM decodeOp
  let obs : List (Option Json) := match a.getObjVal? "obs" with
    | .ok (.arr xs) => xs.toList.map fun x => match x with | .null => none | v => some v
    | _ => []
  -- install, clusters in order; the oracle of a created cluster is aligned with its pointer
  let inst := cl.foldl (fun (acc : (State × KG.Spec.LocalLimiter.SState) × List Oracle × List String) c =>
      let r := addCluster acc.1.1 c.1
      match r.2 with
      | some .created => ((r.1, KG.Spec.LocalLimiter.specSync acc.1.2 (lower c.1.name) c.1.schemas), acc.2.1 ++ [c.2], acc.2.2 ++ ["created"])
      | some o => (acc.1, acc.2.1, acc.2.2 ++ [Model.Names.Outcome.toString o])
      | none => (acc.1, acc.2.1, acc.2.2 ++ ["not-modelled"]))
    ((State.init, KG.Spec.LocalLimiter.SState.init), [], [])
  let oracles := inst.2.1
  let env : Env :=
    { authn := fun p tok => match p with
        | none => localO.authn tok
        | some p => match oracles[p]? with | some o => o.authn tok | none => none,
      authz := fun p u q => match p with
        | none => localO.authz u q
        | some p => match oracles[p]? with | some o => o.authz u q | none => .deny }
  let start : Acc := { x := Run.init inst.1.1, σ := inst.1.2, outs := #[] }
  let fin ← (ops.zipIdx).foldlM (fun (acc : Acc) (opi : Op × Nat) => do
      let op := opi.1
      let ob := (obs[opi.2]?).getD none
      match op with
      | .request r _ =>
        let s := acc.x.s
        let d := dispatch env s r
        let free := match d with | .done x => orderSensitive x.b.cl x.pk | _ => false
        let st := step env acc.x op
        let out := match st.2 with | .served o => o | _ => .badRequest
        -- the bookkeeping of C05's judge follows the limiter's answers
        let σ1 := match d, out with
          | _, .badRequest => acc.σ
          | .done x, _ => trackAcquire acc.σ x.b.cl.cfg.name (schemaNameOf x.b.cl x.pk) x.acq.admitted
          | _, _ => acc.σ
        let released : Option Nat := match d, out with
          | _, .badRequest => none
          | .done x, .forwarded _ => (match op with | .request _ true => none | _ => some x.acq.handle)
          | .done x, _ => if x.acq.admitted then some x.acq.handle else none
          | _, _ => none
        let σ2 := match released with | some h => trackRelease σ1 h | none => σ1
        let verdict ← match ob with
          | some j => do pure (judge env s acc.σ r (← decodeObs j))
          | none => pure []
        let self := match obsOf r out with
          | some o => judge env s acc.σ r o
          | none => []
        pure { x := st.1, σ := σ2,
               outs := acc.outs.push (J.obj [("kind", Json.str "served"), ("outcome", encodeOutcome r free out),
                                            ("judge", Json.arr (verdict.map Json.str).toArray),
                                            ("selfJudge", Json.arr (self.map Json.str).toArray)]) }
      | .finish k =>
        let h := acc.x.held.lookup k
        let st := step env acc.x op
        let σ1 := match h with | some h => trackRelease acc.σ h | none => acc.σ
        pure { x := st.1, σ := σ1, outs := acc.outs.push (J.obj [("kind", Json.str "finished"), ("did", J.bool h.isSome)]) }
      | .setHealth _ _ _ =>
        let st := step env acc.x op
        pure { acc with x := st.1, outs := acc.outs.push (J.obj [("kind", Json.str "health")]) })
    start
  pure <| J.obj [("install", Json.arr (inst.2.2.map Json.str).toArray), ("outs", Json.arr fin.outs)]

def handle (m : String) (a : Json) : Option (Except String Json) :=
  match m with
  | "gateway" => some (doGateway a)
  | _ => none

end KG.Driver.C04Gateway
