import KG.Base.Json
import KG.Spec.Match
/-! Driver entry points for C01 (rule matching) — also used by C17. Byte strings travel as hex. -/
namespace KG.Driver.C01
open Lean KG KG.Model.Match KG.Spec.Match

def decodeSA (j : Json) : Except String SA := do
  pure { ns := ← J.getHex j "ns", name := ← J.getHex j "name" }

def decodeRule (j : Json) : Except String Rule := do
  let sas ← (← J.getArr j "serviceAccounts").toList.mapM decodeSA
  pure { verbs := ← J.getHexList j "verbs", apiGroups := ← J.getHexList j "apiGroups",
         resources := ← J.getHexList j "resources", resourceNames := ← J.getHexList j "resourceNames",
         users := ← J.getHexList j "users", serviceAccounts := sas,
         userGroups := ← J.getHexList j "userGroups", nonResourceURLs := ← J.getHexList j "nonResourceURLs" }

def encodeRule (r : Rule) : Json :=
  J.obj [("verbs", J.hexList r.verbs), ("apiGroups", J.hexList r.apiGroups), ("resources", J.hexList r.resources),
         ("resourceNames", J.hexList r.resourceNames), ("users", J.hexList r.users),
         ("serviceAccounts", Json.arr (r.serviceAccounts.map fun sa => J.obj [("ns", J.hex sa.ns), ("name", J.hex sa.name)]).toArray),
         ("userGroups", J.hexList r.userGroups), ("nonResourceURLs", J.hexList r.nonResourceURLs)]

def decodeAttrs (j : Json) : Except String Attrs := do
  pure { verb := ← J.getHex j "verb", user := ← J.getHex j "user", groups := ← J.getHexList j "groups",
         isResource := ← J.getBool j "isResource", apiGroup := ← J.getHex j "apiGroup",
         resource := ← J.getHex j "resource", subresource := ← J.getHex j "subresource",
         name := ← J.getHex j "name", path := ← J.getHex j "path" }

def decodePolicies (j : Json) (k : String) : Except String (List Policy) := do
  (← J.getArr j k).toList.mapM fun p => do
    (← p.getArr?).toList.mapM decodeRule

def optIdx : Option Nat → Json
  | some i => J.nat i
  | none => J.int (-1)

/-- `C01.match {attrs, policies}`: model (`matchPolicies`, per-rule `ruleMatches`) and the declarative judge
    (`firstMatchSpec`, per-rule `ruleSpec`). -/
def doMatch (a : Json) : Except String Json := do
  let attrs ← decodeAttrs (← J.getObj a "attrs")
  let ps ← decodePolicies a "policies"
  pure <| J.obj [
    ("idx", optIdx (matchPolicies attrs ps)),
    ("rules", Json.arr (ps.map fun p => Json.arr (p.map fun r => J.bool (ruleMatches attrs r)).toArray).toArray),
    ("spec_idx", optIdx (firstMatchSpec attrs ps)),
    ("spec_rules", Json.arr (ps.map fun p => Json.arr (p.map fun r => J.bool (ruleSpec attrs r)).toArray).toArray)]

/-- `C01.field {field, rules, req, reqs, sub, sas}`: one field matcher, model and spec. -/
def doField (a : Json) : Except String Json := do
  let field ← J.getStr a "field"
  let rules ← J.getHexList a "rules"
  let req ← J.getHex a "req"
  let (m, s) ← match field with
    | "verb" => pure (verbMatches rules req, fieldSpec false (posEq req) rules)
    | "apiGroup" => pure (apiGroupMatches rules req, fieldSpec false (posEq req) rules)
    | "resource" => do
        let sub ← J.getHex a "sub"
        pure (resourceMatches rules req sub, fieldSpec false (posResource req sub) rules)
    | "resourceName" => pure (resourceNameMatches rules req, fieldSpec true (posEq req) rules)
    | "user" => do
        let sas ← (← J.getArr a "sas").toList.mapM decodeSA
        pure (userOrSAMatches rules sas req, userSpec rules sas req)
    | "userGroup" => do
        let reqs ← J.getHexList a "reqs"
        pure (userGroupMatches rules reqs, fieldSpec true (posGroup reqs) rules)
    | "url" => pure (nonResourceURLMatches rules req, urlSpec rules req)
    | _ => throw s!"unknown field {field}"
  pure <| J.obj [("model", J.bool m), ("spec", J.bool s)]

/-- `C01.attrs {attrs, policies, cfgs:[{fc,subset,logMode}], all, logging}`: `ClusterInfo.MatchAttributes` -/
def doAttrs (a : Json) : Except String Json := do
  let attrs ← decodeAttrs (← J.getObj a "attrs")
  let ps ← decodePolicies a "policies"
  let cfgs ← (← J.getArr a "cfgs").toList.mapM fun c => do
    pure ((← J.getHex c "fc"), (← J.getHexList c "subset"), (← J.getHex c "logMode"))
  if cfgs.length ≠ ps.length then throw "cfgs/policies length mismatch"
  let pcs : List PolicyCfg := (ps.zip cfgs).map fun (r, (fc, sub, lm)) =>
    { rules := r, flowControlSchemaName := fc, upstreamSubset := sub, logMode := lm }
  match matchAttributes attrs pcs (← J.getHexList a "all") (← J.getHex a "logging") with
  | none => pure (J.obj [("matched", J.bool false)])
  | some pk => pure (J.obj [("matched", J.bool true), ("policy", J.nat pk.policy), ("fc", J.hex pk.flowControlName),
                            ("upstreams", J.hexList pk.upstreams), ("log", J.bool pk.enableLog)])

def handle (m : String) (a : Json) : Option (Except String Json) :=
  match m with
  | "match" => some (doMatch a)
  | "attrs" => some (doAttrs a)
  | "field" => some (doField a)
  | _ => none

end KG.Driver.C01
