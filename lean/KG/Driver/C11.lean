import KG.Base.Json
import KG.Driver.C01
import KG.Spec.ClusterSync
/-!
Driver entry points for property C11 (hot reload converges to the latest object).

`C11.run {env, conn, history:[{obj, ord}], eps:[…], names:[…], probes:[attrs…]}` runs the ClusterSync model over a
whole history and answers, per step: the outcome of `Sync`, the observation of the long-lived `ClusterInfo`
(evaluated on the given universes of endpoints / schema names / request probes), the observation the judge
`expected` prescribes for that object, and outcome + observation of a fresh `ClusterInfo` given only that object.
-/
namespace KG.Driver.C11
open Lean KG KG.Model.ClusterSync KG.Spec.ClusterSync

/-! ## executable instance of the external code -/

def asciiLower (s : Str) : Str := s.map fun b => if 65 ≤ b ∧ b ≤ 90 then b + 32 else b

def isSpace (b : UInt8) : Bool := b == 32 || (9 ≤ b && b ≤ 13)
def trimSpace (s : Str) : Str := ((s.dropWhile isSpace).reverse.dropWhile isSpace).reverse

def splitOn (sep : UInt8) : Str → List Str
  | [] => [[]]
  | b :: r =>
    match splitOn sep r with
    | [] => [[]]
    | h :: t => if b == sep then [] :: h :: t else (b :: h) :: t

/-- `strings.SplitN(s, "=", 2)` -/
def splitEq : Str → Str × Option Str
  | [] => ([], none)
  | b :: r => if b == 61 then ([], some r) else
    match splitEq r with
    | (k, v) => (b :: k, v)

/-- `strconv.ParseBool` -/
def parseBool (s : Str) : Option Bool :=
  if s ∈ ["1", "t", "T", "TRUE", "true", "True"].map Str.ofString then some true
  else if s ∈ ["0", "f", "F", "FALSE", "false", "False"].map Str.ofString then some false
  else none

/-- every gate of a `DefaultMutableFeatureGate.DeepCopy()`: the project's gates (regenerated from features.go) and
    the two generic switches of k8s.io/component-base/featuregate -/
def knownGates : List (Str × Bool × String) :=
  (KG.Gen.C11.knownGates.map fun (n, d, st) => (Str.ofString n, d, st)) ++
    [(Str.ofString "AllAlpha", false, "Alpha"), (Str.ofString "AllBeta", false, "Beta")]

def defaultGatesExec : Gates := knownGates.map fun (n, d, _) => (n, d)

/-- the `key=value,…` parser of `featureGate.Set`; later duplicates override -/
def parseGateMap : List Str → Option (List (Str × Bool))
  | [] => some []
  | seg :: r =>
    if seg.length == 0 then parseGateMap r
    else
      match splitEq seg with
      | (_, none) => none
      | (k, some v) =>
        match parseBool (trimSpace v) with
        | none => none
        | some b =>
          match parseGateMap r with
          | none => none
          | some m => some (if (alookup (trimSpace k) m).isSome then m else (trimSpace k, b) :: m)

/-- `DefaultMutableFeatureGate.DeepCopy().Set(v)` -/
def setGatesExec (v : Str) : Option Gates :=
  match parseGateMap (splitOn 44 v) with
  | none => none
  | some m =>
    if m.any (fun kv => (alookup kv.1 (knownGates.map fun (n, d, _) => (n, d))).isNone) then none
    else
      some <| knownGates.map fun (n, d, st) =>
        match alookup n m with
        | some b => (n, b)
        | none =>
          match st, alookup (Str.ofString "AllAlpha") m, alookup (Str.ofString "AllBeta") m with
          | "Alpha", some b, _ => (n, b)
          | "Beta", _, some b => (n, b)
          | _, _, _ => (n, d)

def mkEnv (caOK : List Str) (pairOK : List (Str × Str)) (badEps : List Str) : Env :=
  { lower := asciiLower,
    setGates := setGatesExec,
    defaultGates := defaultGatesExec,
    parseCA := fun b => if b ∈ caOK then some b else none,
    parsePair := fun c k => if (c, k) ∈ pairOK then some (c ++ [43] ++ k) else none,
    addOK := fun e => !(e ∈ badEps) }

/-! ## decoding -/

def optBool (j : Json) (k : String) : Except String (Option Bool) :=
  match J.optObj j k with
  | none => pure none
  | some v => do pure (some (← v.getBool?))

def optInt (j : Json) (k : String) : Except String (Option Int) :=
  match J.optObj j k with
  | none => pure none
  | some v => do pure (some (← v.getInt?))

def optTB (j : Json) (k : String) : Except String (Option TB) :=
  match J.optObj j k with
  | none => pure none
  | some v => do
    match (← v.getArr?).toList with
    | [q, b] => pure (some ⟨← q.getInt?, ← b.getInt?⟩)
    | _ => throw "bad token bucket"

def decodeServer (j : Json) : Except String Server := do
  pure ⟨← J.getHex j "ep", ← optBool j "dis"⟩

def decodeSS (j : Json) : Except String SecureServing := do
  pure ⟨← J.getHex j "key", ← J.getHex j "cert", ← J.getHex j "ca", ← J.getHexList j "names"⟩

def decodeSchema (j : Json) : Except String Schema := do
  pure { name := ← J.getHex j "name", exempt := ← J.getBool j "exempt", maxInflight := ← optInt j "max",
         tokenBucket := ← optTB j "tb", globalMaxInflight := ← optInt j "gmax", globalTokenBucket := ← optTB j "gtb",
         strategy := ← J.getHex j "strategy" }

def decodePolicy (j : Json) : Except String DPolicy := do
  let rules ← (← J.getArr j "rules").toList.mapM KG.Driver.C01.decodeRule
  pure { rules := rules, strategy := ← J.getHex j "strategy", upstreamSubset := ← J.getHexList j "subset",
         flowControlSchemaName := ← J.getHex j "fc", logMode := ← J.getHex j "log" }

def decodeAnn (j : Json) : Except String (Option (List (Str × Str))) :=
  match J.optObj j "ann" with
  | none => pure none
  | some v => do
    let l ← (← v.getArr?).toList.mapM fun kv => do
      match (← kv.getArr?).toList with
      | [k, x] => pure ((← J.asHex k), (← J.asHex x))
      | _ => throw "bad annotation"
    pure (some l)

def decodeObj (j : Json) : Except String Obj := do
  pure { name := ← J.getHex j "name", annotations := ← decodeAnn j,
         servers := ← (← J.getArr j "servers").toList.mapM decodeServer,
         secureServing := ← decodeSS (← J.getObj j "ss"),
         schemas := ← (← J.getArr j "schemas").toList.mapM decodeSchema,
         policies := ← (← J.getArr j "policies").toList.mapM decodePolicy,
         logging := ← J.getHex j "logging" }

def decodeEnv (j : Json) : Except String Env := do
  let pairs ← (← J.getArr j "pairOK").toList.mapM fun p => do
    match (← p.getArr?).toList with
    | [c, k] => pure ((← J.asHex c), (← J.asHex k))
    | _ => throw "bad pair"
  pure (mkEnv (← J.getHexList j "caOK") pairs (← J.getHexList j "badEps"))

def decodeConn (j : Json) : Except String Conn := do
  pure ⟨← J.getHex j "global", ← J.getBool j "skip"⟩

def decodeDelivery (j : Json) : Except String Delivery := do
  let ord := match J.getHexList j "ord" with
    | .ok l => l
    | .error _ => []
  pure ⟨← decodeObj (← J.getObj j "obj"), ord⟩

/-! ## encoding -/

def natStr (n : Nat) : Str := Str.ofString (toString n)

/-- `String()` of a limiter -/
def fcString (v : FCView) : Str :=
  let ty := match v.typ with
    | .exempt => "Exempt"
    | .maxInflight => "MaxRequestsInflight"
    | .tokenBucket => "TokenBucket"
  let head := Str.ofString "name=" ++ v.name ++ Str.ofString ",type=" ++ Str.ofString ty
  match v.typ with
  | .tokenBucket => head ++ Str.ofString ",qps=" ++ natStr v.a ++ Str.ofString ",burst=" ++ natStr v.b
  | _ => head ++ Str.ofString ",size=" ++ natStr v.a

def optHex : Option Str → Json
  | none => Json.null
  | some s => J.hex s

def encodePolicy (p : DPolicy) : Json :=
  J.obj [("rules", Json.arr (p.rules.map KG.Driver.C01.encodeRule).toArray), ("strategy", J.hex p.strategy),
         ("subset", J.hexList p.upstreamSubset), ("fc", J.hex p.flowControlSchemaName), ("log", J.hex p.logMode)]

def encodePicker : Option Picker → Json
  | none => Json.null
  | some p => J.obj [("fcName", J.hex p.flowControlName), ("fc", optHex (p.flowControl.map fcString)),
                     ("upstreams", J.hexList p.upstreams), ("log", J.bool p.enableLog)]

structure Universe where
  eps : List Str
  names : List Str
  probes : List KG.Model.Match.Attrs

def encodeObs (u : Universe) (o : Obs) (probes : Option (List (Option Picker))) : Json :=
  J.obj <| [
    ("policies", Json.arr (o.policies.map encodePolicy).toArray),
    ("logging", J.hex o.logging),
    ("endpoints", Json.arr (u.eps.filterMap fun e => (o.endpoints e).map fun d => Json.arr #[J.hex e, J.bool d]).toArray),
    ("schemas", Json.arr (u.names.map fun n => Json.arr #[J.hex n, optHex ((o.schemas n).map fcString)]).toArray),
    ("has", Json.arr (u.names.map fun n => Json.arr #[J.hex n, J.bool (o.hasSchema n)]).toArray),
    ("mode", J.hex o.limiterMode),
    ("gates", Json.arr (o.gates.map fun (g, b) => Json.arr #[J.hex g, J.bool b]).toArray),
    ("tls", match o.tls with
            | none => Json.null
            | some (ca, cert) => Json.arr #[optHex ca, optHex cert]),
    ("verify", optHex o.verify),
    ("serverNames", J.hexList o.serverNames)] ++
    (match probes with
     | none => []
     | some ps => [("probes", Json.arr (ps.map encodePicker).toArray)])

def encodeCI (env : Env) (u : Universe) (c : CI) : Json :=
  encodeObs u (observe env c) (some (u.probes.map (matchAttributes c)))

def errName : Err → String
  | .featureGate => "featureGate"
  | .clientCA => "clientCA"
  | .keyPair => "keyPair"
  | .endpoint _ => "endpoint"

def encodeOutcome (env : Env) (u : Universe) : Outcome → Json
  | .ok c => J.obj [("outcome", Json.str "ok"), ("obs", encodeCI env u c)]
  | .fail e c => J.obj [("outcome", Json.str ("fail:" ++ errName e)), ("obs", encodeCI env u c)]
  | .crash => J.obj [("outcome", Json.str "crash")]

/-- run the history; one record per delivery -/
def runSteps (env : Env) (conn : Conn) (u : Universe) : Option CI → List Delivery → List Json
  | _, [] => []
  | none, _ :: r => J.obj [("outcome", Json.str "dead")] :: runSteps env conn u none r
  | some c, d :: r =>
    let out := sync env c d.obj d.ord
    let next := match out with
      | .ok c' => some c'
      | .fail _ c' => some c'
      | .crash => none
    let rec_ := J.obj [
      ("step", encodeOutcome env u out),
      ("expected", encodeObs u (expected env conn d.obj) none),
      ("fresh", encodeOutcome env u (fresh env conn d.obj d.ord))]
    rec_ :: runSteps env conn u next r

def doRun (a : Json) : Except String Json := do
  let env ← decodeEnv (← J.getObj a "env")
  let conn ← decodeConn (← J.getObj a "conn")
  let hist ← (← J.getArr a "history").toList.mapM decodeDelivery
  let u : Universe := ⟨← J.getHexList a "eps", ← J.getHexList a "names",
    ← (← J.getArr a "probes").toList.mapM KG.Driver.C01.decodeAttrs⟩
  match hist with
  | [] => pure (Json.arr #[])
  | d :: _ => pure (Json.arr (runSteps env conn u (some (empty env conn d.obj.name)) hist).toArray)

/-- `C11.gates {v}`: the executable `featuregate.Set` alone (tied to the real one by the harness) -/
def doGates (a : Json) : Except String Json := do
  let v ← J.getHex a "v"
  match setGatesExec v with
  | none => pure Json.null
  | some g => pure (Json.arr (g.map fun (n, b) => Json.arr #[J.hex n, J.bool b]).toArray)

/-! ## controller level -/

def decodeCOp (j : Json) : Except String COp := do
  match ← J.getStr j "op" with
  | "write" => pure (.write (← decodeObj (← J.getObj j "obj")))
  | "delete" => pure (.delete (← J.getHex j "name"))
  | "deliver" =>
    let ord := match J.getHexList j "ord" with
      | .ok l => l
      | .error _ => []
    pure (.deliver (← J.getNat j "item") ord)
  | o => throw s!"unknown op {o}"

/-- observation of the controller after an op: pending queue, which cluster each host resolves to, and for every
    cluster name of the universe: is something pending for it, the observation of the `ClusterInfo` served under
    its name (when that is a `ClusterInfo` of this cluster), and what the lister's object prescribes -/
def encodeCtl (env : Env) (conn : Conn) (u : Universe) (hosts cnames : List Str) (st : Ctl) : Json :=
  J.obj [
    ("pending", J.hexList st.queue),
    ("resolve", Json.arr (hosts.map fun h => Json.arr #[J.hex h,
        match st.get env h with
        | some (_, c) => J.hex c.cluster
        | none => Json.null]).toArray),
    ("clusters", Json.arr (cnames.map fun n =>
      J.obj [("name", J.hex n),
             ("pending", J.bool (st.queue.any (· == n))),
             ("served", match st.get env n with
                        | some (_, c) => if c.cluster = env.lower n then encodeCI env u c else Json.null
                        | none => Json.null),
             ("expected", match alookup n st.lister with
                          | some o => encodeObs u (expected env conn o) none
                          | none => Json.null)]).toArray)]

def runCtl (env : Env) (conn : Conn) (u : Universe) (hosts cnames : List Str) : Option Ctl → List COp → List Json
  | _, [] => []
  | none, _ :: r => J.obj [("result", Json.str "dead")] :: runCtl env conn u hosts cnames none r
  | some st, op :: r =>
    let result := match op with
      | .deliver i ord =>
        match st.queue[i]? with
        | none => "skip"
        | some name =>
          match syncUpstreamCluster env conn st name ord with
          | .crash => "crash"
          | .requeue _ => "requeue"
          | .done _ => "done"
      | _ => "ok"
    match st.step env conn op with
    | none => J.obj [("result", Json.str "crash")] :: runCtl env conn u hosts cnames none r
    | some st' => J.obj [("result", Json.str result), ("state", encodeCtl env conn u hosts cnames st')] ::
        runCtl env conn u hosts cnames (some st') r

def doCtl (a : Json) : Except String Json := do
  let env ← decodeEnv (← J.getObj a "env")
  let conn ← decodeConn (← J.getObj a "conn")
  let ops ← (← J.getArr a "ops").toList.mapM decodeCOp
  let u : Universe := ⟨← J.getHexList a "eps", ← J.getHexList a "names",
    ← (← J.getArr a "probes").toList.mapM KG.Driver.C01.decodeAttrs⟩
  pure (Json.arr (runCtl env conn u (← J.getHexList a "hosts") (← J.getHexList a "cnames") (some Ctl.init) ops).toArray)

def handle (m : String) (a : Json) : Option (Except String Json) :=
  match m with
  | "run" => some (doRun a)
  | "ctl" => some (doCtl a)
  | "gates" => some (doGates a)
  | _ => none

end KG.Driver.C11
