import KG.Base.Json
import KG.Spec.Endpoints
/-!
Driver entry points for C03 (endpoint selection); the C14 driver uses the decoders too.

`C03.run {ops:[…], impl:[…]?}` — every harness op is one model op followed by *quiescence*: the worker goroutines
consume every pending token (`probeFire` on every endpoint that can fire, outcome from the op's `up` table), which is
what the harness waits for on the real code.  The reply carries, per harness op, the model's output, the probes that
fired, the whole observable state, and the verdict of the judge `KG.Spec.Endpoints.judgeTrace` on the model's own
low-level trace and — when `impl` is given — on the trace observed from the implementation.
-/
namespace KG.Driver.C03
open Lean KG KG.Model.Endpoints KG.Spec.Endpoints

abbrev EName := KG.Model.Endpoints.Name

structure HOp where
  op : Op
  up : List (EName × Bool)

/-- a probe answer on the wire: `code` = HTTP status, or minus one for a hang (timeout), minus two or three for a connection closed or refused; `body_ok` -/
def decodeAnswer (x : Json) : Except String ProbeAnswer := do
  let code ← J.getInt x "code"
  let bodyOk := (J.getBool x "body_ok").toOption.getD true
  if code == -1 then pure .timeout
  else if code < 0 then pure .transportError
  else pure (.status code.toNat bodyOk)

/-- the health an entry stands for: decided by the model (`gatewayHealthCheck`) when the entry carries the probe answer -/
def decodeHealth (x : Json) : Except String Bool :=
  match J.optObj x "code" with
  | some _ => do pure (gatewayHealthCheck (← decodeAnswer x))
  | none => J.getBool x "h"

def decodeUp (j : Json) : Except String (List (EName × Bool)) :=
  match J.optObj j "up" with
  | none => pure []
  | some u => do
    (← u.getArr?).toList.mapM fun x => do pure (← J.getHex x "n", ← decodeHealth x)

def decodeServer (j : Json) : Except String Server := do
  pure { endpoint := ← J.getHex j "ep", disabled := ← J.getBool j "dis" }

def decodeNameLists (j : Json) (k : String) : Except String (List (List EName)) := do
  (← J.getArr j k).toList.mapM fun p => do (← p.getArr?).toList.mapM J.asHex

/-- `order` may be absent (planning run): the model then enumerates its own map -/
def decodeOp (s : State) (j : Json) : Except String HOp := do
  let up ← decodeUp j
  let kind ← J.getStr j "op"
  match kind with
  | "sync" =>
    let servers ← (← J.getArr j "servers").toList.mapM decodeServer
    pure ⟨.sync servers (← decodeNameLists j "policies"), up⟩
  | "status" => pure ⟨.updateStatus (← J.getHex j "n") (← J.getBool j "h"), up⟩
  | "trigger" => pure ⟨.trigger (← J.getHex j "n"), up⟩
  | "ensure" => pure ⟨.ensure (← J.getHex j "n"), up⟩
  | "match" =>
    let order ← match J.optObj j "order" with
      | none => pure (s.eps.map (·.name))
      | some _ => J.getHexList j "order"
    pure ⟨.matchAttrs (← J.getNat j "policy") order, up⟩
  | "pop" => pure ⟨.pop (← J.getNat j "picker"), up⟩
  | _ => throw s!"unknown op {kind}"

def strLt (a b : Str) : Bool := a.toHex < b.toHex

def sortEps (eps : List EP) : List EP := (eps.toArray.qsort fun a b => strLt a.name b.name).toList

def encodeEP (e : EP) : Json :=
  J.obj [("n", J.hex e.name), ("gen", J.nat e.gen), ("dis", J.bool e.disabled), ("healthy", J.bool e.healthy),
         ("uc", J.nat e.unhealthyCount), ("probing", J.bool e.probing), ("chan", J.nat (if e.chan then 1 else 0)),
         ("blocked", J.nat e.blocked), ("probes", J.nat e.probes)]

def encodeKey (k : Key) : Json := Json.arr (k.map fun p => J.obj [("n", J.hex p.1), ("gen", J.nat p.2)]).toArray

def keyStr (k : Key) : String := String.intercalate "," (k.map fun p => p.1.toHex ++ ":" ++ toString p.2)

/-- a key with a policy's cursor scope in front (`scopeTag i`) is rendered as scope "policy/i:" + the object list -/
def splitScope (k : Key) : String × Key :=
  match k with
  | (([0] : Str), g) :: rest => (s!"policy/{g - 1}:", rest)
  | _ => ("", k)

def encodeLb (lb : List (Key × Nat)) : Json :=
  let sorted := (lb.toArray.qsort fun a b => keyStr a.1 < keyStr b.1).toList
  Json.arr (sorted.map fun p =>
    let sk := splitScope p.1
    if sk.1 == "" then J.obj [("key", encodeKey p.1), ("c", J.nat p.2)]
    else J.obj [("key", encodeKey sk.2), ("c", J.nat p.2), ("scope", Json.str sk.1)]).toArray

def encodePop : PopOut → Json
  | .picked n g => J.obj [("ok", J.obj [("n", J.hex n), ("gen", J.nat g)])]
  | .noReady => J.obj [("err", Json.str "noready")]
  | .panic => J.obj [("err", Json.str "panic")]

def encodeOut : Out → Json
  | .none => Json.null
  | .fired n g => J.obj [("fired", J.obj [("n", J.hex n), ("gen", J.nat g)])]
  | .notFired => J.obj [("notfired", Json.bool true)]
  | .matched us => J.obj [("ok", J.hexList us)]
  | .noRule => J.obj [("err", Json.str "norule")]
  | .badOrder => J.obj [("err", Json.str "badorder")]
  | .popped r => encodePop r
  | .noPicker => J.obj [("err", Json.str "nopicker")]

def decodePop (j : Json) : Except String PopOut :=
  match J.optObj j "ok" with
  | some o => do pure (.picked (← J.getHex o "n") (← J.getNat o "gen"))
  | none => do
    let e ← J.getStr j "err"
    if e == "noready" then pure .noReady else throw s!"implementation answered {e}"

/-- the implementation's output of one harness op, in the vocabulary of `Out` -/
def decodeImplOut (op : Op) (j : Json) : Except String Out :=
  match op with
  | .matchAttrs _ _ =>
    match J.optObj j "ok" with
    | some _ => do pure (.matched (← J.getHexList j "ok"))
    | none => do
      let e ← J.getStr j "err"
      if e == "norule" then pure .noRule else throw s!"implementation answered {e}"
  | .pop _ =>
    match j.getObjVal? "err" with
    | .ok (Json.str "nopicker") => pure .noPicker
    | _ => do pure (.popped (← decodePop j))
  | _ => pure .none

/-- quiescence: every endpoint that can fire fires (sorted by name, repeatedly; `fuel` bounds the loop: an endpoint holds
    at most `1 + blocked` tokens) -/
def quiesce (up : List (EName × Bool)) : Nat → State → List (Op × Out) → State × List (Op × Out)
  | 0, s, acc => (s, acc.reverse)
  | fuel + 1, s, acc =>
    match (sortEps s.eps).find? EP.canFire with
    | none => (s, acc.reverse)
    | some e =>
      let h := (up.lookup e.name).getD false
      let op := Op.probeFire e.name h
      let r := step s op
      quiesce up fuel r.1 ((op, r.2) :: acc)

def fuelOf (s : State) : Nat := s.eps.foldl (fun n e => n + 2 + e.blocked) 1

def encodeFired (up : List (EName × Bool)) (tr : List (Op × Out)) : Json :=
  Json.arr (tr.filterMap fun p =>
    match p.2 with
    | .fired n g => some (J.obj [("n", J.hex n), ("gen", J.nat g), ("h", J.bool ((up.lookup n).getD false))])
    | _ => none).toArray

structure Acc where
  s : State
  low : List (Op × Out)        -- the model's low-level trace so far (reversed chunks appended)
  implLow : List (Op × Out)    -- the implementation's low-level trace so far
  implIdx : List Nat           -- for every low-level impl step, the harness op it belongs to
  outs : List Json

def decodeImplFired (j : Json) : Except String (List (Op × Out)) := do
  (← J.getArr j "fired").toList.mapM fun x => do
    let n ← J.getHex x "n"
    pure (Op.probeFire n (← decodeHealth x), Out.fired n (← J.getNat x "gen"))

def doRun (a : Json) : Except String Json := do
  let ops ← J.getArr a "ops"
  let impl : Option (Array Json) := match J.optObj a "impl" with
    | some i => i.getArr?.toOption
    | none => none
  -- does the code give every dispatch policy its own cursor scope? (observed by the harness on the real cursor keys)
  let policyScopes := (J.getBool a "policy_scopes").toOption.getD false
  let mut acc : Acc := { s := initScoped policyScopes, low := [], implLow := [], implIdx := [], outs := [] }
  let mut idx := 0
  for j in ops do
    let h ← decodeOp acc.s j
    let r := step acc.s h.op
    let q := quiesce h.up (fuelOf r.1) r.1 []
    let s' := q.1
    let out := J.obj [("out", encodeOut r.2), ("fired", encodeFired h.up q.2), ("eps", Json.arr ((sortEps s'.eps).map encodeEP).toArray),
                      ("lb", encodeLb s'.lb)]
    let mut implLow := acc.implLow
    let mut implIdx := acc.implIdx
    match impl with
    | some arr =>
      match arr[idx]? with
      | some ij =>
        let io ← decodeImplOut h.op (← J.getObj ij "out")
        let fired ← decodeImplFired ij
        implLow := implLow ++ ((h.op, io) :: fired)
        implIdx := implIdx ++ List.replicate (fired.length + 1) idx
      | none => pure ()
    | none => pure ()
    acc := { s := s', low := acc.low ++ ((h.op, r.2) :: q.2), implLow := implLow, implIdx := implIdx, outs := acc.outs ++ [out] }
    idx := idx + 1
  let modelOK := judgeTrace Abs.init acc.low
  let implBad : Json := match impl with
    | none => Json.null
    | some _ =>
      match firstBad Abs.init acc.implLow 0 with
      | none => Json.null
      | some i =>
        let at_ := (acc.implIdx[i]?).getD 0
        let what := match acc.implLow[i]? with
          | some (.probeFire _ _, _) => "probe"
          | some (.pop _, .popped (.picked _ _)) => "pick-unsound"
          | some (.pop _, .popped .noReady) => "pick-incomplete"
          | some (.pop _, _) => "pop"
          | some (.matchAttrs _ _, _) => "match"
          | _ => "other"
        J.obj [("at", J.nat at_), ("what", Json.str what)]
  -- the abstract view after the whole implementation trace (for reports)
  pure <| J.obj [("steps", Json.arr acc.outs.toArray), ("model_judge", J.bool modelOK), ("impl_bad", implBad)]

/-- `C03.healthy {code, body_ok}`: the model's decision for one probe answer -/
def doHealthy (a : Json) : Except String Json := do pure (J.bool (gatewayHealthCheck (← decodeAnswer a)))

def handle (m : String) (a : Json) : Option (Except String Json) :=
  match m with
  | "run" => some (doRun a)
  | "healthy" => some (doHealthy a)
  | _ => none

end KG.Driver.C03
