import KG.Base.Json
import KG.Model.Alloc
/-! Driver entry points for C07 (global allocation). -/
namespace KG.Driver.C07
open Lean KG KG.Model.Alloc

def decodeIn (a : Json) : Except String In := do
  pure { total := ← J.getInt a "total", totalBurst := ← J.getInt a "totalBurst", allocated := ← J.getInt a "allocated",
         upstreamLevel := ← J.getInt a "upstreamLevel", current := ← J.getInt a "current",
         recorded := ← J.getInt a "recorded", used := ← J.getInt a "used",
         level := ← J.getInt a "level", clients := ← J.getInt a "clients", tokenBucket := ← J.getBool a "tokenBucket" }

def encRes : Except Err (Int × Int) → Json
  | .ok (n, b) => J.obj [("next", J.int n), ("burst", J.int b)]
  | .error _ => J.obj [("panic", Json.str "integer divide by zero")]

/-- `C07.next`: the Float twin (compared with Go), the exact-arithmetic answer, and whether they differ
    (rounding-sensitive input; reported, never alarmed). -/
def doNext (a : Json) : Except String Json := do
  let i ← decodeIn a
  let f := calcNextQuota (F := Float) i
  let r := calcNextQuota (F := Rat) i
  pure <| J.obj [("float", encRes f), ("rat", encRes r)]

/-- `C07.judge {total,totalBurst,allocated,current,next,burst,tokenBucket}`: the theorems' conclusions as a decidable
    predicate evaluated on an observed answer: range, sum safety, no growth, burst bound. -/
def doJudge (a : Json) : Except String Json := do
  let T ← J.getInt a "total"; let B ← J.getInt a "totalBurst"; let A ← J.getInt a "allocated"
  let c ← J.getInt a "current"; let n ← J.getInt a "next"; let b ← J.getInt a "burst"
  let tb ← J.getBool a "tokenBucket"
  let range := decide (1 ≤ n) && decide (n ≤ T)
  let sumSafe := decide (T < A) || decide (n = 1) || decide (A - c + n ≤ T)
  let noGrowth := decide (A ≤ T) || decide (n = 1) || decide (n < c)
  let burstOk := !tb || (decide (b ≤ B) && decide (0 ≤ b))
  pure <| J.obj [("range", J.bool range), ("sumSafe", J.bool sumSafe), ("noGrowth", J.bool noGrowth),
                 ("burst", J.bool burstOk)]

def decodeOp (j : Json) : Except String HOp := do
  match ← J.getStr j "op" with
  | "report" =>
    let claim := match J.optObj j "claim" with
      | some v => v.getInt?.toOption
      | none => none
    pure (.report (← J.getNat j "i") claim (← J.getInt j "used") (← J.getInt j "level"))
  | "delete" => pure (.delete (← J.getNat j "i"))
  | "setLimit" => pure (.setLimit (← J.getInt j "t") (← J.getInt j "b"))
  | "clients" => pure (.clients (← J.getInt j "n"))
  | o => throw s!"unknown op {o}"

def digest (s : HSrv) : Json :=
  let qs := (s.insts.map fun x => (x.id, x.quota, x.burst)).toArray.qsort (fun a b => a.1 < b.1)
  J.obj [("recSum", J.int s.recSum), ("recLevel", J.int s.recLevel),
         ("quotas", Json.arr (qs.map fun (i, q, b) => Json.arr #[J.nat i, J.int q, J.int b]))]

/-- `C07.history {total,totalBurst,tokenBucket,clients,ops}`: per op the answer and the recorded state afterwards,
    plus the invariant judge (`invB`, proved equivalent to `Props.C07.Inv`) on the model's own state. -/
def doHistory (a : Json) : Except String Json := do
  let ops ← (← J.getArr a "ops").toList.mapM decodeOp
  let mut s : HSrv := { total := ← J.getInt a "total", totalBurst := ← J.getInt a "totalBurst",
                        tokenBucket := ← J.getBool a "tokenBucket", recSum := 0, recLevel := 0,
                        clients := ← J.getInt a "clients", insts := [] }
  let mut outs : Array Json := #[]
  for op in ops do
    match hstep s op with
    | .error _ =>
      outs := outs.push (J.obj [("panic", Json.str "integer divide by zero")])
    | .ok (s', out) =>
      s := s'
      let o := match out with
        | some (n, b) => J.obj [("next", J.int n), ("burst", J.int b), ("state", digest s)]
        | none => J.obj [("state", digest s)]
      outs := outs.push o
  pure (Json.arr outs)

/-- `C07.inv {total,recSum,quotas:[[i,q],…]}`: the history invariant on an observed recorded state -/
def doInv (a : Json) : Except String Json := do
  let qs ← (← J.getArr a "quotas").toList.mapM fun p => do
    let arr ← p.getArr?
    match arr.toList with
    | [i, q] => pure ((← i.getNat?), (← q.getInt?))
    | _ => throw "bad quota pair"
  pure (J.bool (invB { total := ← J.getInt a "total", recSum := ← J.getInt a "recSum", quotas := qs }))

def handle (m : String) (a : Json) : Option (Except String Json) :=
  match m with
  | "next" => some (doNext a)
  | "judge" => some (doJudge a)
  | "history" => some (doHistory a)
  | "inv" => some (doInv a)
  | _ => none

end KG.Driver.C07
