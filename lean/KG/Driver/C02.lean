import KG.Base.Json
import KG.Model.Identity
import KG.Spec.Identity
/-! Driver entry points for property C02: `C02.run` runs the model of one request through the gateway, the
    declarative expectation, and the judge on the model's output and (if given) on the implementation's output. -/
namespace KG.Driver.C02
open Lean KG KG.Model.Identity KG.Spec.Identity

def decodeIdentityJson (j : Json) : Except String Identity := do
  let name ← J.getHex j "name"
  let groups ← J.getHexList j "groups"
  let extra ← (← J.getArr j "extra").toList.mapM fun e => do
    let k ← J.getHex e "k"
    let v ← J.getHexList e "v"
    pure (k, v)
  pure ⟨name, groups, extra⟩

def encodeIdentity (i : Identity) : Json :=
  J.obj [("name", J.hex i.name), ("groups", J.hexList i.groups),
         ("extra", Json.arr (i.extra.map fun e => J.obj [("k", J.hex e.1), ("v", J.hexList e.2)]).toArray)]

def decodeLines (j : Json) (k : String) : Except String (List (Str × Str)) := do
  (← J.getArr j k).toList.mapM fun e => do
    let n ← J.getHex e "n"
    let v ← J.getHex e "v"
    pure (n, v)

/-- header entries flattened to (name, value) pairs, in entry order -/
def encodeHeaders (h : Headers) : Json :=
  Json.arr (h.flatMap fun e => e.2.map fun v => J.obj [("n", J.hex e.1), ("v", J.hex v)]).toArray

def encodeAttrs (a : Attrs) : Json :=
  J.obj [("grp", J.hex a.apiGroup), ("res", J.hex a.resource), ("sub", J.hex a.subresource), ("ns", J.hex a.ns),
         ("name", J.hex a.name)]

def decodeDecision : String → Except String Decision
  | "allow" => pure .allow
  | "deny" => pure .deny
  | "noopinion" => pure .noOpinion
  | "error" => pure .error
  | "error403" => pure .error
  | s => throw s!"bad decision {s}"

/-- the scripted policy: `{"default": d, "deny": [{grp,res,sub,ns,name,d}…]}` — the first rule whose five attributes equal the
    record decides, else the default (`allow` when absent) -/
def decodeAz (j : Json) : Except String (Attrs → Decision) := do
  let rules ← (← J.getArr j "deny").toList.mapM fun e => do
    let grp ← J.getHex e "grp"
    let res ← J.getHex e "res"
    let sub ← J.getHex e "sub"
    let ns ← J.getHex e "ns"
    let name ← J.getHex e "name"
    let d ← decodeDecision (← J.getStr e "d")
    pure ((⟨grp, res, sub, ns, name⟩ : Attrs), d)
  let dflt ← match j.getObjVal? "default" with
    | .ok (.str d) => decodeDecision d
    | _ => pure Decision.allow
  pure fun a => match rules.find? (fun r => r.1 == a) with
    | some r => r.2
    | none => dflt

def outcomeName : Outcome → String
  | .badRequest => "badRequest"
  | .unauthorized => "unauthorized"
  | .internalError => "internalError"
  | .forbidden => "forbidden"
  | .transportRefused => "transportRefused"
  | .valueRefused => "valueRefused"
  | .upstreamRefused => "upstreamRefused"
  | .forwarded _ _ => "forwarded"

def identityPart (h : Headers) : Headers := h.filter (fun e => isIdentityName e.1)

def doRun (a : Json) : Except String Json := do
  let token ← J.getHex a "token"
  let raw ← decodeLines a "client"
  let auth ← match J.optObj a "user" with
    | none => pure none
    | some j => do pure (some (← decodeIdentityJson j))
  let az ← decodeAz a
  let upgrade ← J.getBool a "upgrade"
  let out := serve token raw auth az upgrade
  let exp := expectedFor raw auth az
  let modelUpstream : List Headers := match out with
    | .forwarded recv _ => [recv]
    | _ => []
  let (recvJ, ctxJ) := match out with
    | .forwarded recv u => (encodeHeaders (identityPart recv), encodeIdentity u)
    | _ => (Json.arr #[], Json.null)
  -- the records the TARGET CLUSTER is asked about (as the SubjectAccessReview carries them); none when the review cannot be
  -- sent for this requestor
  let calls : List ImpReq := match parse raw, auth with
    | some h, some u => if (wrapRequest [] u).isNone then [] else (buildImpersonationRequests (authnStrip h)).getD []
    | _, _ => []
  let expJ := match exp with
    | .answered s => J.obj [("kind", Json.str "answered"), ("status", J.nat s)]
    | .forward id => J.obj [("kind", Json.str "forward"), ("id", encodeIdentity id),
        ("carried", J.bool (valuesCarried upgrade id))]
  let judgeImpl ← match J.optObj a "observed" with
    | none => pure Json.null
    | some o => do
      let ups ← (← J.getArr o "upstream").toList.mapM fun u => do
        let lines ← u.getArr?
        lines.toList.mapM fun e => do
          let n ← J.getHex e "n"
          let v ← J.getHex e "v"
          pure (n, [v])
      pure (Json.arr ((judgeCluster token upgrade raw auth az ups).map fun c => Json.str c.name).toArray)
  pure <| J.obj [
    ("outcome", Json.str (outcomeName out)),
    ("recv", recvJ),
    ("ctxUser", ctxJ),
    ("calls", Json.arr (calls.map fun r => encodeAttrs (jsonAttrs (attrsFor r))).toArray),
    ("recordsCarried", J.bool (recordsCarried raw)),
    ("required", Json.arr ((if impersonationRequested raw && !malformed raw then requiredRecords raw else []).map encodeAttrs).toArray),
    ("expect", expJ),
    ("impRequested", J.bool (impersonationRequested raw)),
    ("judgeModel", Json.arr ((judgeCluster token upgrade raw auth az modelUpstream).map fun c => Json.str c.name).toArray),
    ("judgeImpl", judgeImpl)]

/-- `C02.escape {key}`: `headerKeyEscape`, and what the upstream decodes from the canonicalised header name -/
def doEscape (a : Json) : Except String Json := do
  let k ← J.getHex a "key"
  let e := headerKeyEscape k
  let name := canonicalKey (hImpExtraPrefix ++ e)
  pure <| J.obj [("escaped", J.hex e), ("header", J.hex name), ("valid", J.bool (validName name)),
    ("decoded", J.hex (unescapeExtraKey (toLower (name.drop hImpExtraPrefix.length)))),
    ("unescaped", match pathUnescape e with | some x => J.hex x | none => Json.null)]

/-- `C02.json {s}`: the string as a JSON round trip carries it -/
def doJson (a : Json) : Except String Json := do
  let x ← J.getHex a "s"
  pure <| J.obj [("carried", J.hex (jsonCarried x))]

/-- `handle method args`: `none` when the method is unknown. -/
def handle (m : String) (a : Json) : Option (Except String Json) :=
  match m with
  | "run" => some (doRun a)
  | "escape" => some (doEscape a)
  | "json" => some (doJson a)
  | _ => none

end KG.Driver.C02
