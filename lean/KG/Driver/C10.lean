import KG.Base.Json
import KG.Spec.Names
/-!
Driver entry points for C10 (tenant resolution).

* `C10.run`   — runs the model on a whole history (lister writes and handler invocations) and reports, after
  every step, the manager state, the resolution of every probe host, the TLS material per SNI, the verify
  options per host, and the judge evaluated on the model's own states.
* `C10.judge` — evaluates the same judge (`KG.Spec.Names.invB/stepB/mirrorB/servedB`, `tlsSpec`, `verifySpec`)
  on the states OBSERVED ON THE REAL CONTROLLER, and `midB` on the key maps observed after EVERY manager write
  the real handler performs (the states a concurrent reader can see during an event).
* `C10.hwp`   — `HostWithoutPort` on a list of strings.

`strings.ToLower`: ASCII lower-casing, overridden by the table `lower` (pairs computed by Go) for the
non-ASCII stream.
-/
namespace KG.Driver.C10
open Lean KG KG.Model.Names KG.Spec.Names

def mkLower (tbl : List (Str × Str)) (s : Str) : Str :=
  match tbl.lookup s with
  | some t => t
  | none => asciiLower s

def decodeLower (a : Json) : Except String (Str → Str) := do
  match J.optObj a "lower" with
  | none => pure asciiLower
  | some t =>
    let arr ← t.getArr?
    let pairs ← arr.toList.mapM fun p => do
      let l ← p.getArr?
      match l.toList with
      | [x, y] => pure ((← J.asHex x), (← J.asHex y))
      | _ => throw "lower: pair expected"
    pure (mkLower pairs)

def optNat (j : Json) (k : String) : Except String (Option Nat) := do
  let i ← J.getInt j k
  pure (if i < 0 then none else some i.toNat)

def encOptNat : Option Nat → Json
  | none => J.int (-1)
  | some n => J.nat n

def decodeSpec (j : Json) : Except String Spec := do
  -- `failendpoints` (corpus only): Sync fails on this object in syncEndpoints — for C10 the same as `bad`
  let fe := (J.getBool j "failendpoints").toOption.getD false
  -- `half`: only the certificate or only the key of the pair is in the object: nothing can be served from it
  let half := ((J.getStr j "half").toOption.getD "") != ""
  let cert ← optNat j "cert"
  pure { aliases := ← J.getHexList j "aliases", cert := if half then none else cert, ca := ← optNat j "ca",
         bad := (← J.getBool j "bad") || fe }

def decodeStep (j : Json) : Except String Step := do
  let k ← J.getStr j "k"
  let name ← J.getHex j "name"
  match k with
  | "set" => pure (.set name (← decodeSpec (← J.getObj j "spec")))
  | "unset" => pure (.unset name)
  | "sync" => pure (.sync name)
  | _ => throw s!"unknown step kind {k}"

def decodeTLS (j : Json) : Except String TLS := do
  pure { cert := ← optNat j "cert", ca := ← optNat j "ca", requestClientCert := ← J.getBool j "auth" }

def decodeTLSArr (j : Json) : Except String TLS := do
  match (← j.getArr?).toList with
  | [c, a, r] =>
    let ci ← c.getInt?
    let ai ← a.getInt?
    pure { cert := if ci < 0 then none else some ci.toNat, ca := if ai < 0 then none else some ai.toNat,
           requestClientCert := ← r.getBool? }
  | _ => throw "tls triple expected"

def encTLS (t : TLS) : Json := Json.arr #[encOptNat t.cert, encOptNat t.ca, J.bool t.requestClientCert]

def dedup : List Str → List Str → List Str
  | [], _ => []
  | k :: rest, seen => if k ∈ seen then dedup rest seen else k :: dedup rest (k :: seen)

def encState (lower : Str → Str) (m : Mgr) : Json :=
  let keys := dedup (m.map.map (·.1)) []
  J.obj [
    ("keys", Json.arr (keys.map fun k => Json.arr #[J.hex k, encOptNat (m.look k)]).toArray),
    ("infos", Json.arr (m.heap.map fun ci =>
        J.obj [("cluster", J.hex ci.cluster), ("aliases", J.hexList (ci.aliases.map lower)),
               ("cert", encOptNat ci.cert), ("ca", encOptNat ci.ca)]).toArray),
    ("stopped", Json.arr ((List.range m.heap.length).filter (fun p => decide (p ∈ m.stopped)) |>.map J.nat).toArray)]

def encKeys (m : Mgr) : Json :=
  let keys := dedup (m.map.map (·.1)) []
  Json.arr (keys.map fun k => Json.arr #[J.hex k, encOptNat (m.look k)]).toArray

def decodeKeys (j : Json) : Except String (List (Str × Nat)) := do
  (← j.getArr?).toList.mapM fun e => do
    match (← e.getArr?).toList with
    | [k, p] => pure ((← J.asHex k), (← p.getNat?))
    | _ => throw "mid: key pair expected"

def decodeState (j : Json) : Except String Mgr := do
  let keys ← (← J.getArr j "keys").toList.mapM fun e => do
    match (← e.getArr?).toList with
    | [k, p] => pure ((← J.asHex k), (← p.getNat?))
    | _ => throw "state: key pair expected"
  let infos ← (← J.getArr j "infos").toList.mapM fun e => do
    pure ({ cluster := ← J.getHex e "cluster", aliases := ← J.getHexList e "aliases",
            cert := ← optNat e "cert", ca := ← optNat e "ca" } : CI)
  let stopped ← (← J.getArr j "stopped").toList.mapM (·.getNat?)
  pure { heap := infos, stopped := stopped, map := keys }

/-- the hostname `WrapGetConfigForClient` looks up -/
def tlsExpect (lower : Str → Str) (m : Mgr) (base : TLS) (sni localAddr : Str) : TLS :=
  let hostname? := if sni.isEmpty then splitHostPort localAddr else some sni
  match hostname? with
  | none => base
  | some h => tlsSpec lower m base h

def ptrOf (r : Option (Nat × CI)) : Json := encOptNat (r.map (·.1))

structure Env where
  lower : Str → Str
  probes : List Str
  snis : List Str
  localAddr : Str
  base : TLS

def decodeEnv (a : Json) : Except String Env := do
  pure { lower := ← decodeLower a, probes := ← J.getHexList a "probes", snis := ← J.getHexList a "snis",
         localAddr := ← J.getHex a "localAddr", base := ← decodeTLS (← J.getObj a "base") }

def doRun (a : Json) : Except String Json := do
  let env ← decodeEnv a
  let lower := env.lower
  let steps ← (← J.getArr a "steps").toList.mapM decodeStep
  let rec go (w : World) (ss : List Step) (acc : Array Json) : Array Json :=
    match ss with
    | [] => acc
    | s :: rest =>
      let (w', out) := w.step lower s
      let m := w.mgr
      let m' := w'.mgr
      let (admitted, why) : Bool × String := match s with
        | .set n sp => (pluginAdmits lower w.lister n sp, if unchangedB m m' then "" else "lister-write-changed")
        | .unset _ => (true, if unchangedB m m' then "" else "lister-write-changed")
        | .sync n =>
          (true, stepWhy lower (lower n) (w.lister.get n) (out.map (·.requeue) |>.getD false) m m')
      let j := J.obj [
        ("out", Json.str (match out with | some o => o.toString | none => "")),
        ("requeue", J.bool (out.map (·.requeue) |>.getD false)),
        ("admitted", J.bool admitted),
        ("state", encState lower m'),
        ("mid", Json.arr ((match s with
            | .sync n => syncTrace lower m n (w.lister.get n)
            | _ => []).map encKeys).toArray),
        ("get", Json.arr (env.probes.map fun h => ptrOf (m'.get lower h)).toArray),
        ("req", Json.arr (env.probes.map fun h => ptrOf (resolve lower m' h)).toArray),
        ("tls", Json.arr (env.snis.map fun h => encTLS (wrapGetConfigForClient lower m' env.base h env.localAddr)).toArray),
        ("verify", Json.arr (env.probes.map fun h => encOptNat (sniVerifyOptions lower m' h)).toArray),
        ("inv", J.bool (invB lower m')),
        ("step", Json.str why),
        ("mirror", J.bool (mirrorB lower w'.lister m' && servedB lower w'.lister m' env.probes))]
      go w' rest (acc.push j)
  pure <| J.obj [
    ("hwp", J.hexList (env.probes.map (hostWithoutPort lower))),
    ("steps", Json.arr (go World.init steps #[]))]

/-- the judge on implementation states -/
def doJudge (a : Json) : Except String Json := do
  let env ← decodeEnv a
  let lower := env.lower
  let steps ← (← J.getArr a "steps").toList.mapM decodeStep
  let obs := (← J.getArr a "obs").toList
  -- `settled`: per step, whether the history is admissible and every lister write so far has been synced
  let settled ← (← J.getArr a "settled").toList.mapM (·.getBool?)
  if obs.length ≠ steps.length ∨ settled.length ≠ steps.length then throw "obs/settled length"
  let rec go (i : Nat) (lister : Lister) (m : Mgr) (ss : List (Step × Json × Bool)) : Except String Json :=
    match ss with
    | [] => pure (J.obj [("fail", Json.str "")])
    | (s, o, st) :: rest => do
      let m' ← decodeState (← J.getObj o "state")
      let mids ← (← J.getArr o "mid").toList.mapM decodeKeys
      let requeue ← J.getBool o "requeue"
      let tls ← (← J.getArr o "tls").toList.mapM decodeTLSArr
      let verify ← (← J.getArr o "verify").toList.mapM fun v => do
        let i ← v.getInt?
        pure (if i < 0 then none else some i.toNat)
      let req ← (← J.getArr o "req").toList.mapM fun v => do
        let i ← v.getInt?
        pure (if i < 0 then none else some i.toNat)
      let lister' := match s with
        | .set n sp => lister.set n sp
        | .unset n => lister.unset n
        | .sync _ => lister
      let fail (why : String) : Except String Json :=
        pure (J.obj [("fail", Json.str why), ("step", J.nat i)])
      let why := match s with
        | .sync n => stepWhy lower (lower n) (lister.get n) requeue m m'
        | _ => if unchangedB m m' then "" else "lister-write-changed"
      if !(mids.all fun ks => midB m m' { heap := m'.heap, stopped := [], map := ks }) then fail "mid-event"
      else if !invB lower m' then fail "inv"
      else if why ≠ "" then fail why
      else if req ≠ env.probes.map (fun h => (resolve lower m' h).map (·.1)) then fail "request-resolution"
      else if tls ≠ env.snis.map (fun h => tlsExpect lower m' env.base h env.localAddr) then fail "tls"
      else if verify ≠ env.probes.map (fun h => verifySpec lower m' h) then fail "verify"
      else if st && requeue then fail "admissible-refused"
      else if st && !(mirrorB lower lister' m') then fail "mirror"
      else if st && !(servedB lower lister' m' env.probes) then fail "served"
      else go (i + 1) lister' m' rest
  go 0 [] Mgr.init (steps.zip (obs.zip settled))

/-- `C10.auth`: exchanges through the shipped authentication / TLS wiring in the final state of a history
    (`steps`), or in an OBSERVED state (`state`, then `steps` only provides the lister for the mirror judge). -/
def doAuth (a : Json) : Except String Json := do
  let lower ← decodeLower a
  let steps ← (← J.getArr a "steps").toList.mapM decodeStep
  let base ← decodeTLS (← J.getObj a "base")
  let localAddr ← J.getHex a "localAddr"
  let cp ← optNat a "cp"
  let w := World.run lower World.init steps
  let m ← match J.optObj a "state" with
    | some st => decodeState st
    | none => pure w.mgr
  let reqs ← (← J.getArr a "reqs").toList.mapM fun r => do
    match (← r.getArr?).toList with
    | [s, h, c] =>
      let ci ← c.getInt?
      pure ((← J.asHex s), (← J.asHex h), (if ci < 0 then none else some ci.toNat))
    | _ => throw "req triple expected"
  let res := reqs.map fun (s, h, c) => wiredExchange lower m base cp true s localAddr h c
  pure <| J.obj [
    ("state", encState lower m),
    ("out", Json.arr (res.map fun r => Json.str r.2.toString).toArray),
    ("tls", Json.arr (res.map fun r => encTLS r.1).toArray),
    ("inv", J.bool (invB lower m)),
    ("mirror", J.bool (mirrorB lower w.lister m))]

/-- `C10.invariant`: the state invariant on an observed state (run-loop cases, judged at quiescence) -/
def doInvariant (a : Json) : Except String Json := do
  let lower ← decodeLower a
  let m ← decodeState (← J.getObj a "state")
  pure (J.obj [("inv", J.bool (invB lower m))])

def doHwp (a : Json) : Except String Json := do
  let lower ← decodeLower a
  let hs ← J.getHexList a "hosts"
  pure (J.hexList (hs.map (hostWithoutPort lower)))

def handle (m : String) (a : Json) : Option (Except String Json) :=
  match m with
  | "run" => some (doRun a)
  | "judge" => some (doJudge a)
  | "hwp" => some (doHwp a)
  | "auth" => some (doAuth a)
  | "invariant" => some (doInvariant a)
  | _ => none

end KG.Driver.C10
