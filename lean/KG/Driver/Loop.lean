import KG.Base.Json
/-! The line loop shared by every model driver: one JSON request per line on stdin
    (`{"m":"C07.next","a":{…}}`), one JSON reply per line on stdout: `{"ok":…}` or `{"err":"…"}`.
    Stateless: a request carries a whole case. -/
namespace KG.Driver
open Lean

abbrev Handler := String → Json → Option (Except String Json)

def dispatch (hs : List (String × Handler)) (m : String) (a : Json) : Except String Json :=
  let p := (m.take 3).toString
  let rest := (m.drop 4).toString
  match hs.lookup p with
  | none => .error s!"unknown method {m}"
  | some h =>
    match h rest a with
    | some x => x
    | none => .error s!"unknown method {m}"

def reply (hs : List (String × Handler)) (line : String) : String :=
  match Json.parse line with
  | .error e => (Json.mkObj [("err", Json.str s!"parse: {e}")]).compress
  | .ok j =>
    match j.getObjVal? "m" >>= (·.getStr?) with
    | .error e => (Json.mkObj [("err", Json.str e)]).compress
    | .ok m =>
      let a := (j.getObjVal? "a").toOption.getD Json.null
      match dispatch hs m a with
      | .ok v => (Json.mkObj [("ok", v)]).compress
      | .error e => (Json.mkObj [("err", Json.str e)]).compress

partial def loop (hs : List (String × Handler)) (hin hout : IO.FS.Stream) : IO Unit := do
  let line ← hin.getLine
  if line.isEmpty then return ()
  hout.putStrLn (reply hs line)
  hout.flush
  loop hs hin hout

def runLoop (hs : List (String × Handler)) : IO Unit := do
  loop hs (← IO.getStdin) (← IO.getStdout)

end KG.Driver
