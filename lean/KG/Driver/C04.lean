import KG.Base.Json
import KG.Spec.Forward
/-! Driver entry points for property C04. Byte strings travel as hex.

* `C04.url {target}`: the request target the transport writes (model), plus the judges on the model's own output.
* `C04.forward {req, closeIdle, up}`: the model's upstream request and client response (canonicalised).
* `C04.judge {req, closeIdle, up, seenUp, seenClient}`: the judges of `KG.Spec.Forward` on what the REAL upstream / client observed.
* `C04.decide {scenario}`: the model's outcome (`serve`) and the closed-form table.
* `C04.judgeTerm {scenario, obs}`: the judges for a gateway-terminated answer on a real observation. -/
namespace KG.Driver.C04
open Lean KG KG.Model.Forward KG.Spec.Forward

def decodeLines (j : Json) (k : String) : Except String (List (Str × Str)) := do
  (← J.getArr j k).toList.mapM fun e => do
    match (← e.getArr?).toList with
    | [a, b] => pure (← J.asHex a, ← J.asHex b)
    | _ => throw "header line is not a pair"

def decodeHdr (j : Json) (k : String) : Except String Hdr := do
  (← J.getArr j k).toList.mapM fun e => do
    pure (← J.getHex e "name", ← J.getHexList e "values")

def encodeHdr (h : Hdr) : Json :=
  Json.arr (h.map fun e => J.obj [("name", J.hex e.1), ("values", J.hexList e.2)]).toArray

def decodeReq (j : Json) : Except String Req := do
  let ip ← J.getHex j "ip"
  pure { method := ← J.getHex j "method", target := ← J.getHex j "target", host := ← J.getHex j "host",
         lines := ← decodeLines j "lines", body := ← J.getHex j "body",
         remoteIP := if ip = [] then none else some ip }

def encodeUpReq (lines : List (Str × Str)) (u : UpReq) : Json :=
  J.obj [("method", J.hex u.method), ("target", J.hex u.target), ("host", J.hex u.host),
         ("headers", encodeHdr (canonReqHeaders lines u.headers)), ("body", J.hex u.body)]

def decodeUpReq (j : Json) : Except String UpReq := do
  pure { method := ← J.getHex j "method", target := ← J.getHex j "target", host := ← J.getHex j "host",
         headers := ← decodeHdr j "headers", body := ← J.getHex j "body" }

def encodeReqVerdict (v : ReqVerdict) : Json :=
  J.obj [("method", J.bool v.method), ("host", J.bool v.host), ("body", J.bool v.body), ("pathExact", J.bool v.pathExact),
         ("pathDecoded", J.bool v.pathDecoded), ("pathNorm", J.bool v.pathNorm), ("query", J.bool v.query),
         ("headers", J.bool v.headers)]

def encodeRespVerdict (v : RespVerdict) : Json :=
  J.obj [("status", J.bool v.status), ("body", J.bool v.body), ("headers", J.bool v.headers)]

def optStr : Option Str → Json
  | some s => J.hex s
  | none => Json.null

/-- pieces of the URL pipeline, for the fast pure stream -/
def doUrl (a : Json) : Except String Json := do
  let t ← J.getHex a "target"
  let p := (cut 63 t).1
  let q := (cut 63 t).2
  let out := targetPipeline t
  let pairs := parseQuery q
  pure <| J.obj [
    ("out", optStr out),
    ("path", optStr (setPath p |>.map (·.path))),
    ("rawPath", optStr (setPath p |>.map (·.rawPath))),
    ("valid", J.bool (validEncoded p)),
    ("query", J.hex (encodeQuery pairs)),
    ("pairs", Json.arr (pairs.map fun e => Json.arr #[J.hex e.1, J.hex e.2]).toArray),
    ("pathExact", J.bool (match out with | some o => targetOK pathExact t o | none => true)),
    ("pathDecoded", J.bool (match out with | some o => targetOK pathDecoded t o | none => true)),
    ("pathNorm", J.bool (match out with | some o => targetOK pathNorm t o | none => true)),
    ("queryOK", J.bool (match out with | some o => queryOK q (cut 63 o).2 | none => true))]

def doForward (a : Json) : Except String Json := do
  let r ← decodeReq (← J.getObj a "req")
  let closeIdle ← J.getBool a "closeIdle"
  let up ← J.getObj a "up"
  let upStatus ← J.getNat up "status"
  let upLines ← decodeLines up "lines"
  let upBody ← J.getHex up "body"
  let h0 := afterAuthentication (parseHeaders r.lines)
  let upgrade := isUpgradeRequest h0
  match forwardRequest r with
  | none => pure <| J.obj [("accepted", J.bool false), ("upgrade", J.bool upgrade)]
  | some u =>
    -- when the upstream writes (ms); absent = at once. The deadlines are the code's, read off the regenerated transport literal
    let timing : Timing := match J.optObj up "timing" with
      | some tj => { beforeStatus := (J.getNat tj "beforeStatus").toOption.getD 0, beforeBody := (J.getNat tj "beforeBody").toOption.getD 0,
                     gaps := ((J.getIntList tj "gaps").toOption.getD []).map Int.toNat }
      | none => ⟨0, 0, []⟩
    let (resp, gatewayError) := match relayTimed codeDeadlines timing closeIdle upStatus upLines upBody with
      | .relayed r => (r, false)
      | .gatewayError => (({ status := 502, headers := [], body := [] } : Resp), true)
    let upParsed := upstreamResponseHeaders upLines
    let canonU : UpReq := { u with headers := canonReqHeaders r.lines u.headers }
    let canonR : Resp := { resp with headers := canonRespHeaders upStatus upParsed resp.headers }
    pure <| J.obj [
      ("accepted", J.bool true), ("upgrade", J.bool upgrade), ("gatewayError", J.bool gatewayError),
      ("upgradeType", J.hex (upgradeType (director h0))),
      ("up", encodeUpReq r.lines u),
      ("client", J.obj [("status", J.nat resp.status), ("headers", encodeHdr canonR.headers), ("body", J.hex resp.body)]),
      ("reqVerdict", encodeReqVerdict (reqVerdict r canonU)),
      ("respVerdict", encodeRespVerdict (respVerdict closeIdle upStatus upLines upBody canonR))]

def doJudge (a : Json) : Except String Json := do
  let r ← decodeReq (← J.getObj a "req")
  let closeIdle ← J.getBool a "closeIdle"
  let up ← J.getObj a "up"
  let upStatus ← J.getNat up "status"
  let upLines ← decodeLines up "lines"
  let upBody ← J.getHex up "body"
  let seenUp ← decodeUpReq (← J.getObj a "seenUp")
  let sc ← J.getObj a "seenClient"
  let client : Resp := { status := ← J.getNat sc "status", headers := ← decodeHdr sc "headers", body := ← J.getHex sc "body" }
  pure <| J.obj [("req", encodeReqVerdict (reqVerdict r seenUp)),
                 ("pathKnownReencoding", J.bool (targetOK pathKnownReencoding r.target seenUp.target)),
                 ("resp", encodeRespVerdict (respVerdict closeIdle upStatus upLines upBody client))]

def decodeImp (s : String) : Except String Imp :=
  match s with
  | "none" => pure .none
  | "malformed" => pure .malformed
  | "refused" => pure .refused
  | "allowed" => pure .allowed
  | _ => throw s!"unknown impersonation kind {s}"

def decodeScenario (j : Json) : Except String Scenario := do
  pure { requestInfoOK := ← J.getBool j "requestInfoOK", hostIsIP := ← J.getBool j "hostIsIP", clusterKnown := ← J.getBool j "clusterKnown", denyAll := ← J.getBool j "denyAll",
         authOK := ← J.getBool j "authOK", imp := ← decodeImp (← J.getStr j "imp"), policyMatches := ← J.getBool j "policyMatches",
         acquireOK := ← J.getBool j "acquireOK", resource := ← J.getHex j "resource", popOK := ← J.getBool j "popOK" }

def optNat : Option Nat → Json
  | some n => J.nat n
  | none => J.int (-1)

def encodeOutcome : Outcome → Json
  | .notProxied => J.obj [("kind", Json.str "notProxied")]
  | .forward => J.obj [("kind", Json.str "forward")]
  | .terminated a => J.obj [("kind", Json.str "terminated"), ("code", J.nat a.httpCode), ("retryAfter", optNat a.retryAfter),
                            ("reason", J.hex a.body.reason), ("statusCode", J.nat a.body.code)]

def doDecide (a : Json) : Except String Json := do
  let s ← decodeScenario (← J.getObj a "scenario")
  pure <| J.obj [("outcome", encodeOutcome (serve s)), ("table", encodeOutcome (table s))]

def decodeObs (j : Json) : Except String TermObs := do
  let ra ← J.getInt j "retryAfter"
  pure { httpCode := ← J.getNat j "httpCode", retryAfter := if ra < 0 then none else some ra.toNat,
         isStatus := ← J.getBool j "isStatus",
         body := ⟨← J.getHex j "kind", ← J.getHex j "apiVersion", ← J.getHex j "status", ← J.getHex j "reason", ← J.getNat j "code"⟩,
         upstreamRequests := ← J.getNat j "upstreamRequests", upstreamBytes := ← J.getNat j "upstreamBytes" }

def doJudgeTerm (a : Json) : Except String Json := do
  let s ← decodeScenario (← J.getObj a "scenario")
  let o ← decodeObs (← J.getObj a "obs")
  let out := serve s
  let row := match out with
    | .terminated ans => matchesRow ans o
    | _ => false
  let flowControlled := s.requestInfoOK && !s.hostIsIP && s.clusterKnown && !s.denyAll && s.authOK
    && (s.imp == .none || s.imp == .allowed) && s.policyMatches && !s.acquireOK
  pure <| J.obj [("outcome", encodeOutcome out), ("wellFormed", J.bool (wellFormed o)), ("matchesRow", J.bool row),
                 ("retryAfterDemanded", J.bool (retryAfterDemanded o flowControlled s.resource))]

def encodeMs (l : List (String × Nat)) : Json :=
  Json.arr (l.map fun e => J.obj [("name", Json.str e.1), ("ms", J.nat e.2)]).toArray

/-- the regenerated time-out constants of the transport / rest config (the harness makes its delays straddle them) and what the
    model makes of them -/
def doDeadlines (_ : Json) : Except String Json :=
  pure <| J.obj [
    ("transport", encodeMs Gen.C04.transportDurationsMs),
    ("fallbackDialer", encodeMs Gen.C04.fallbackDialerMs),
    ("restConfig", encodeMs Gen.C04.restConfigDurationsMs),
    ("restDialer", encodeMs Gen.C04.restDialerMs),
    ("responseHeaderMs", match codeDeadlines.responseHeader with | some d => J.int d | none => J.int (-1))]

def handle (m : String) (a : Json) : Option (Except String Json) :=
  match m with
  | "url" => some (doUrl a)
  | "forward" => some (doForward a)
  | "judge" => some (doJudge a)
  | "decide" => some (doDecide a)
  | "judgeTerm" => some (doJudgeTerm a)
  | "deadlines" => some (doDeadlines a)
  | _ => none

end KG.Driver.C04
