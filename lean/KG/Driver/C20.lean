import KG.Base.Json
import KG.Spec.Strategy
import KG.Gen.C20
/-!
Driver entry points for C20. Field groups travel as hex strings (the harness' canonical renderings of the Go
value); generation as a JSON integer. For `C20.op` spec and annotations travel twice: `spec`/`annotations` is
the `DeepEqual`-faithful rendering (the value itself: nil and empty differ), `specSem`/`annotationsSem` the
rendering under which `apiequality.Semantic.DeepEqual` compares (the model's `Sem`). `C20.judge` gets every
group in the API's view.

* `C20.op {op:"create"|"main"|"status"|"delete" (with deleteKeeps, deleteBumps), reg:{hasMeta,hasSpec,hasStatus,subStatus,optSubStatus}, metaValid,
  zero, stored: obj|null, submitted: obj}` → `{rej, out, created}`: one API request against the stored state
  (`apiStep` for the request kinds the harness sends).
* `C20.judge {op, served, zero, stored, out}` → `{violations:[…], statusAnnotationsOnly}`: the property's
  clauses on an observed (stored, result) pair.
* `C20.registrations` → the regenerated list of registered kinds.
-/
namespace KG.Driver.C20
open Lean KG KG.Model.Strategy KG.Spec.Strategy

/-- a decoded value together with its semantic rendering -/
abbrev V := Str × Str
abbrev O := Obj Str V Unit V Str
/-- an object in the API's view (the judge's input) -/
abbrev OV := Obj Str Str Unit Str Str

def sem : Sem V V Str Str := { annotations := (·.2), spec := (·.2) }

def decodeObj (j : Json) : Except String O := do
  pure { labels := ← J.getHex j "labels",
         annotations := (← J.getHex j "annotations", ← J.getHex j "annotationsSem"),
         generation := ← J.getInt j "generation", otherMeta := (),
         spec := (← J.getHex j "spec", ← J.getHex j "specSem"), status := ← J.getHex j "status" }

def encodeObj (o : O) : Json :=
  J.obj [("labels", J.hex o.labels), ("annotations", J.hex o.annotations.1), ("annotationsSem", J.hex o.annotations.2),
         ("generation", J.int o.generation), ("spec", J.hex o.spec.1), ("specSem", J.hex o.spec.2),
         ("status", J.hex o.status)]

def decodeView (j : Json) : Except String OV := do
  pure { labels := ← J.getHex j "labels", annotations := ← J.getHex j "annotations",
         generation := ← J.getInt j "generation", otherMeta := (),
         spec := ← J.getHex j "spec", status := ← J.getHex j "status" }

def decodeReg (j : Json) : Except String Reg := do
  pure { shape := { hasMeta := ← J.getBool j "hasMeta", hasSpec := ← J.getBool j "hasSpec", hasStatus := ← J.getBool j "hasStatus" },
         subStatus := ← J.getBool j "subStatus", optSubStatus := ← J.getBool j "optSubStatus" }

def rejName : Reject → String
  | .internal => "internal"
  | .invalid => "invalid"
  | .notServed => "notServed"

def answer (created : Bool) : Except Reject O → Json
  | .ok o => J.obj [("rej", Json.str ""), ("out", encodeObj o), ("created", J.bool created)]
  | .error e => J.obj [("rej", Json.str (rejName e)), ("out", Json.null), ("created", J.bool created)]

def doOp (a : Json) : Except String Json := do
  let op ← J.getStr a "op"
  let r ← decodeReg (← J.getObj a "reg")
  let valid ← J.getBool a "metaValid"
  let keeps := (J.getBool a "deleteKeeps").toOption.getD false
  let bumps := (J.getBool a "deleteBumps").toOption.getD false
  let zero ← J.getHex a "zero"
  let sub ← decodeObj (← J.getObj a "submitted")
  let mr : MetaRules Str V Unit V Str :=
    { fixCreate := id, fixUpdate := fun n _ => n, validCreate := fun _ => valid, validUpdate := fun _ _ => valid,
      deleteKeeps := fun _ => keeps, deleteBumps := fun _ => bumps, markDeleting := id, deletedByUpdate := fun _ _ => false }
  let stored ← match J.optObj a "stored" with
    | some j => (decodeObj j).map some
    | none => pure none
  match op, stored with
  | "create", none => pure (answer true (beforeCreate r mr zero sub))
  | "create", some _ => throw "create against an existing object is AlreadyExists; the harness does not send it"
  | "main", some old => pure (answer false (beforeUpdate sem r .main mr sub old))
  | "status", some old => pure (answer false (beforeUpdate sem r .status mr sub old))
  | "delete", some old =>
      match apiDelete mr old with
      | some o => pure (answer false (.ok o))
      | none => pure (J.obj [("rej", Json.str ""), ("out", Json.null), ("created", J.bool false)])
  | "delete", none => pure (answer false (.error .notServed))
  | "main", none =>
      if !KG.Gen.C20.mainAllowCreateOnUpdate then pure (answer false (.error .notServed))
      else pure (answer true (beforeCreate r mr zero sub))
  | "status", none =>
      -- apiStep: create-on-update through the status endpoint, when it is served
      if !r.served || !KG.Gen.C20.statusAllowCreateOnUpdate then pure (answer false (.error .notServed))
      else pure (answer true (beforeCreate r mr zero sub))
  | _, _ => throw s!"unknown op {op}"

def doJudge (a : Json) : Except String Json := do
  let op ← J.getStr a "op"
  let served ← J.getBool a "served"
  let zero ← J.getHex a "zero"
  let out ← decodeView (← J.getObj a "out")
  let names (l : List Clause) : Json := Json.arr (l.map fun c => Json.str c.name).toArray
  match op with
  | "create" =>
      pure <| J.obj [("violations", names (judgeCreate served zero out)), ("statusAnnotationsOnly", J.bool false)]
  | "main" => do
      let stored ← decodeView (← J.getObj a "stored")
      pure <| J.obj [("violations", names (judgeMainUpdate served stored out)), ("statusAnnotationsOnly", J.bool false)]
  | "status" => do
      let stored ← decodeView (← J.getObj a "stored")
      pure <| J.obj [("violations", names (judgeStatusUpdate stored out)),
                     ("statusAnnotationsOnly", J.bool (statusAnnotationsOnly stored out))]
  | _ => throw s!"unknown op {op}"

def doRegistrations : Json :=
  Json.arr (KG.Gen.C20.registrations.map fun f =>
    J.obj [("kind", Json.str f.kind), ("resource", Json.str f.resource), ("namespaced", J.bool f.namespaced),
           ("strategySubStatus", J.bool f.strategySubStatus), ("optSubStatus", J.bool f.optSubStatus),
           ("hasMeta", J.bool f.hasMeta), ("hasSpec", J.bool f.hasSpec), ("hasStatus", J.bool f.hasStatus),
           ("statusFields", J.nat f.statusFields),
           ("served", J.bool ({ shape := ⟨f.hasMeta, f.hasSpec, f.hasStatus⟩, subStatus := f.strategySubStatus,
                                optSubStatus := f.optSubStatus : Reg }).served)]).toArray

/-- `handle method args`: `none` when the method is unknown. -/
def handle (m : String) (a : Json) : Option (Except String Json) :=
  match m with
  | "op" => some (doOp a)
  | "judge" => some (doJudge a)
  | "registrations" => some (pure doRegistrations)
  | _ => none

end KG.Driver.C20
