import KG.Base.Json
/-! Driver entry points for property C13 (filled in by the C13 model). -/
namespace KG.Driver.C13
open Lean

/-- `handle method args`: `none` when the method is unknown. -/
def handle (_m : String) (_a : Json) : Option (Except String Json) := none

end KG.Driver.C13
