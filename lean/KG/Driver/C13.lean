import KG.Base.Json
import KG.Spec.Shard
/-! Driver entry points for property C13 (sharding and leadership guard). Byte strings travel as hex. -/
namespace KG.Driver.C13
open Lean KG KG.Model.Shard KG.Spec.Shard KG.Model.Shard.Concrete

def optStr : Option Str → Json
  | some s => J.hex s
  | none => Json.null

def shardRes : Except String Int → Json
  | .ok s => J.int s
  | .error _ => Json.str "panic"

def gwRes {α : Type} (f : α → Json) : GwRes α → Json
  | .panic => J.obj [("k", Json.str "panic")]
  | .notSynced => J.obj [("k", Json.str "notSynced")]
  | .noLeader s => J.obj [("k", Json.str "noLeader"), ("shard", J.int s)]
  | .ok a => J.obj [("k", Json.str "ok"), ("v", f a)]

def sortOn {α : Type} (key : α → String) (l : List α) : List α := l.mergeSort (fun a b => key a ≤ key b)
def sortInt {α : Type} (key : α → Int) (l : List α) : List α := l.mergeSort (fun a b => key a ≤ key b)

/-- `C13.shard {names:[hex], n}`: `GetShardID` of every name (or "panic"), plus the spec value for 1 ≤ n < 2^32. -/
def doShard (a : Json) : Except String Json := do
  let names ← J.getHexList a "names"
  let n ← J.getInt a "n"
  pure <| J.obj [
    ("shards", Json.arr (names.map fun x => shardRes (getShardID x n)).toArray),
    ("spec", if 1 ≤ n ∧ n < 4294967296 then Json.arr (names.map fun x => J.nat (shardSpec x n.toNat)).toArray else Json.null),
    ("wire", J.int (toI32 n))]

def decodeEndpoints (a : Json) (k : String) : Except String (AList Str) := do
  (← J.getArr a k).toList.mapM fun e => do
    let p ← e.getArr?
    match p.toList with
    | [s, l] => pure ((← s.getInt?), (← J.asHex l))
    | _ => throw "endpoint: want [shard, hexleader]"

def encodeEndpoints (l : AList Str) : Json :=
  Json.arr ((sortInt (·.1) l).map fun p => Json.arr #[J.int p.1, J.hex p.2]).toArray

/-- `C13.gateway {shardCount, endpoints:[[shard,hex]], names:[hex], sync?:{n, leaders:[[shard,hex]]}}`:
    optionally first `sync` with the `ServerInfo` of a server that has `n` shards and these leaders, then
    `ShardIDFor` / `ClientFor` of every name; also what the server itself computes for the names. -/
def doGateway (a : Json) : Except String Json := do
  let names ← J.getHexList a "names"
  let g0 : Gw := { shardCount := ← J.getInt a "shardCount", leaderEndpoints := ← decodeEndpoints a "endpoints" }
  let (g, srv) ← match J.optObj a "sync" with
    | none => pure (g0, Json.null)
    | some s => do
      let n ← J.getInt s "n"
      let leaders ← decodeEndpoints s "leaders"
      -- leaderInfo is a Go map: later entries of the list overwrite earlier ones
      let leaders := leaders.foldl (fun acc p => AList.set acc p.1 p.2) ([] : AList Str)
      let info : ServerInfo := { shardCount := toI32 n, endpoints := leaders.map fun p => { shardID := toI32 p.1, leader := p.2 } }
      pure (gwSync info g0, J.obj [("shards", Json.arr (names.map fun x => shardRes (getShardID x n)).toArray)])
  pure <| J.obj [
    ("shardCount", J.int g.shardCount),
    ("endpoints", encodeEndpoints g.leaderEndpoints),
    ("shardIDFor", Json.arr (names.map fun x => gwRes J.int (shardIDFor g x)).toArray),
    ("clientFor", Json.arr (names.map fun x => gwRes J.hex (clientFor g x)).toArray),
    ("server", srv)]

def decodeOp (j : Json) : Except String Op := do
  let k ← J.getStr j "op"
  match k with
  | "gain" => pure (.gain (← J.getInt j "s"))
  | "lose" => pure (.lose (← J.getInt j "s"))
  | "loseBegin" => pure (.loseBegin (← J.getInt j "s"))
  | "loseEnd" => pure (.loseEnd (← J.getInt j "s"))
  | "newLeader" => pure (.newLeader (← J.getInt j "s") (← J.getHex j "id"))
  | "leaderCheck" => pure .leaderCheck
  | "listerAdd" => pure (.listerAdd (← J.getHex j "u"))
  | "listerDel" => pure (.listerDel (← J.getHex j "u"))
  | "clusterUpdate" => pure (.clusterUpdate (← J.getHex j "u"))
  | "allocate" => pure (.allocate (← J.getHex j "u") (← J.getHex j "inst"))
  | "acquire" => pure (.acquire (← J.getHex j "u") (← J.getHex j "inst") (← J.getInt j "tokens"))
  | "deleteCond" => pure (.deleteCond (← J.getInt j "k") (← J.getHex j "u") (← J.getHex j "name") (← J.getHex j "inst"))
  | _ => throw s!"unknown op {k}"

def encodeRes : CRes → Json
  | .updOk => J.obj [("r", Json.str "updOk")]
  | .updNotFound => J.obj [("r", Json.str "updNotFound")]
  | .acq ac l e => J.obj [("r", Json.str "acq"), ("accept", J.bool ac), ("limit", J.int l), ("err", Json.str e)]

def encodeReply : Reply CRes → Json
  | .refused s l => J.obj [("k", Json.str "refused"), ("shard", J.int s), ("leader", J.hex l)]
  | .skipped s l => J.obj [("k", Json.str "skipped"), ("shard", J.int s), ("leader", J.hex l)]
  | .skippedNoInstance => J.obj [("k", Json.str "skippedNoInstance")]
  | .noStore s => J.obj [("k", Json.str "noStore"), ("shard", J.int s)]
  | .served r => J.obj [("k", Json.str "served"), ("res", encodeRes r)]
  | .handled none => J.obj [("k", Json.str "handled")]
  | .handled (some e) => J.obj [("k", Json.str "handledErr"), ("err", Json.str e)]
  | .deleted => J.obj [("k", Json.str "deleted")]
  | .unit => J.obj [("k", Json.str "unit")]

def encodeEntry (e : UEntry) : Json :=
  J.obj [("u", J.hex e.name),
         ("conds", Json.arr ((sortOn (·.1.toHex) e.conds).map fun p => Json.arr #[J.hex p.1, J.hex p.2]).toArray),
         ("fc", J.bool e.hasFC),
         ("inflight", Json.arr ((sortOn (·.1.toHex) e.inflight).map fun p => Json.arr #[J.hex p.1, J.int p.2]).toArray)]

def encodeStores (l : AList CStore) : Json :=
  Json.arr ((sortInt (·.1) l).map fun p =>
    J.obj [("shard", J.int p.1), ("ups", Json.arr ((sortOn (·.name.toHex) p.2).map encodeEntry).toArray)]).toArray

def isPrefixB : Str → Str → Bool
  | [], _ => true
  | _, [] => false
  | a :: as, b :: bs => a == b && isPrefixB as bs

def isInfixB (pat : Str) : Str → Bool
  | [] => pat.isEmpty
  | t@(_ :: rest) => isPrefixB pat t || isInfixB pat rest

/-- what the implementation answered. `error` = an error in words this harness does not know: it counts as the
    refusal naming the leader iff its text contains the name of the leader it has to name (the property asks for
    an error naming the leader, not for a wording). -/
inductive RawObs
  | obs (o : Obs)
  | error (text : Str)

def decodeObs (j : Json) : Except String RawObs := do
  match (← J.getStr j "k") with
  | "refused" => pure (.obs (.refusedNaming (← J.getInt j "shard") (← J.getHex j "leader")))
  | "silent" => pure (.obs .silent)
  | "error" => pure (.error (← J.getHex j "text"))
  | _ => pure (.obs .other)

def RawObs.resolve (shard : Int) (leader : Str) : RawObs → Obs
  | .obs o => o
  | .error text => if isInfixB leader text then .refusedNaming shard leader else .other

structure ImplObs where
  obs : RawObs
  unchanged : Bool
  storesAfter : List Int

def decodeImpl (j : Json) : Except String ImplObs := do
  pure { obs := ← decodeObs (← J.getObj j "obs"), unchanged := ← J.getBool j "unchanged",
         storesAfter := ← J.getIntList j "storesAfter" }

/-- `C13.history {me, n, storeType, lister:[hex], ops:[…], impl?:[{obs, unchanged, storesAfter}], implShards?:[[hex,shard]]}`: runs the
    model over the history; per step: the model's answer, elector and store state after the step, the spec's
    leader of the touched shard before the step, the judge on the model's own step and (if given) the judge on
    the implementation's observation of the same step. -/
def doHistory (a : Json) : Except String Json := do
  let me ← J.getHex a "me"
  let n ← J.getInt a "n"
  let storeType ← J.getStr a "storeType"
  let lister ← J.getHexList a "lister"
  let opsL ← (← J.getArr a "ops").toList.mapM decodeOp
  let impl ← match J.optObj a "impl" with
    | none => pure none
    | some _ => do pure (some (← (← J.getArr a "impl").toList.mapM decodeImpl))
  -- the shard the IMPLEMENTATION assigns to each upstream of the case (the judge of the implementation's steps is
  -- about "the upstream's shard" as the implementation maps it; the model's own steps are judged with the model's map)
  let implShards : List (Str × Int) ← match J.optObj a "implShards" with
    | none => pure []
    | some _ => do
      (← J.getArr a "implShards").toList.mapM fun e => do
        match (← e.getArr?).toList with
        | [u, s] => pure ((← J.asHex u), (← s.getInt?))
        | _ => throw "implShards: want [hexname, shard]"
  if hn : toU32 n = 0 then throw "panic: shard count with uint32(n) = 0" else
  let sops := Concrete.ops storeType
  let st0 : Srv CStore := init me n hn lister
  let sh : Str → Int := shardOf st0
  let shI : Str → Int := fun u => match implShards.find? (fun p => p.1 == u) with
    | some p => p.2
    | none => sh u
  let rec go (pre : List Op) (rest : List Op) (impls : Option (List ImplObs)) (st : Srv CStore) (acc : Array Json) : Array Json :=
    match rest with
    | [] => acc
    | e :: rest' =>
      let (st', r) := step sops st e
      let unchangedM : Bool := decide (st'.stores = st.stores)
      let storesAfterM := st'.stores.keys
      let jm : Bool := decide (JudgeStep me sh pre e (obsOf r) (unchangedM = true) storesAfterM)
      let (ji, impls') := match impls with
        | some (o :: os) =>
          let ob : Obs := match e with
            | .allocate u _ | .acquire u _ _ => o.obs.resolve (shI u) ((leaderAfter me pre (shI u)).getD [])
            | _ => o.obs.resolve 0 []
          (J.bool (decide (JudgeStep me shI pre e ob (o.unchanged = true) o.storesAfter)), some os)
        | some [] => (Json.null, some [])
        | none => (Json.null, none)
      let u? : Option Str := match e with
        | .allocate u _ | .acquire u _ _ | .clusterUpdate u | .deleteCond _ u _ _ => some u
        | _ => none
      let spec := match u? with
        | some u => J.obj [("shard", J.int (shI u)), ("leader", optStr (leaderAfter me pre (shI u))),
                           ("mustRefuse", J.bool (decide (leaderAfter me pre (shI u) ≠ some me)))]
        | none => Json.null
      let j := J.obj [("reply", encodeReply r), ("leaders", encodeEndpoints st'.leaders),
                      ("stores", encodeStores st'.stores), ("lister", J.hexList st'.lister),
                      ("spec", spec), ("judgeModel", J.bool jm), ("judgeImpl", ji)]
      go (pre ++ [e]) rest' impls' st' (acc.push j)
  pure <| J.obj [("steps", Json.arr (go [] opsL impl st0 #[]))]

/-- `C13.k8s {shard, n, items:[hex], saves:[hex]}`: `objectStore.Load` keeps these upstreams' items;
    `objectStore.Save` of a condition of each upstream in `saves`: "saved" | "refused" | "panic". -/
def doK8s (a : Json) : Except String Json := do
  let shard ← J.getInt a "shard"
  let n ← J.getInt a "n"
  let items ← J.getHexList a "items"
  let saves ← J.getHexList a "saves"
  let load := match k8sLoad shard n items with
    | .ok l => J.hexList l
    | .error _ => Json.str "panic"
  let sv := saves.map fun u =>
    match k8sSave (κ := Nat) shard n (· + 1) u 0 with
    | .error _ => Json.str "panic"
    | .ok none => Json.str "refused"
    | .ok (some _) => Json.str "saved"
  pure <| J.obj [("load", load), ("saves", Json.arr sv.toArray)]

/-- `C13.gwhist {shardCount, endpoints, names, rounds:[{n, leaders}]}`: a gateway that syncs again and again from
    limiter servers whose published shard count may change; the look-ups of all names before the first sync and
    after every sync. -/
def doGwHist (a : Json) : Except String Json := do
  let names ← J.getHexList a "names"
  let g0 : Gw := { shardCount := ← J.getInt a "shardCount", leaderEndpoints := ← decodeEndpoints a "endpoints" }
  let rounds ← (← J.getArr a "rounds").toList.mapM fun r => do
    let n ← J.getInt r "n"
    let leaders ← decodeEndpoints r "leaders"
    pure (n, leaders.foldl (fun acc p => AList.set acc p.1 p.2) ([] : AList Str))
  let look (g : Gw) (srv : Json) : Json := J.obj [
    ("shardCount", J.int g.shardCount),
    ("endpoints", encodeEndpoints g.leaderEndpoints),
    ("shardIDFor", Json.arr (names.map fun x => gwRes J.int (shardIDFor g x)).toArray),
    ("clientFor", Json.arr (names.map fun x => gwRes J.hex (clientFor g x)).toArray),
    ("server", srv)]
  let rec go (g : Gw) (rs : List (Int × AList Str)) (acc : Array Json) : Array Json :=
    match rs with
    | [] => acc
    | (n, leaders) :: rest =>
      let info : ServerInfo := { shardCount := toI32 n, endpoints := leaders.map fun p => { shardID := toI32 p.1, leader := p.2 } }
      let g' := gwSync info g
      go g' rest (acc.push (look g' (Json.arr (names.map fun x => shardRes (getShardID x n)).toArray)))
  pure <| J.obj [("before", look g0 Json.null), ("rounds", Json.arr (go g0 rounds #[]))]

/-- `C13.stop {periodic, items, api:[bool]}`: `stopLimitStoreWithRetry` on a k8s store holding `items` conditions
    while the API accepts/fails writes per attempt. -/
def doStop (a : Json) : Except String Json := do
  let periodic ← J.getBool a "periodic"
  let items ← J.getNat a "items"
  let api ← (← J.getArr a "api").toList.mapM (·.getBool?)
  let k : KStore := { newKStore periodic with items := items }
  let r := stopWithRetry 10 api k
  pure <| J.obj [("ok", J.bool r.2.1), ("attempts", J.nat r.2.2), ("stopCh", J.bool r.1.stopCh),
                 ("stopped", J.bool r.1.stopped), ("flusher", J.bool r.1.flusherRunning)]

/-- `C13.overlap {ops:[{op, id}]}`: overlapping starts/stops of one shard (`Overlap`); per op the state after it.
    "alloc" (an allocation served or refused) changes nothing here. -/
def doOverlap (a : Json) : Except String Json := do
  let ops ← (← J.getArr a "ops").toList.mapM fun j => do
    match (← J.getStr j "op") with
    | "begin" => pure (some Overlap.OOp.begin)
    | "ok" => pure (some (Overlap.OOp.finishOk (← J.getNat j "id")))
    | "fail" => pure (some (Overlap.OOp.finishFail (← J.getNat j "id")))
    | "lose" => pure (some Overlap.OOp.lose)
    | "check" => pure (some Overlap.OOp.check)
    | "alloc" => pure none
    | k => throw s!"unknown overlap op {k}"
  let enc (st : Overlap.OState) : Json := J.obj [
    ("leader", J.bool st.leader),
    ("map", match st.map with | some i => J.nat i | none => Json.null),
    ("stores", Json.arr (st.stores.map J.bool).toArray),
    ("pending", Json.arr (st.pending.map J.nat).toArray)]
  let rec go (st : Overlap.OState) (rest : List (Option Overlap.OOp)) (acc : Array Json) : Array Json :=
    match rest with
    | [] => acc
    | o :: rest' =>
      let st' := match o with | some op => Overlap.step st op | none => st
      go st' rest' (acc.push (enc st'))
  pure <| J.obj [("steps", Json.arr (go Overlap.init ops #[]))]

/-- `handle method args`: `none` when the method is unknown. -/
def handle (m : String) (a : Json) : Option (Except String Json) :=
  match m with
  | "shard" => some (doShard a)
  | "gateway" => some (doGateway a)
  | "history" => some (doHistory a)
  | "k8s" => some (doK8s a)
  | "gwhist" => some (doGwHist a)
  | "stop" => some (doStop a)
  | "overlap" => some (doOverlap a)
  | _ => none

end KG.Driver.C13
