import KG.Base.Json
import KG.Spec.GlobalCount
/-!
Driver entry points for property C08 (global count strategy of the limiter server).

* `C08.run {ops, impl}`     — runs the store model over an op list; with `impl` (the real code's reply and
                              store snapshot after every op) it also evaluates the judge of
                              `KG.Spec.GlobalCount` on the implementation's observations.
* `C08.bucket {qps, burst, calls, impl}` — scripted `AllowN(now, n)` calls on one limiter: model decisions,
                              and the window judge `Σ grants ≤ burst + qps·T` on the implementation's decisions.
* `C08.conc {prefix, threads, replies, final}` — is the observed outcome of concurrently issued calls
                              (per-thread replies and the state at quiescence) the outcome of SOME
                              interleaving of the atomic steps?
-/
namespace KG.Driver.C08
open Lean KG KG.Model.GlobalCount KG.Spec.GlobalCount

def errStr : Err → String
  | .none => ""
  | .requestIDTooOld => "RequestIDTooOld"

def acqErrStr : AcqErr → String
  | .none => ""
  | .notFound => "NotFound"
  | .negativeTokens => "NegativeTokens"
  | .requestIDTooOld => "RequestIDTooOld"

def encReply (r : Reply) : Json :=
  J.obj [("accept", J.bool r.accept), ("latest", J.int r.latest), ("err", Json.str (errStr r.err))]

def encAcq (r : AcqResult) : Json :=
  J.obj [("accept", J.bool r.accept), ("limit", J.int r.limit), ("err", Json.str (acqErrStr r.err))]

def encStates (l : States) : Json :=
  Json.arr (l.map fun (k, v) => Json.arr #[J.hex k, J.int v.count, J.int v.requestId]).toArray

def encFC (name : Str) : FC → Json
  | .mif g => J.obj [("name", J.hex name), ("t", Json.str "mif"), ("max", J.int g.max), ("count", J.int g.count),
                     ("states", encStates g.states)]
  | .tb b => J.obj [("name", J.hex name), ("t", Json.str "tb"), ("qps", J.int b.qps), ("burst", J.int b.burst)]

def encFCs (f : FCs) : Json := Json.arr (f.map fun (n, fc) => encFC n fc).toArray

/-- canonical order (by key bytes) for comparing final states of different interleavings -/
def sortStates (l : States) : States := l.mergeSort fun a b => !(decide (b.1.toHex < a.1.toHex))

def sortFCs (f : FCs) : FCs :=
  (f.map fun (n, fc) => match fc with
    | .mif g => (n, FC.mif { g with states := sortStates g.states })
    | .tb b => (n, FC.tb b)).mergeSort fun a b => !(decide (b.1.toHex < a.1.toHex))

def decStates (a : Array Json) : Except String States :=
  a.toList.mapM fun e => do
    let t ← e.getArr?
    match t.toList with
    | [k, c, r] => pure ((← J.asHex k), (⟨← c.getInt?, ← r.getInt?⟩ : Inst))
    | _ => throw "bad state triple"

def decFC (j : Json) : Except String (Str × FC) := do
  let name ← J.getHex j "name"
  match ← J.getStr j "t" with
  | "mif" =>
    pure (name, .mif { max := ← J.getInt j "max", count := ← J.getInt j "count", states := ← decStates (← J.getArr j "states") })
  | "tb" => pure (name, .tb { qps := ← J.getInt j "qps", burst := ← J.getInt j "burst", tokens := 0, last := none })
  | t => throw s!"bad fc type {t}"

def decFCs (j : Json) : Except String FCs := do (← j.getArr?).toList.mapM decFC

def decSchema (j : Json) : Except String Schema := do
  let name ← J.getHex j "name"
  let gmif ← match J.optObj j "mif" with
    | none => pure none
    | some v => do pure (some (← v.getInt?))
  let gtb ← match J.optObj j "tb" with
    | none => pure none
    | some v => do
      match (← v.getArr?).toList with
      | [q, b] => pure (some ((← q.getInt?), (← b.getInt?)))
      | _ => throw "bad tb"
  pure { name := name, gmif := gmif, gtb := gtb }

inductive SOp where
  | sync (spec : List Schema)
  | set (fc inst : Str) (rid cur : Int)
  | resize (fc : Str) (n burst : Int)
  | acq (inst : Str) (rid : Int) (reqs : List (Str × Int)) (nows : List Int)
  | del (inst : Str)
  | hb (inst : Str)
  | cond (inst : Str)
  | sweep (stale : List Str)
  | unknown

/-- absent or null = empty (Go's `omitempty`) -/
def optHex (j : Json) (k : String) : Except String Str :=
  match J.optObj j k with
  | none => pure []
  | some v => J.asHex v

def optArr (j : Json) (k : String) : Except String (List Json) :=
  match J.optObj j k with
  | none => pure []
  | some v => do pure (← v.getArr?).toList

def decOp (j : Json) : Except String SOp := do
  match ← J.getStr j "k" with
  | "sync" => pure (.sync (← (← optArr j "schemas").mapM decSchema))
  | "set" => pure (.set (← optHex j "fc") (← optHex j "inst") (← J.getInt j "rid") (← J.getInt j "cur"))
  | "resize" => pure (.resize (← optHex j "fc") (← J.getInt j "n") (← J.getInt j "burst"))
  | "acq" =>
    let reqs ← (← optArr j "reqs").mapM fun r => do pure ((← optHex r "fc"), (← J.getInt r "tokens"))
    let nows ← J.getIntList j "nows"
    if nows.length < KG.Gen.C08.tbTries then throw "acq needs a clock reading for every try"
    pure (.acq (← optHex j "inst") (← J.getInt j "rid") reqs nows)
  | "del" => pure (.del (← optHex j "inst"))
  | "hb" => pure (.hb (← optHex j "inst"))
  | "cond" => pure (.cond (← optHex j "inst"))
  | "sweep" => pure (.sweep (← (← optArr j "stale").mapM J.asHex))
  | "unknown" => pure .unknown
  | k => throw s!"bad op {k}"

/-- one op on the model store: new store and the reply as JSON -/
def stepStore (st : Store) : SOp → Store × Json
  | .sync spec => (sync st spec, Json.null)
  | .set fc inst rid cur =>
    match findFC fc st.fcs with
    | some (.mif g) =>
      let (g', r) := setState g inst rid cur
      ({ st with fcs := putFC fc (.mif g') st.fcs }, encReply r)
    | some (.tb _) => (st, encReply ⟨false, -1, .none⟩)   -- globalTokenBucket.SetState
    | none => (st, Json.str "NotFound")
  | .resize fc n burst =>
    match findFC fc st.fcs with
    | some (.mif g) =>
      let (g', r) := resize g n
      ({ st with fcs := putFC fc (.mif g') st.fcs }, J.bool r)
    | some (.tb b) =>
      let (b', r) := bucketResize b n burst
      ({ st with fcs := putFC fc (.tb b') st.fcs }, J.bool r)
    | none => (st, Json.str "NotFound")
  | .acq inst rid reqs nows =>
    let (st', rs) := doAcquire st inst rid nows reqs
    (st', Json.arr (rs.map encAcq).toArray)
  | .del inst => (deleteInstanceState st inst, Json.null)
  | .hb inst => (heartbeat st inst, Json.null)
  | .cond inst => (saveCondition st inst, Json.null)
  | .sweep stale => (sweepTimeout st stale, Json.null)
  | .unknown => (cleanupUnknown st, Json.null)

def instancesOf (a b : G) : List Str := (keys a.states ++ keys b.states).eraseDups

def decReply (j : Json) : Except String Reply := do
  let e ← J.getStr j "err"
  pure ⟨← J.getBool j "accept", ← J.getInt j "latest", if e = "RequestIDTooOld" then .requestIDTooOld else .none⟩

def decAcq (j : Json) : Except String AcqResult := do
  let e ← J.getStr j "err"
  let err : AcqErr := match e with
    | "" => .none
    | "NotFound" => .notFound
    | "NegativeTokens" => .negativeTokens
    | "RequestIDTooOld" => .requestIDTooOld
    | _ => .notFound
  pure ⟨← J.getBool j "accept", ← J.getInt j "limit", err⟩

def tag (p : String) (l : List String) : List String := l.map (p ++ ·)

/-- ghost of the harness: `(flow control, instance, newest id already processed)` before the op -/
abbrev Ghost := List (Str × Str × Int)

def decGhost (j : Json) : Except String Ghost := do
  match J.optObj j "ghost" with
  | none => pure []
  | some g =>
    (← g.getArr?).toList.mapM fun e => do
      match (← e.getArr?).toList with
      | [f, i, l] => pure ((← J.asHex f), (← J.asHex i), (← l.getInt?))
      | _ => throw "bad ghost triple"

def ghostOf (g : Ghost) (fc inst : Str) : Option Int :=
  (g.find? fun (f, i, _) => f = fc ∧ i = inst).map (·.2.2)

/-- the judge (clauses of the property's text, `KG.Spec.GlobalCount.judgeViolations` & co.) on the
    implementation's observations of one op. The limit in `before`/`after` is the CONFIGURED one (substituted by
    the harness). Replies the property does not mention (`latest`, error kinds, `Resize`'s answer, the `limit`
    of a refusal) are not looked at. -/
def judgeOp (op : SOp) (reply : Json) (ghost : Ghost) (before after : FCs) : Except String (List String) := do
  match op with
  | .set fc inst rid cur =>
    match findFC fc before, findFC fc after with
    | some (.mif b), some (.mif a) =>
      let rep ← decReply reply
      pure (judgeViolations (instancesOf a b) (ghostOf ghost fc inst) b inst rid cur rep a)
    | _, _ => pure []
  | .resize fc _ _ =>
    match findFC fc before, findFC fc after with
    | some (.mif b), some (.mif a) => pure (jcResize b a)
    | _, _ => pure []
  | .del inst =>
    pure <| before.flatMap fun (n, fc) =>
      match fc, findFC n after with
      | .mif b, some (.mif a) => judgeViolations (instancesOf a b) none b inst (-1) (-1) ⟨false, -1, .none⟩ a
      | _, _ => []
  | .acq inst rid reqs _ =>
    let rs ← (← reply.getArr?).toList.mapM decAcq
    if rs.length ≠ reqs.length then pure [] else   -- shape of the answer: compared with the model, not judged
    pure <| (reqs.zip rs).flatMap fun ((fc, tokens), r) =>
      let once := (reqs.filter fun q => q.1 = fc).length = 1
      match findFC fc before, findFC fc after with
      | some (.tb _), some (.tb _) => grantJudge tokens r
      | some (.mif b), some (.mif a) =>
        if !once then []
        else if tokens < 0 then
          (if r.accept = false ∧ r.limit = 0 then [] else ["negative-ask-not-refused"]) ++
          (if jcResize b a = [] then [] else ["negative-ask-changes-state"])
        else
          judgeViolations (instancesOf a b) (ghostOf ghost fc inst) b inst rid tokens ⟨r.accept, r.limit, .none⟩ a
      | _, _ => []
  | .hb _ | .cond _ => pure []
  | .sweep _ | .unknown =>
    pure <| before.flatMap fun (n, fc) =>
      match fc, findFC n after with
      | .mif b, some (.mif a) => jcRemovals b a
      | _, _ => []
  | .sync spec =>
    pure <| spec.flatMap fun s =>
      if (spec.filter fun q => q.name = s.name).length ≠ 1 then [] else
      match s.gmif, findFC s.name before, findFC s.name after with
      | some _, some (.mif b), some (.mif a) => jcResize b a
      | _, _, _ => []

def doRun (a : Json) : Except String Json := do
  let ops ← (← J.getArr a "ops").toList.mapM decOp
  -- model
  let (_, outs) := ops.foldl (fun (acc : Store × List Json) op =>
    let (st', r) := stepStore acc.1 op
    (st', acc.2 ++ [J.obj [("reply", r), ("snap", encFCs st'.fcs), ("clients", J.hexList st'.clients),
      ("conds", J.hexList st'.conds)]])) (Store.empty, [])
  -- judge on the implementation's observations
  let judge ← match J.optObj a "impl" with
    | none => pure []
    | some im => do
      let obs ← im.getArr?
      if obs.size ≠ ops.length then throw "impl observations do not match ops"
      let rec go (ops : List SOp) (obs : List Json) (before : FCs) (i : Nat) : Except String (List String) :=
        match ops, obs with
        | op :: ops', o :: obs' => do
          let after ← decFCs (← J.getObj o "jsnap")
          let v ← judgeOp op ((o.getObjVal? "reply").toOption.getD Json.null) (← decGhost o) before after
          let rest ← go ops' obs' after (i + 1)
          pure (tag s!"{i}:" v ++ rest)
        | _, _ => pure []
      go ops obs.toList [] 0
  pure <| J.obj [("model", Json.arr outs.toArray), ("judge", Json.arr (judge.map Json.str).toArray)]

def ratAbs (x : Rat) : Rat := if x < 0 then -x else x

/-- one entry of a scripted bucket case -/
inductive BCall where
  | allow (now n : Int)
  | resize (qps burst : Int)

def decBCall (c : Json) : Except String BCall := do
  match J.optObj c "resize" with
  | some v =>
    match (← v.getArr?).toList with
    | [q, b] => pure (.resize (← q.getInt?) (← b.getInt?))
    | _ => throw "bad resize"
  | none => pure (.allow (← J.getInt c "now") (← J.getInt c "n"))

structure BState where
  b : Bucket
  /-- the parameters of the current judging window and its events `(true time, grant)` -/
  q : Int
  bu : Int
  events : List (Int × Int)
  tmax : Option Int
  oks : List Bool
  tight : Nat
  winOk : Bool

/-- scripted `AllowN(now, n)` calls on one limiter, interleaved with `Resize(qps, burst)` calls. With `impl` (the
    real code's answers): a call whose outcome hangs on less than 1/1000 token (`tokens − n` within ±1/1000:
    decided by float64 rounding and the nanosecond truncation in x/time/rate, which the `Rat` model does not
    have) follows the implementation and is reported as `tight`; the window judge runs on the implementation's
    grants at the TRUE time of each call (the running maximum of the clock readings handed in: a reading may be
    stale, time is not). A judging window is closed ONLY by a `Resize` that really changes qps or burst: a
    `Resize` to the same values is no reconfiguration and the bound `burst + qps·T` spans it. -/
def doBucket (a : Json) : Except String Json := do
  let qps ← J.getInt a "qps"
  let burst ← J.getInt a "burst"
  if qps ≤ 0 then throw "qps must be positive (validation rejects other values; not modelled)"
  let calls ← (← J.getArr a "calls").toList.mapM decBCall
  for c in calls do
    match c with
    | .resize q _ => if q ≤ 0 then throw "qps must be positive (validation rejects other values; not modelled)"
    | _ => pure ()
  let impl : Option (List Bool) ← match J.optObj a "impl" with
    | none => pure none
    | some im => do pure (some (← (← im.getArr?).toList.mapM (·.getBool?)))
  let slack : Rat := (1 : Rat) / 1000
  let stepB (st : BState) (c : BCall) (iok : Option Bool) : BState :=
    match c with
    | .resize q bu =>
      let (b', r) := bucketResize st.b q bu
      if q = st.q ∧ bu = st.bu then { st with b := b', oks := st.oks ++ [r] }
      else
        { st with b := b', oks := st.oks ++ [r], winOk := st.winOk && windowsOk st.q st.bu slack st.events,
                  q := q, bu := bu, events := [] }
    | .allow now n =>
      let (b', ok) := allowN st.b now n
      let (last, tokens) := advance st.b now
      let margin := tokens - (n : Rat)
      let t := match st.tmax with
        | none => now
        | some m => if now < m then m else now
      let (b2, ok2, tight2) :=
        match iok with
        | some i =>
          if i ≠ ok ∧ n ≤ st.b.burst ∧ ratAbs margin < (1 : Rat) / 1000 then
            -- follow the implementation on a knife edge
            ((if i then { st.b with last := some now, tokens := margin } else { st.b with last := last } : Bucket), i, st.tight + 1)
          else (b', ok, st.tight)
        | none => (b', ok, st.tight)
      let g := match iok with
        | some i => if i then n else 0
        | none => if ok2 then n else 0
      { st with b := b2, oks := st.oks ++ [ok2], tight := tight2, tmax := some t, events := st.events ++ [(t, g)] }
  let rec go (st : BState) (calls : List BCall) (impl : List Bool) : BState :=
    match calls with
    | [] => st
    | c :: rest =>
      match impl with
      | i :: irest => go (stepB st c (some i)) rest irest
      | [] => go (stepB st c none) rest []
  let st0 : BState := ⟨Bucket.init qps burst, qps, burst, [], none, [], 0, true⟩
  let st := go st0 calls (impl.getD [])
  let winOk := st.winOk && windowsOk st.q st.bu slack st.events
  pure <| J.obj [("ok", Json.arr (st.oks.map J.bool).toArray),
    ("windows", match impl with | none => Json.null | some _ => J.bool winOk), ("tight", J.nat st.tight),
    -- can the real TryAcquireN hand the limiter a stale clock reading? (regenerated shape fact)
    ("staleReachable", J.bool (!KG.Gen.C08.tryAcquireSerialized))]

/-- all interleavings of the threads' op lists (each a list of `(thread, op)`), fuel = total length -/
def interleavings : Nat → List (List SOp) → List (List (Nat × SOp))
  | 0, _ => [[]]
  | fuel + 1, threads =>
    if threads.all (·.isEmpty) then [[]]
    else
      (List.range threads.length).flatMap fun t =>
        match threads[t]? with
        | some (op :: rest) => (interleavings fuel (threads.set t rest)).map fun l => (t, op) :: l
        | _ => []

def doConc (a : Json) : Except String Json := do
  let pre ← (← J.getArr a "prefix").toList.mapM decOp
  let threads ← (← J.getArr a "threads").toList.mapM fun t => do (← t.getArr?).toList.mapM decOp
  let replies ← (← J.getArr a "replies").toList.mapM fun t => do pure (← t.getArr?).toList
  let final ← J.getObj a "final"
  let st0 := pre.foldl (fun st op => (stepStore st op).1) Store.empty
  let total := (threads.map (·.length)).sum
  let canon (f : FCs) : String := (encFCs (sortFCs f)).compress
  let want := canon (← decFCs final)
  let wantReplies := (Json.arr (replies.map fun l => Json.arr l.toArray).toArray).compress
  let outcomes := (interleavings total threads).map fun sched =>
    let (st, outs) := sched.foldl (fun (acc : Store × List (Nat × Json)) (to : Nat × SOp) =>
      let (st', r) := stepStore acc.1 to.2
      -- `Resize`'s answer is not compared (the real call is a read followed by a store)
      let r := match to.2 with
        | .resize .. => Json.null
        | _ => r
      (st', acc.2 ++ [(to.1, r)])) (st0, [])
    let per := (List.range threads.length).map fun t => (outs.filter (·.1 = t)).map (·.2)
    (canon st.fcs, (Json.arr (per.map fun l => Json.arr l.toArray).toArray).compress)
  let ok := outcomes.any fun (s, r) => s = want ∧ r = wantReplies
  pure <| J.obj [("linearizable", J.bool ok), ("schedules", J.nat outcomes.length),
    ("example", match outcomes with | (s, r) :: _ => Json.arr #[Json.str s, Json.str r] | [] => Json.null)]

def handle (m : String) (a : Json) : Option (Except String Json) :=
  match m with
  | "run" => some (doRun a)
  | "bucket" => some (doBucket a)
  | "conc" => some (doConc a)
  | _ => none

end KG.Driver.C08
