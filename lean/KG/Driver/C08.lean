import KG.Base.Json
/-! Driver entry points for property C08 (filled in by the C08 model). -/
namespace KG.Driver.C08
open Lean

/-- `handle method args`: `none` when the method is unknown. -/
def handle (_m : String) (_a : Json) : Option (Except String Json) := none

end KG.Driver.C08
