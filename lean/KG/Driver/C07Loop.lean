import KG.Base.Json
import KG.Spec.LimiterLoop
/-! Driver entry points of the closed-loop stream of C07 (`C07.loop`, `C07.loopJudge`, `C07.loopConsts`). -/
namespace KG.Driver.C07Loop
open Lean KG KG.Model KG.Model.LimiterLoop KG.Spec.LimiterLoop

/-- the name of upstream `u` in the harness (`fmt.Sprintf("u%d", u)`) -/
def upName (u : Nat) : Str := Str.ofString s!"u{u}"

/-- `util.GetShardID(name of u, nShards)` -/
def shardFn (nShards : Nat) (u : Nat) : Nat := if nShards = 0 then 0 else Reclaim.getShardID nShards (upName u)

def decodeOp (j : Json) : Except String SOp := do
  match ← J.getStr j "op" with
  | "list" => pure (.op (.list (← J.getNat j "u") (← J.getInt j "t")))
  | "handle" => pure (.op (.handle (← J.getNat j "u")))
  | "gwSchema" => pure (.op (.gwSchema (← J.getNat j "g") (← J.getNat j "u") (← J.getInt j "l") (← J.getInt j "t")))
  | "hb" => pure (.op (.hb (← J.getNat j "g") (← J.getNat j "now")))
  | "report" => pure (.report (← J.getNat j "g") (← J.getNat j "u") (← J.getInt j "used"))
  | "tick" => pure (.op (.tick (← J.getNat j "now")))
  | "unknown" => pure (.op .unknownPass)
  | "elect" => pure (.op (.elect (← J.getNat j "k") (← J.getBool j "b")))
  | "gain" => pure (.op (.gain (← J.getNat j "k")))
  | "lose" => pure (.op (.lose (← J.getNat j "k")))
  | "net" => pure (.op (.net (← J.getNat j "g") (← J.getBool j "b")))
  | "crash" => pure (.op (.crash (← J.getNat j "g")))
  | "ret" => pure (.op (.ret (← J.getNat j "g") (← J.getNat j "id")))
  | o => throw s!"unknown op {o}"

def sortNat (l : List Nat) : Array Json := (l.toArray.qsort (· < ·)).map J.nat

def optInt : Option Int → Json
  | some i => J.int i
  | none => Json.null

def b01 (b : Bool) : Json := J.nat (if b then 1 else 0)

def encUp (p : Nat × UpStore) : Json :=
  let e := p.2
  let rs := (e.srv.quotas.map fun q =>
    (q.1, q.2, e.labelled.contains q.1, (aget e.used q.1).getD 0)).toArray.qsort (fun a b => a.1 < b.1)
  J.obj [("u", J.nat p.1), ("total", J.int e.srv.total), ("recSum", J.int e.srv.recSum), ("recLevel", J.int e.recLevel),
    ("recs", Json.arr (rs.map fun (i, q, l, us) => Json.arr #[J.nat i, J.int q, b01 l, J.int us]))]

def encUps (l : List (Nat × UpStore)) : Json :=
  Json.arr ((l.toArray.qsort (fun a b => a.1 < b.1)).map encUp)

def encSrv (s : Server) : Json :=
  J.obj [("hb", Json.arr ((s.hb.toArray.qsort (fun a b => a.1 < b.1)).map fun p => Json.arr #[J.nat p.1, J.nat p.2])),
         ("leaders", Json.arr (sortNat s.leaders)), ("stores", Json.arr (sortNat s.stores)),
         ("ups", encUps s.ups), ("api", encUps s.api)]

def choiceCode : RemoteLimiter.Choice → Nat
  | .dflt => 0
  | .loc => 1
  | .remote => 2

def encGU (p : Nat × RemoteLimiter.State) : Json :=
  let st := p.2
  let o := RemoteLimiter.observe gwCfg st
  J.obj [("u", J.nat p.1), ("choice", J.nat (choiceCode o.choice)), ("lim", optInt (o.lim.map limSize)),
    ("rlim", optInt (o.rlim.map limSize)), ("raw", optInt (raw st)), ("ready", J.bool o.ready),
    ("view", optInt (view st)), ("loc", optInt (localLimit st))]

def encGw (g : Gw) : Json :=
  J.obj [("id", J.nat g.id), ("alive", J.bool g.alive), ("net", J.bool g.net),
         -- the real `upstreamLimiter` of an upstream exists from the first schema sync on
         ("ups", if g.alive then
             Json.arr ((((g.ups.filter (fun p => p.2.cache.isSome)).toArray.qsort (fun a b => a.1 < b.1))).map encGU)
           else Json.arr #[])]

def encJudge (s : State) (nUp : Nat) : Json :=
  Json.arr ((List.range nUp).map fun u => Json.arr ((judgeU (obsU s u)).map Json.str).toArray).toArray

def encHi (s : State) (nUp : Nat) : Json :=
  Json.arr ((List.range nUp).map fun u => optInt ((aget s.srv.ups u).map (·.hi))).toArray

def encFresh (s : State) : Json :=
  Json.arr (s.gws.map fun g => Json.arr (sortNat g.fresh)).toArray

/-- `C07.loop {nShards, nGw, nUp, k8s, ops}`: per op the recorded state of the server, what every gateway hands out,
    the judge on the model's own observation, the monitors the harness needs to judge the implementation (`hi`,
    `fresh`), and whether the exact tail reproduced the Float twin's answer. -/
def doLoop (a : Json) : Except String Json := do
  let nShards ← J.getNat a "nShards"
  let nGw ← J.getNat a "nGw"
  let nUp ← J.getNat a "nUp"
  let k8s ← J.getBool a "k8s"
  let ops ← (← J.getArr a "ops").toList.mapM decodeOp
  let shardOf := shardFn nShards
  let mut s := init nShards nGw nUp k8s
  let mut outs : Array Json := #[]
  for sop in ops do
    let (op, ex) := fill shardOf s sop
    s := step shardOf s op
    outs := outs.push (J.obj [
      ("exact", match ex with | some b => J.bool b | none => Json.null),
      ("srv", encSrv s.srv), ("gws", Json.arr (s.gws.map encGw).toArray),
      ("judge", encJudge s nUp), ("hi", encHi s nUp), ("fresh", encFresh s)])
  pure (J.obj [("shards", Json.arr ((List.range nUp).map fun u => J.nat (shardOf u)).toArray), ("steps", Json.arr outs)])

def decOptInt (j : Json) (k : String) : Except String (Option Int) :=
  match J.optObj j k with
  | some v => do pure (some (← v.getInt?))
  | none => pure none

def decGObs (j : Json) : Except String GObs := do
  pure { id := ← J.getNat j "id", remote := ← J.getBool j "remote", enforced := ← J.getInt j "enforced",
         raw := ← decOptInt j "raw", applied := ← decOptInt j "applied", view := ← J.getInt j "view",
         loc := ← J.getInt j "loc", ready := ← J.getBool j "ready", fresh := ← J.getBool j "fresh" }

def decPair (p : Json) : Except String (Nat × Int) := do
  match (← p.getArr?).toList with
  | [i, q] => pure ((← i.getNat?), (← q.getInt?))
  | _ => throw "bad quota pair"

def decSObs (j : Json) : Except String SObs := do
  pure { total := ← J.getInt j "total", hi := ← J.getInt j "hi", recSum := ← J.getInt j "recSum",
         quotas := ← (← J.getArr j "quotas").toList.mapM decPair }

def decUObs (j : Json) : Except String UObs := do
  let srv ← match J.optObj j "srv" with
    | some v => do pure (some (← decSObs v))
    | none => pure none
  pure { srv := srv, gws := ← (← J.getArr j "gws").toList.mapM decGObs }

/-- `C07.loopJudge {steps: [[UObs per upstream] per step]}`: the broken clauses per step and upstream -/
def doLoopJudge (a : Json) : Except String Json := do
  let steps ← J.getArr a "steps"
  let res ← steps.toList.mapM fun st => do
    let us ← (← st.getArr?).toList.mapM decUObs
    pure (Json.arr (us.map fun o => Json.arr ((judgeU o).map Json.str).toArray).toArray)
  pure (Json.arr res.toArray)

/-- the regenerated constants the loop model runs on (compared with the compiled ones at start) -/
def doConsts (_ : Json) : Except String Json :=
  pure (J.obj [("clientTimeoutMs", J.nat Reclaim.timeout), ("serverTimeoutNs", J.int KG.Gen.C09.serverHeartBeatTimeout)])

def handle (m : String) (a : Json) : Option (Except String Json) :=
  match m with
  | "loop" => some (doLoop a)
  | "loopJudge" => some (doLoopJudge a)
  | "loopConsts" => some (doConsts a)
  | _ => none

end KG.Driver.C07Loop
