import KG.Driver.Loop
import KG.Driver.C20
/-! Model driver for property C20 (one executable per property, so that properties stay independent). -/
def main : IO Unit := KG.Driver.runLoop [("C20", KG.Driver.C20.handle)]
