import KG.Driver.Loop
import KG.Driver.C04
import KG.Driver.C04Gateway
/-! Model driver for property C04 (one executable per property, so that properties stay independent).
    `C04.gateway` is the composed data-plane model (`KG.Driver.C04Gateway`); everything else is `KG.Driver.C04`. -/
def main : IO Unit := KG.Driver.runLoop [("C04", fun m a =>
  match KG.Driver.C04Gateway.handle m a with
  | some x => some x
  | none => KG.Driver.C04.handle m a)]
