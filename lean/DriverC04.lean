import KG.Driver.Loop
import KG.Driver.C04
/-! Model driver for property C04 (one executable per property, so that properties stay independent). -/
def main : IO Unit := KG.Driver.runLoop [("C04", KG.Driver.C04.handle)]
