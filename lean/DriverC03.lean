import KG.Driver.Loop
import KG.Driver.C03
/-! Model driver for property C03 (one executable per property, so that properties stay independent). -/
def main : IO Unit := KG.Driver.runLoop [("C03", KG.Driver.C03.handle)]
