import KG.Driver.Loop
import KG.Driver.C16
/-! Model driver for property C16 (one executable per property, so that properties stay independent). -/
def main : IO Unit := KG.Driver.runLoop [("C16", KG.Driver.C16.handle)]
