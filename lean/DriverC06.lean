import KG.Driver.Loop
import KG.Driver.C06
/-! Model driver for property C06 (one executable per property, so that properties stay independent). -/
def main : IO Unit := KG.Driver.runLoop [("C06", KG.Driver.C06.handle)]
