import KG.Base.Json
