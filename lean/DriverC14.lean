import KG.Driver.Loop
import KG.Driver.C14
/-! Model driver for property C14 (one executable per property, so that properties stay independent). -/
def main : IO Unit := KG.Driver.runLoop [("C14", KG.Driver.C14.handle)]
