import KG.Driver.Loop
import KG.Driver.C03
import KG.Driver.C14
/-! Model driver for property C14 (uses the C03 endpoint model as well). -/
def main : IO Unit := KG.Driver.runLoop [("C14", KG.Driver.C14.handle), ("C03", KG.Driver.C03.handle)]
