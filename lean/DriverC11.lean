import KG.Driver.Loop
import KG.Driver.C11
/-! Model driver for property C11 (one executable per property, so that properties stay independent). -/
def main : IO Unit := KG.Driver.runLoop [("C11", KG.Driver.C11.handle)]
