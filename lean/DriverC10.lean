import KG.Driver.Loop
import KG.Driver.C10
/-! Model driver for property C10 (one executable per property, so that properties stay independent). -/
def main : IO Unit := KG.Driver.runLoop [("C10", KG.Driver.C10.handle)]
