import KG.Driver.Loop
import KG.Driver.C12
/-! Model driver for property C12 (one executable per property, so that properties stay independent). -/
def main : IO Unit := KG.Driver.runLoop [("C12", KG.Driver.C12.handle)]
