import KG.Driver.Loop
import KG.Driver.C15
/-! Model driver for property C15 (one executable per property, so that properties stay independent). -/
def main : IO Unit := KG.Driver.runLoop [("C15", KG.Driver.C15.handle)]
