import KG.Driver.Loop
import KG.Driver.C07
import KG.Driver.C07Loop
/-! Model driver for property C07 (one executable per property, so that properties stay independent).
    `C07.loop…` methods are served by the closed-loop driver (`KG.Driver.C07Loop`). -/
def main : IO Unit :=
  KG.Driver.runLoop [("C07", fun m a => (KG.Driver.C07.handle m a).orElse fun _ => KG.Driver.C07Loop.handle m a)]
