import KG.Driver.Loop
import KG.Driver.C07
/-! Model driver for property C07 (one executable per property, so that properties stay independent). -/
def main : IO Unit := KG.Driver.runLoop [("C07", KG.Driver.C07.handle)]
