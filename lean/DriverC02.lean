import KG.Driver.Loop
import KG.Driver.C02
/-! Model driver for property C02 (one executable per property, so that properties stay independent). -/
def main : IO Unit := KG.Driver.runLoop [("C02", KG.Driver.C02.handle)]
