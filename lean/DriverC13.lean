import KG.Driver.Loop
import KG.Driver.C13
/-! Model driver for property C13 (one executable per property, so that properties stay independent). -/
def main : IO Unit := KG.Driver.runLoop [("C13", KG.Driver.C13.handle)]
