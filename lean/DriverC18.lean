import KG.Driver.Loop
import KG.Driver.C18
/-! Model driver for property C18 (one executable per property, so that properties stay independent). -/
def main : IO Unit := KG.Driver.runLoop [("C18", KG.Driver.C18.handle)]
