import KG.Driver.Loop
import KG.Driver.C08
/-! Model driver for property C08 (one executable per property, so that properties stay independent). -/
def main : IO Unit := KG.Driver.runLoop [("C08", KG.Driver.C08.handle)]
