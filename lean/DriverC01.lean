import KG.Driver.Loop
import KG.Driver.C01
/-! Model driver for property C01 (one executable per property, so that properties stay independent). -/
def main : IO Unit := KG.Driver.runLoop [("C01", KG.Driver.C01.handle)]
