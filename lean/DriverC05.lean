import KG.Driver.Loop
import KG.Driver.C05
/-! Model driver for property C05 (one executable per property, so that properties stay independent). -/
def main : IO Unit := KG.Driver.runLoop [("C05", KG.Driver.C05.handle)]
