import KG.Driver.Loop
import KG.Driver.C19
/-! Model driver for property C19 (one executable per property, so that properties stay independent). -/
def main : IO Unit := KG.Driver.runLoop [("C19", KG.Driver.C19.handle)]
