import KG.Driver.Loop
import KG.Driver.C09
/-! Model driver for property C09 (one executable per property, so that properties stay independent). -/
def main : IO Unit := KG.Driver.runLoop [("C09", KG.Driver.C09.handle)]
