import KG.Base.Json
import KG.Driver.C01
import KG.Driver.C02
import KG.Driver.C03
import KG.Driver.C04
import KG.Driver.C05
import KG.Driver.C06
import KG.Driver.C07
import KG.Driver.C08
import KG.Driver.C09
import KG.Driver.C10
import KG.Driver.C11
import KG.Driver.C12
import KG.Driver.C13
import KG.Driver.C14
import KG.Driver.C15
import KG.Driver.C16
import KG.Driver.C17
import KG.Driver.C18
import KG.Driver.C19
import KG.Driver.C20
/-! `kgdriver`: one JSON request per line on stdin (`{"m":"C07.next","a":{…}}`), one JSON reply per
    line on stdout: `{"ok":…}` or `{"err":"…"}`. Stateless: a request carries a whole case. -/
open Lean KG

def dispatch (m : String) (a : Json) : Except String Json :=
  let (p, rest) := ((m.take 3).toString, (m.drop 4).toString)
  let r : Option (Except String Json) :=
    match p with
    | "C01" => Driver.C01.handle rest a | "C02" => Driver.C02.handle rest a
    | "C03" => Driver.C03.handle rest a | "C04" => Driver.C04.handle rest a
    | "C05" => Driver.C05.handle rest a | "C06" => Driver.C06.handle rest a
    | "C07" => Driver.C07.handle rest a | "C08" => Driver.C08.handle rest a
    | "C09" => Driver.C09.handle rest a | "C10" => Driver.C10.handle rest a
    | "C11" => Driver.C11.handle rest a | "C12" => Driver.C12.handle rest a
    | "C13" => Driver.C13.handle rest a | "C14" => Driver.C14.handle rest a
    | "C15" => Driver.C15.handle rest a | "C16" => Driver.C16.handle rest a
    | "C17" => Driver.C17.handle rest a | "C18" => Driver.C18.handle rest a
    | "C19" => Driver.C19.handle rest a | "C20" => Driver.C20.handle rest a
    | _ => none
  match r with
  | some x => x
  | none => .error s!"unknown method {m}"

def reply (line : String) : String :=
  match Json.parse line with
  | .error e => (Json.mkObj [("err", Json.str s!"parse: {e}")]).compress
  | .ok j =>
    match j.getObjVal? "m" >>= (·.getStr?) with
    | .error e => (Json.mkObj [("err", Json.str e)]).compress
    | .ok m =>
      let a := (j.getObjVal? "a").toOption.getD Json.null
      match dispatch m a with
      | .ok v => (Json.mkObj [("ok", v)]).compress
      | .error e => (Json.mkObj [("err", Json.str e)]).compress

partial def loop (hin hout : IO.FS.Stream) : IO Unit := do
  let line ← hin.getLine
  if line.isEmpty then return ()
  hout.putStrLn (reply line)
  hout.flush
  loop hin hout

def main : IO Unit := do
  loop (← IO.getStdin) (← IO.getStdout)
