import KG.Driver.Loop
import KG.Driver.C01
import KG.Driver.C17
/-! Model driver for property C17 (uses the C01 matcher model as well). -/
def main : IO Unit := KG.Driver.runLoop [("C17", KG.Driver.C17.handle), ("C01", KG.Driver.C01.handle)]
