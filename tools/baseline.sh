#!/bin/bash
# Runs the repository's pinned test suite (guard off: no -tags, no overlay) and compares with BASELINE.json's stable_pass.
export GOFLAGS=-mod=mod GOPROXY=off GOSUMDB=off GOTOOLCHAIN=local
REPO=${VERIF_REPO:-/repo}
out=$(mktemp)
for m in . ./staging/src/github.com/kubewharf/apiserver-runtime; do
  (cd $REPO/$m && go test -json -vet=off -count=1 -timeout 25m ./... 2>&1) >> $out
done
python3 - "$out" <<'PY'
import json,sys
base=set(json.load(open('/root/.vp/BASELINE.json'))['stable_pass'])
passed=set()
for l in open(sys.argv[1]):
    try: e=json.loads(l)
    except Exception: continue
    if e.get('Action')=='pass' and e.get('Test'):
        passed.add(e['Package']+'::'+e['Test'])
missing=sorted(base-passed)
print("baseline tests passing: %d/%d"%(len(base&passed),len(base)))
for m in missing: print("MISSING",m)
sys.exit(1 if missing else 0)
PY
rc=$?
rm -f $out
exit $rc
