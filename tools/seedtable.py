#!/usr/bin/env python3
"""tools/seedtable.py: regenerate the table of DESIGN.md §9.4 (between the SEEDTABLE markers) from seeded/*/meta.json."""
import json, os, re, sys

root = "/verif/seeded"
rows = []


def key(name):
    m = re.match(r"(C\d+)(?:-r(\d+))?-m(\d+)$", name)
    return (m.group(1), int(m.group(2) or 1), int(m.group(3)))


def first_verdict(d):
    t = d.get("detected_by", "")
    if d.get("first_verdict"):
        return d["first_verdict"]
    if t.startswith("MISSED"):
        return "missed at first → check strengthened, now a judge VIOLATION with replay"
    if "no-failing-input-found" in t:
        return "broken proof/tie only at first (no-failing-input-found) → search strengthened, now a replay"
    if "INFRA" in t:
        return "harness could not run at first → made robust, now a judge VIOLATION with replay"
    if "NOT-MANIFEST" in t:
        return "not kept as a valid change (see meta.json)"
    return "judge VIOLATION with replay"


def clean(s, n):
    s = " ".join(s.split()).replace("|", "/")
    return s if len(s) <= n else s[: n - 1] + "…"


for name in sorted((n for n in os.listdir(root) if re.match(r'C\d+(-r\d+)?-m\d+$', n)), key=key):
    p = os.path.join(root, name, "meta.json")
    if not os.path.exists(p):
        continue
    d = json.load(open(p))
    prop, rnd, m = key(name)
    rows.append("| %s | %d | %s | %s | %s |" % (name, rnd, clean(d.get("summary", ""), 170), clean(d.get("needs", ""), 130), first_verdict(d)))

table = ["| seeded change | round | what it does | what it needs | verdict of `./check <id> quick` |", "|---|---|---|---|---|"] + rows
stats = {}
for name in os.listdir(root):
    p = os.path.join(root, name, "meta.json")
    if os.path.exists(p) and re.match(r'C\d+(-r\d+)?-m\d+$', name):
        v = first_verdict(json.load(open(p)))
        k = "caught" if v.startswith("judge") else "missed" if v.startswith("missed") else "tie-only" if v.startswith("broken") else "other"
        r = key(name)[1]
        stats.setdefault(r, {}).setdefault(k, 0)
        stats[r][k] += 1
summary = ["", "First verdicts per round (before any strengthening prompted by that round): " +
           "; ".join("round %d: %s" % (r, ", ".join("%d %s" % (n, k) for k, n in sorted(stats[r].items()))) for r in sorted(stats)) + ".", ""]

design = open("/verif/DESIGN.md").read()
a, b = "<!-- SEEDTABLE:BEGIN -->", "<!-- SEEDTABLE:END -->"
if a not in design:
    sys.exit("markers missing in DESIGN.md")
pre, rest = design.split(a, 1)
_, post = rest.split(b, 1)
open("/verif/DESIGN.md", "w").write(pre + a + "\n" + "\n".join(table + summary) + b + post)
print("rows", len(rows), stats)
