#!/bin/bash
# tools/searchsweep.sh <seed> <jobs> [ids...]: run every harness in SEARCH mode (what ./check does once a tie or an obligation is
# broken: 10x budget) on the UNCHANGED tree and list judge failures — there must be none (a judge failure here would become a
# bogus replay on any harmless change that breaks a tie).
cd "$(dirname "$0")/.."
seed=$1; jobs=$2; shift 2
ids=${@:-$(ls harness/cmd | tr a-z A-Z | grep '^C[0-9]')}
mkdir -p .build/search
for id in $ids; do echo $id; done | xargs -P $jobs -I{} sh -c '
id={}; lc=$(echo $id | tr A-Z a-z)
VERIF_SEED='$seed' ./check $id quick > .build/search/$id.check.log 2>&1 || { echo "$id CHECK-NOT-OK"; exit 0; }
cp .build/bin/$lc .build/search/bin_$lc
GOMAXPROCS=16 VERIF_DIR=/verif VERIF_REPO=/repo GOFLAGS=-mod=mod timeout 3000 .build/search/bin_$lc -tier quick -seed '$seed' -out .build/search/$id.json -driver lean/.lake/build/bin/kgd_$lc -search > .build/search/$id.log 2>&1
rc=$?
python3 - <<PY
import json
try:
    r=json.load(open(".build/search/$id.json"))
    j=[f for f in r["failures"] if f["kind"]=="judge" and not str(f.get("class","")).startswith("compose.")]
    d=[f for f in r["failures"] if f["kind"]=="diff"]
    print("$id rc=$rc judge=%d diff=%d %s" % (len(j), len(d), " | ".join((str(f.get("class"))+": "+f["what"][:160]) for f in (j+d)[:2])))
except Exception as e:
    print("$id rc=$rc NO-RESULT", e)
PY
rm -f .build/search/bin_$lc'
