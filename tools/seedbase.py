#!/usr/bin/env python3
"""tools/seedbase.py: record in seeded/*/meta.json the newest /repo commit each archived patch still applies to
(`applies_at`: "HEAD" or a commit; later fix: commits may have moved the code a patch was written against)."""
import json, os, subprocess, glob, tempfile
commits = subprocess.check_output(["git", "-C", "/repo", "rev-list", "--max-count=80", "HEAD"], text=True).split()
head = commits[0]
def applies(commit, patch):
    with tempfile.NamedTemporaryFile() as idx:
        env = dict(os.environ, GIT_INDEX_FILE=idx.name)
        os.unlink(idx.name) if False else None
        subprocess.check_call(["git", "-C", "/repo", "read-tree", commit], env=env)
        return subprocess.call(["git", "-C", "/repo", "apply", "--cached", "--check", patch], env=env,
                               stdout=subprocess.DEVNULL, stderr=subprocess.DEVNULL) == 0
n = stale = 0
for meta in sorted(glob.glob("/verif/seeded/*/meta.json") + glob.glob("/verif/seeded/harmless/*/meta.json")):
    patch = os.path.join(os.path.dirname(meta), "patch.diff")
    if not os.path.exists(patch):
        continue
    d = json.load(open(meta))
    at = None
    for c in commits:
        if applies(c, patch):
            at = c
            break
    d["applies_at"] = "HEAD (%s)" % head[:7] if at == head else (at[:7] if at else "older than the last 80 commits")
    json.dump(d, open(meta, "w"), indent=1)
    n += 1
    stale += at != head
print("patches", n, "not applying to HEAD any more", stale)
