#!/bin/bash
# tools/sweep.sh "<seeds>" <jobs> [ids...]: quick checks over several seeds, <jobs> at a time; prints every run that is not OK.
cd "$(dirname "$0")/.."
seeds=$1; jobs=$2; shift 2
ids=${@:-$(ls harness/cmd | tr a-z A-Z | grep '^C[0-9]')}
mkdir -p .build/sweep
for s in $seeds; do for id in $ids; do echo "$s $id"; done; done | xargs -P $jobs -L1 sh -c 'VERIF_SEED=$0 ./check $1 quick > .build/sweep/$1-$0.log 2>&1; rc=$?; echo "$1 seed=$0 rc=$rc $(grep -E "^(OK|VIOLATION|INFRA|KNOWN)" .build/sweep/$1-$0.log | head -2 | tr "\n" " " | cut -c1-160)"'
