#!/usr/bin/env python3
"""Regenerates /verif/MANIFEST.json from tools/claims.json (claimed properties) and properties.jsonl."""
import json, os
V = os.path.dirname(os.path.dirname(os.path.abspath(__file__)))
props = [json.loads(l) for l in open(os.path.join(V, "properties.jsonl"))]
claims = json.load(open(os.path.join(V, "tools", "claims.json")))
na_reasons = {}
p = os.path.join(V, "tools", "not_applicable.json")
if os.path.exists(p):
    na_reasons = json.load(open(p))
checks, na = [], []
for pr in props:
    i = pr["id"]
    if i in claims:
        c = claims[i]
        checks.append({
            "property_id": i, "quick_cmd": "./check %s quick" % i, "thorough_cmd": "./check %s thorough" % i,
            "evidence_file": "/verif/evidence/%s.json" % i, "replay_cmd_template": "./check %s --replay {path}" % i,
            "engine": "lean-kg+kgharness",
            "level_claimed": {"category": c.get("category", "proof"), "text": c["text"], "design_ref": "DESIGN.md §5 " + i},
            "level_note": ("Trusted: Lean kernel (axioms propext, Classical.choice, Quot.sound only; audited per run), the reading of the "
                           "property in KG/Spec + KG/Props, and the correspondence harness (testing: model = code on the inputs run). "
                           "See DESIGN.md §3. " + c.get("note", "")).strip(),
            "technique": c["technique"]})
    else:
        na.append({"property_id": i, "reason": na_reasons.get(i, "check under construction in this build phase (model/theorems/harness not yet passing on the unchanged tree); not claimed until it does")})
m = {"version": 1, "setup_cmd": "./setup.sh",
     "hooks": {"guard": "verif",
               "enable": "go build -tags verif -overlay .build/overlay_<id>.json (export shims under harness/overlays, injected without editing /repo)",
               "baseline_off_cmd": "tools/baseline.sh", "source_commits": [], "add_only": True},
     "engines": [
         {"name": "lean-kg", "path": "lean", "serves_properties": sorted(claims), "kind_free_text": "Lean 4 models, specs, theorems, audit, per-property model drivers kgd_cxx"},
         {"name": "kgharness", "path": "harness", "serves_properties": sorted(claims), "kind_free_text": "Go correspondence harnesses against /repo's working tree (generated go.mod, overlay shims)"},
         {"name": "extract", "path": "tools/extract", "serves_properties": sorted(i for i in claims if os.path.isdir(os.path.join(V, "tools", "extract", i.lower()))), "kind_free_text": "go/ast extractors regenerating lean/KG/Gen"}],
     "checks": checks, "not_applicable": na,
     "notes": "Fix commits in /repo are listed in known_findings.txt (fixed: lines) with demonstrations under findings/."}
json.dump(m, open(os.path.join(V, "MANIFEST.json"), "w"), indent=1)
print("claimed:", sorted(claims), "not claimed:", [x["property_id"] for x in na])
