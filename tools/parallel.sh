#!/bin/bash
# tools/parallel.sh <seed> <jobs>: all quick checks, <jobs> at a time (load robustness)
cd "$(dirname "$0")/.."
seed=${1:-7}; jobs=${2:-6}
ls harness/cmd | tr a-z A-Z | grep '^C[0-9]' | xargs -P $jobs -I{} sh -c "VERIF_SEED=$seed ./check {} quick > /tmp/par_{}.log 2>&1; echo {} rc=\$? \$(grep -E '^(OK|VIOLATION|INFRA)' /tmp/par_{}.log | head -1 | cut -c1-120)"
