#!/bin/bash
# tools/harmbatch.sh PROP...: run ./check <PROP> quick against the property-PRESERVING changes in $SEEDDIR/PROP/h1..h3
# (scratch worktree each); prints OK / TIE-ONLY (no-failing-input-found) / JUDGE (a failing input is claimed: to be examined)
export GOFLAGS=-mod=mod GOPROXY=off GOSUMDB=off GOTOOLCHAIN=local
for prop in "$@"; do for h in h1 h2 h3; do
  d=${SEEDDIR:-/tmp/seedout5}/$prop/$h
  [ -f $d/patch.diff ] || continue
  wt=/tmp/wt-harm-$prop-$$
  git -C /repo worktree add --detach $wt HEAD -q || exit 2
  if ! git -C $wt apply $d/patch.diff 2>/dev/null; then echo "$prop-$h PATCH-DOES-NOT-APPLY"; git -C /repo worktree remove --force $wt; continue; fi
  b=$( (cd $wt && go build ./... 2>&1 | tail -1) )
  base=$(VERIF_REPO=$wt /verif/tools/baseline.sh | tail -1)
  out=$(cd /verif && VERIF_REPO=$wt ./check $prop quick 2>&1)
  v=$(echo "$out" | grep -E "^(OK|VIOLATION|INFRA)" | head -1)
  kind=OK
  case "$v" in
    VIOLATION*no-failing-input-found) kind=TIE-ONLY;;
    VIOLATION*) kind=JUDGE;;
    INFRA*) kind=INFRA;;
    "") kind=NO-VERDICT;;
  esac
  why=$(echo "$out" | grep -m1 "property fails\|differ\|no longer\|extractor" | cut -c1-220)
  echo "$prop-$h $kind | build:${b:-ok} | $base | $why"
  git -C /repo worktree remove --force $wt
done; done
