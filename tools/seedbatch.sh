#!/bin/bash
# tools/seedbatch.sh PROP...: verify /tmp/seedout/PROP/m1,m2 with seedcheck, compact output
for prop in "$@"; do for m in m1 m2; do
  d=${SEEDDIR:-/tmp/seedout}/$prop/$m
  [ -f $d/patch.diff ] || continue
  pkg=$(grep -h -o -E "(pkg|plugin|cmd|staging)/[A-Za-z0-9_/.-]+" $d/demo*_test.go | grep -v "_test.go" | head -1 | sed 's#/$##')
  out=$(/verif/tools/seedcheck.sh $prop $d $pkg . 2>&1)
  base=$(echo "$out" | grep -m1 "baseline tests passing")
  with=$(echo "$out" | sed -n '/demo WITH/,/check .* quick against/p' | grep -c "^FAIL")
  verdict=$(echo "$out" | grep -E "^(OK|VIOLATION)" | head -1 | cut -c1-90)
  why=$(echo "$out" | grep -m1 "property fails\|differ\|no longer" | cut -c1-260)
  without=$(echo "$out" | sed -n '/demo WITHOUT/,$p' | grep -c "^ok")
  echo "$prop-$m pkg=$pkg | $base | demoFailsWith=$with demoPassesWithout=$without | $verdict | $why"
done; done
