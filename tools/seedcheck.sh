#!/bin/bash
# tools/seedcheck.sh <PROP> <dir with patch.diff + demo*_test.go> <package dir for the demo> [demo run regex]
# Confirms a seeded change (compiles, existing tests pass, demo fails with / passes without) and runs ./check against it.
export GOFLAGS=-mod=mod GOPROXY=off GOSUMDB=off GOTOOLCHAIN=local
prop=$1; d=$2; pkg=$3; rx=${4:-.}
wt=/tmp/wt-seed-$prop-$$
git -C /repo worktree add --detach $wt HEAD -q || exit 2
trap "git -C /repo worktree remove --force $wt" EXIT
cd $wt
git apply $d/patch.diff || { echo "PATCH DOES NOT APPLY"; exit 2; }
go build ./... 2>&1 | tail -3 || { echo "BUILD FAILS"; }
echo "--- existing tests with the change"
VERIF_REPO=$wt /verif/tools/baseline.sh | tail -3
for f in $d/*_test.go; do cp $f $wt/$pkg/zz_seed_$(basename $f); done
echo "--- demo WITH the change (expect FAIL)"
(cd $wt/$pkg && go test -vet=off -count=1 -run "$rx" . 2>&1 | tail -4)
echo "--- ./check $prop quick against the change"
(cd /verif && VERIF_REPO=$wt ./check $prop quick 2>&1 | grep -E "^(OK|VIOLATION|KNOWN|INFRA)|property fails|differ|no longer" | head -5)
git apply -R $d/patch.diff
echo "--- demo WITHOUT the change (expect PASS)"
(cd $wt/$pkg && go test -vet=off -count=1 -run "$rx" . 2>&1 | tail -3)
