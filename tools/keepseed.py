#!/usr/bin/env python3
"""tools/keepseed.py <PROP> <srcdir> <name> <detected> <ran...>: archive a confirmed seeded change under /verif/seeded/<name>/"""
import json, os, shutil, sys
prop, src, name, detected = sys.argv[1:5]
ran = sys.argv[5:]
dst = os.path.join("/verif/seeded", name)
os.makedirs(dst, exist_ok=True)
shutil.copy(os.path.join(src, "patch.diff"), os.path.join(dst, "patch.diff"))
for f in os.listdir(src):
    if f.endswith("_test.go") or f == "main.go":
        shutil.copy(os.path.join(src, f), os.path.join(dst, f + ".txt"))
meta = {}
try:
    meta = json.load(open(os.path.join(src, "meta.json")))
except Exception:
    pass
out = {"property": prop, "summary": meta.get("summary", ""), "needs": meta.get("needs", ""), "files": meta.get("files", []),
       "author_ran": meta.get("ran", []),
       "confirmed": ["tools/seedcheck.sh: patch applies to /repo HEAD, go build ./... ok, pinned baseline 155/155 with the change, demonstration FAILS with the change and PASSES without it"] + ran,
       "detected_by": detected}
json.dump(out, open(os.path.join(dst, "meta.json"), "w"), indent=1)
print("kept", dst)
