#!/bin/bash
# tools/runall.sh [tier] [ids...] : runs ./check for the given (default: all with a harness) properties sequentially, prints one line each.
cd "$(dirname "$0")/.."
tier=${1:-quick}; shift
ids=${@:-$(ls harness/cmd | tr a-z A-Z)}
for id in $ids; do
  s=$(date +%s)
  out=$(./check $id $tier 2>&1); rc=$?
  e=$(( $(date +%s) - s ))
  echo "$id rc=$rc ${e}s :: $(echo "$out" | grep -E '^(OK|VIOLATION|KNOWN-FINDING|INFRA)' | tr '\n' ' ' | cut -c1-260)"
done
