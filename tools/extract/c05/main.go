// Regenerates lean/KG/Gen/C05.lean from the current sources:
//
//   - serveHTTP: the top-level statements of dispatcher.ServeHTTP, classified for the release-exactly-once
//     argument (guard / acquireGuard / deferRelease / deferOther / other / bad);
//   - tryAcquireOps / releaseOps / resizeOps: the shared-memory operations of the dependency's
//     atomicTokenBucket (github.com/zoumo/golib/lock/maxinflight) in source order — one model step each;
//   - counterCtor: how flowcontrol.NewFlowControl builds the max-in-flight limiter and which implementation
//     that resolves to in the dependency;
//   - loadLocalReturns: the limiter values upstreamLimiter.Load returns.
//
// With -instrument <dir> it also writes an instrumented copy of the dependency file (a scheduler hook
// before every statement that performs one of those operations, plus a state accessor) and the overlay
// mapping that swaps it in for the harness build (schedule replay).
package main

import (
	"bytes"
	"encoding/json"
	"flag"
	"fmt"
	"go/ast"
	"go/parser"
	"go/printer"
	"go/token"
	"os"
	"os/exec"
	"path/filepath"
	"sort"
	"strings"

	"extract/lib"
)

var instrument = flag.String("instrument", "", "directory for the instrumented dependency copy + overlay json")

const (
	depModule = "github.com/zoumo/golib"
	depFile   = "lock/maxinflight/max_inflight.go"
	depType   = "atomicTokenBucket"
)

func exprString(fset *token.FileSet, e ast.Node) string {
	var b bytes.Buffer
	printer.Fprint(&b, fset, e)
	return b.String()
}

// mentions reports whether n contains a call x.TryAcquire(...) or x.Release(...).
func mentions(n ast.Node) bool {
	found := false
	ast.Inspect(n, func(x ast.Node) bool {
		if se, ok := x.(*ast.SelectorExpr); ok && (se.Sel.Name == "TryAcquire" || se.Sel.Name == "Release") {
			found = true
		}
		return !found
	})
	return found
}

// hasReturn reports whether n contains a return statement outside function literals.
func hasReturn(n ast.Node) bool {
	found := false
	ast.Inspect(n, func(x ast.Node) bool {
		switch x.(type) {
		case *ast.FuncLit:
			return false
		case *ast.ReturnStmt:
			found = true
		}
		return !found
	})
	return found
}

func methodCallOnIdent(e ast.Expr, method string) (string, bool) {
	ce, ok := e.(*ast.CallExpr)
	if !ok || len(ce.Args) != 0 {
		return "", false
	}
	se, ok := ce.Fun.(*ast.SelectorExpr)
	if !ok || se.Sel.Name != method {
		return "", false
	}
	id, ok := se.X.(*ast.Ident)
	if !ok {
		return "", false
	}
	return id.Name, true
}

func classifyServeHTTP(g *lib.Gen) []string {
	const file = "pkg/gateway/proxy/dispatcher/dispatcher.go"
	f := g.ParseFile(file)
	fd := lib.FuncDecl(f, "dispatcher", "ServeHTTP")
	if fd == nil || fd.Body == nil {
		lib.Fatalf("dispatcher.ServeHTTP not found in %s", file)
	}
	var out []string
	acquired := ""
	for _, st := range fd.Body.List {
		if !mentions(st) {
			switch {
			case hasReturn(st):
				out = append(out, "guard")
			default:
				if _, ok := st.(*ast.DeferStmt); ok {
					out = append(out, "deferOther")
				} else {
					out = append(out, "other")
				}
			}
			continue
		}
		kind := "bad"
		switch s := st.(type) {
		case *ast.IfStmt:
			// if !X.TryAcquire() { ... ; return }   (no init, no else, body does not touch the limiter's slot)
			if ue, ok := s.Cond.(*ast.UnaryExpr); ok && ue.Op == token.NOT && s.Init == nil && s.Else == nil {
				if x, ok := methodCallOnIdent(ue.X, "TryAcquire"); ok && len(s.Body.List) > 0 {
					_, endsInReturn := s.Body.List[len(s.Body.List)-1].(*ast.ReturnStmt)
					bodyTouches := false
					ast.Inspect(s.Body, func(n ast.Node) bool {
						if se, ok := n.(*ast.SelectorExpr); ok && (se.Sel.Name == "TryAcquire" || se.Sel.Name == "Release") {
							bodyTouches = true
						}
						return true
					})
					if endsInReturn && !bodyTouches && acquired == "" {
						kind = "acquireGuard"
						acquired = x
					}
				}
			}
		case *ast.DeferStmt:
			if x, ok := methodCallOnIdent(s.Call, "Release"); ok && x == acquired && acquired != "" {
				kind = "deferRelease"
			}
		}
		out = append(out, kind)
	}
	return out
}

// ---- the dependency ---------------------------------------------------------------------------------

func depDir(repo string) string {
	cmd := exec.Command("go", "list", "-m", "-f", "{{.Dir}}", depModule)
	cmd.Dir = repo
	cmd.Env = append(os.Environ(), "GOFLAGS=-mod=mod", "GOPROXY=off", "GOSUMDB=off", "GOTOOLCHAIN=local")
	b, err := cmd.Output()
	if err != nil {
		lib.Fatalf("cannot locate %s from %s/go.mod: %v", depModule, repo, err)
	}
	d := strings.TrimSpace(string(b))
	if d == "" {
		lib.Fatalf("%s has no directory (module not in the cache?)", depModule)
	}
	return d
}

type sharedOp struct {
	pos   token.Pos
	what  string
	label string
}

// sharedOps lists, in source order, the shared-memory operations in n: atomic.X(&recv.field, ...) calls and
// plain reads/writes of recv.field.
func sharedOps(n ast.Node, recv string) []sharedOp {
	var ops []sharedOp
	skip := map[ast.Node]bool{}
	ast.Inspect(n, func(x ast.Node) bool {
		if x == nil || skip[x] {
			return false
		}
		switch e := x.(type) {
		case *ast.CallExpr:
			if se, ok := e.Fun.(*ast.SelectorExpr); ok {
				if id, ok := se.X.(*ast.Ident); ok && id.Name == "atomic" && len(e.Args) > 0 {
					field := "?"
					if ue, ok := e.Args[0].(*ast.UnaryExpr); ok && ue.Op == token.AND {
						if fs, ok := ue.X.(*ast.SelectorExpr); ok {
							if r, ok := fs.X.(*ast.Ident); ok && r.Name == recv {
								field = fs.Sel.Name
							}
						}
					}
					what := "atomic." + se.Sel.Name + " " + field
					for _, a := range e.Args[1:] {
						what += " " + exprString(token.NewFileSet(), a)
					}
					ops = append(ops, sharedOp{pos: e.Pos(), what: what})
					skip[e.Args[0]] = true
				}
			}
		case *ast.SelectorExpr:
			if r, ok := e.X.(*ast.Ident); ok && r.Name == recv {
				ops = append(ops, sharedOp{pos: e.Pos(), what: "read " + e.Sel.Name})
			}
		}
		return true
	})
	sort.Slice(ops, func(i, j int) bool { return ops[i].pos < ops[j].pos })
	return ops
}

func recvName(fd *ast.FuncDecl) string {
	if fd.Recv != nil && len(fd.Recv.List) == 1 && len(fd.Recv.List[0].Names) == 1 {
		return fd.Recv.List[0].Names[0].Name
	}
	return ""
}

// headerNodes returns the parts of a statement that execute as part of the statement itself,
// i.e. everything except nested blocks.
func headerOps(st ast.Stmt, recv string) ([]sharedOp, []*ast.BlockStmt, bool) {
	switch s := st.(type) {
	case *ast.IfStmt:
		var ops []sharedOp
		if s.Init != nil {
			ops = append(ops, sharedOps(s.Init, recv)...)
		}
		ops = append(ops, sharedOps(s.Cond, recv)...)
		blocks := []*ast.BlockStmt{s.Body}
		switch e := s.Else.(type) {
		case nil:
		case *ast.BlockStmt:
			blocks = append(blocks, e)
		case *ast.IfStmt:
			// `else if`: its condition cannot be prefixed by a statement; only supported when it performs no shared operation
			o, b, ok := headerOps(e, recv)
			if !ok || len(o) != 0 {
				return nil, nil, false
			}
			blocks = append(blocks, b...)
		}
		return ops, blocks, true
	case *ast.BlockStmt:
		return nil, []*ast.BlockStmt{s}, true
	case *ast.ForStmt, *ast.RangeStmt, *ast.SwitchStmt, *ast.TypeSwitchStmt, *ast.SelectStmt, *ast.GoStmt, *ast.DeferStmt, *ast.LabeledStmt:
		if len(sharedOps(st, recv)) != 0 {
			return nil, nil, false
		}
		return nil, nil, true
	default:
		return sharedOps(st, recv), nil, true
	}
}

type insertion struct {
	off   int
	label string
}

// walk assigns labels Method.k to the operations in source order and records one insertion point per
// statement that performs an operation. A statement performing two operations in its own header is not
// supported (the model's step granularity would not match), except that it is reported, not guessed.
func walk(fset *token.FileSet, method, recv string, b *ast.BlockStmt, k *int, ops *[]string, ins *[]insertion) {
	for _, st := range b.List {
		h, blocks, ok := headerOps(st, recv)
		if !ok {
			lib.Fatalf("%s.%s: statement at %s has a shape the instrumenter does not support", depType, method, fset.Position(st.Pos()))
		}
		if len(h) > 1 {
			lib.Fatalf("%s.%s: statement at %s performs %d shared-memory operations", depType, method, fset.Position(st.Pos()), len(h))
		}
		if len(h) == 1 {
			label := fmt.Sprintf("%s.%d", method, *k)
			*k++
			*ops = append(*ops, h[0].what)
			*ins = append(*ins, insertion{off: fset.Position(st.Pos()).Offset, label: label})
		}
		for _, nb := range blocks {
			walk(fset, method, recv, nb, k, ops, ins)
		}
	}
}

func dependency(g *lib.Gen) (tryOps, relOps, resOps, ctor []string) {
	dir := depDir(g.Repo)
	path := filepath.Join(dir, depFile)
	src, err := os.ReadFile(path)
	if err != nil {
		lib.Fatalf("%v", err)
	}
	fset := token.NewFileSet()
	f, err := parser.ParseFile(fset, path, src, parser.ParseComments)
	if err != nil {
		lib.Fatalf("parse %s: %v", path, err)
	}
	var ins []insertion
	get := func(method string) []string {
		fd := lib.FuncDecl(f, depType, method)
		if fd == nil || fd.Body == nil || recvName(fd) == "" {
			lib.Fatalf("%s.%s not found in %s", depType, method, path)
		}
		var ops []string
		k := 0
		walk(fset, method, recvName(fd), fd.Body, &k, &ops, &ins)
		return ops
	}
	tryOps, relOps, resOps = get("TryAcquire"), get("Release"), get("Resize")

	// constructor chain: New -> newBucket(Atomic, size) -> case Atomic: return newAtomic(size) -> &atomicTokenBucket{
	chain := []string{}
	if fd := lib.FuncDecl(f, "", "New"); fd != nil && len(fd.Body.List) == 1 {
		chain = append(chain, "New="+exprString(fset, fd.Body.List[0]))
	}
	if fd := lib.FuncDecl(f, "", "newBucket"); fd != nil {
		ast.Inspect(fd, func(n ast.Node) bool {
			if cc, ok := n.(*ast.CaseClause); ok && len(cc.List) == 1 && exprString(fset, cc.List[0]) == "Atomic" && len(cc.Body) == 1 {
				chain = append(chain, "Atomic:"+exprString(fset, cc.Body[0]))
			}
			return true
		})
	}
	if fd := lib.FuncDecl(f, "", "newAtomic"); fd != nil && len(fd.Body.List) == 1 {
		if rs, ok := fd.Body.List[0].(*ast.ReturnStmt); ok && len(rs.Results) == 1 {
			if ue, ok := rs.Results[0].(*ast.UnaryExpr); ok {
				if cl, ok := ue.X.(*ast.CompositeLit); ok {
					chain = append(chain, "newAtomic=&"+exprString(fset, cl.Type))
				}
			}
		}
	}
	ctor = chain

	if *instrument != "" {
		sort.Slice(ins, func(i, j int) bool { return ins[i].off > ins[j].off })
		out := append([]byte{}, src...)
		for _, in := range ins {
			stmt := []byte(fmt.Sprintf("verifPoint(%q); ", in.label))
			out = append(out[:in.off], append(stmt, out[in.off:]...)...)
		}
		out = append(out, []byte(`

// ---- added by /verif tools/extract/c05 -instrument (schedule replay); never part of a normal build ----

// VerifHook, when set, is called before every shared-memory operation of atomicTokenBucket.
var VerifHook func(label string)

func verifPoint(label string) {
	if h := VerifHook; h != nil {
		h(label)
	}
}

// VerifState returns the shared state of an atomic token bucket.
func VerifState(tb TokenBucket) (count int64, max uint32, ok bool) {
	a, ok := tb.(*atomicTokenBucket)
	if !ok {
		return 0, 0, false
	}
	return atomic.LoadInt64(&a.count), atomic.LoadUint32(&a.max), true
}
`)...)
		if _, err := parser.ParseFile(token.NewFileSet(), path, out, 0); err != nil {
			lib.Fatalf("instrumented copy does not parse: %v", err)
		}
		if err := os.MkdirAll(*instrument, 0o755); err != nil {
			lib.Fatalf("%v", err)
		}
		gen := filepath.Join(*instrument, "max_inflight_instrumented.go")
		if err := os.WriteFile(gen, out, 0o644); err != nil {
			lib.Fatalf("%v", err)
		}
		m, _ := json.MarshalIndent(map[string]string{path: gen}, "", " ")
		if err := os.WriteFile(filepath.Join(*instrument, "maxinflight.json"), m, 0o644); err != nil {
			lib.Fatalf("%v", err)
		}
	}
	return
}

func counterCtor(g *lib.Gen) string {
	const file = "pkg/flowcontrols/flowcontrol/flowcontrol.go"
	f := g.ParseFile(file)
	fd := lib.FuncDecl(f, "", "NewFlowControl")
	if fd == nil {
		lib.Fatalf("NewFlowControl not found in %s", file)
	}
	res := ""
	ast.Inspect(fd, func(n ast.Node) bool {
		cc, ok := n.(*ast.CaseClause)
		if !ok || len(cc.List) != 1 || !strings.HasSuffix(exprString(g.Fset(), cc.List[0]), "MaxRequestsInflight") {
			return true
		}
		ast.Inspect(cc, func(m ast.Node) bool {
			if kv, ok := m.(*ast.KeyValueExpr); ok {
				if id, ok := kv.Key.(*ast.Ident); ok && id.Name == "TokenBucket" {
					res = exprString(g.Fset(), kv.Value)
				}
			}
			return true
		})
		return false
	})
	if res == "" {
		lib.Fatalf("NewFlowControl: the MaxRequestsInflight case no longer sets TokenBucket: …")
	}
	return res
}

func loadReturns(g *lib.Gen) []string {
	const file = "pkg/flowcontrols/limiter.go"
	f := g.ParseFile(file)
	fd := lib.FuncDecl(f, "upstreamLimiter", "Load")
	if fd == nil {
		lib.Fatalf("upstreamLimiter.Load not found in %s", file)
	}
	var res []string
	ast.Inspect(fd, func(n ast.Node) bool {
		if _, ok := n.(*ast.FuncLit); ok {
			return false
		}
		if rs, ok := n.(*ast.ReturnStmt); ok && len(rs.Results) == 2 {
			s := exprString(g.Fset(), rs.Results[0])
			if strings.Contains(s, "LocalFlowControl") {
				res = append(res, s)
			}
		}
		return true
	})
	return res
}

func main() {
	lib.Main(func(g *lib.Gen) {
		tryOps, relOps, resOps, ctor := dependency(g)
		var b strings.Builder
		b.WriteString("namespace KG.Gen.C05\n")
		b.WriteString("/-! top-level statements of dispatcher.ServeHTTP (pkg/gateway/proxy/dispatcher/dispatcher.go), classified -/\n")
		fmt.Fprintf(&b, "def serveHTTP : List String := %s\n", lib.LeanStrList(classifyServeHTTP(g)))
		b.WriteString("/-! shared-memory operations of " + depModule + "/" + depFile + " (" + depType + "), source order -/\n")
		fmt.Fprintf(&b, "def tryAcquireOps : List String := %s\n", lib.LeanStrList(tryOps))
		fmt.Fprintf(&b, "def releaseOps : List String := %s\n", lib.LeanStrList(relOps))
		fmt.Fprintf(&b, "def resizeOps : List String := %s\n", lib.LeanStrList(resOps))
		b.WriteString("/-! what NewFlowControl puts behind a MaxRequestsInflight schema, and what that is in the dependency -/\n")
		fmt.Fprintf(&b, "def counterCtor : List String := %s\n", lib.LeanStrList(append([]string{counterCtor(g)}, ctor...)))
		b.WriteString("/-! the local limiter values upstreamLimiter.Load returns (pkg/flowcontrols/limiter.go) -/\n")
		fmt.Fprintf(&b, "def loadLocalReturns : List String := %s\n", lib.LeanStrList(loadReturns(g)))
		b.WriteString("end KG.Gen.C05\n")
		g.Emit("C05.lean", b.String())
	})
}
