// Regenerates lean/KG/Gen/C11.lean: the facts of the current sources that the ClusterSync model (C11) imports:
//   - pkg/clusters/features/features.go: the known feature gates with their defaults and pre-release stage,
//     the annotation key;
//   - pkg/clusters/clusterinfo.go: the ORDER of the sub-syncs in ClusterInfo.Sync (callee names of the
//     top-level statements), which sub-sync errors are returned, and the shape of syncFeatureGate
//     (the annotation is applied to a copy of the DEFAULT gates);
//   - pkg/flowcontrols/flowcontrol/flowcontrol.go: "local" / "remote" and the name of the default schema;
//   - pkg/gateway/controllers/upstream_controller.go: that syncUpstreamCluster applies the lister's object
//     (`cluster = latest`) and the requeue parameters of its failure results.
package main

import (
	"fmt"
	"go/ast"
	"go/token"
	"sort"
	"strconv"
	"strings"

	"extract/lib"
)

func selName(e ast.Expr) string {
	switch x := e.(type) {
	case *ast.SelectorExpr:
		return x.Sel.Name
	case *ast.Ident:
		return x.Name
	}
	return ""
}

// exprString renders selector chains like c.flowcontrol.Sync
func exprString(e ast.Expr) string {
	switch x := e.(type) {
	case *ast.SelectorExpr:
		return exprString(x.X) + "." + x.Sel.Name
	case *ast.Ident:
		return x.Name
	case *ast.CallExpr:
		return exprString(x.Fun) + "()"
	}
	return "?"
}

func strLit(e ast.Expr) (string, bool) {
	bl, ok := e.(*ast.BasicLit)
	if !ok || bl.Kind != token.STRING {
		return "", false
	}
	s, err := strconv.Unquote(bl.Value)
	return s, err == nil
}

// specFieldsRead: the X of every `<ident>.Spec.X` selector inside e.
func specFieldsRead(e ast.Expr) []string {
	var out []string
	ast.Inspect(e, func(n ast.Node) bool {
		se, ok := n.(*ast.SelectorExpr)
		if !ok {
			return true
		}
		if in, ok := se.X.(*ast.SelectorExpr); ok && in.Sel.Name == "Spec" {
			out = append(out, se.Sel.Name)
		}
		return true
	})
	return out
}

// leanBytes renders a Go string as a Lean `List UInt8` literal (kernel-reducible, unlike `String.toUTF8`).
func leanBytes(s string) string {
	parts := make([]string, len(s))
	for i := 0; i < len(s); i++ {
		parts[i] = strconv.Itoa(int(s[i]))
	}
	return "[" + strings.Join(parts, ", ") + "]"
}

func main() {
	lib.Main(func(g *lib.Gen) {
		var b strings.Builder
		b.WriteString("namespace KG.Gen.C11\n")

		// ---- features.go
		const ffile = "pkg/clusters/features/features.go"
		ff := g.ParseFile(ffile)
		gateName := map[string]string{} // Go identifier -> gate name
		annKey := ""
		type gate struct {
			name, stage string
			def         bool
		}
		var gates []gate
		for _, d := range ff.Decls {
			gd, ok := d.(*ast.GenDecl)
			if !ok {
				continue
			}
			for _, sp := range gd.Specs {
				vs, ok := sp.(*ast.ValueSpec)
				if !ok {
					continue
				}
				for i, n := range vs.Names {
					if i >= len(vs.Values) {
						continue
					}
					if s, ok := strLit(vs.Values[i]); ok {
						if gd.Tok == token.CONST {
							gateName[n.Name] = s
						}
						if n.Name == "FeatureGateAnnotationKey" {
							annKey = s
						}
					}
					if n.Name == "defaultFeatureGates" {
						cl, ok := vs.Values[i].(*ast.CompositeLit)
						if !ok {
							lib.Fatalf("defaultFeatureGates is not a composite literal")
						}
						for _, el := range cl.Elts {
							kv := el.(*ast.KeyValueExpr)
							id := selName(kv.Key)
							gt := gate{name: id}
							spec, ok := kv.Value.(*ast.CompositeLit)
							if !ok {
								lib.Fatalf("feature spec of %s is not a literal", id)
							}
							for _, f := range spec.Elts {
								fkv := f.(*ast.KeyValueExpr)
								switch selName(fkv.Key) {
								case "Default":
									gt.def = selName(fkv.Value) == "true"
								case "PreRelease":
									gt.stage = selName(fkv.Value)
								case "LockToDefault":
									if selName(fkv.Value) == "true" {
										lib.Fatalf("gate %s is locked to default: the model of featuregate.Set does not cover that", id)
									}
								}
							}
							gates = append(gates, gt)
						}
					}
				}
			}
		}
		if annKey == "" || len(gates) == 0 {
			lib.Fatalf("%s: annotation key or defaultFeatureGates not found", ffile)
		}
		for i := range gates {
			n, ok := gateName[gates[i].name]
			if !ok {
				lib.Fatalf("gate constant %s has no string value", gates[i].name)
			}
			gates[i].name = n
		}
		sort.Slice(gates, func(i, j int) bool { return gates[i].name < gates[j].name })
		b.WriteString("/-! " + ffile + " -/\n")
		fmt.Fprintf(&b, "def featureGateAnnotationKey : String := %q\n", annKey)
		fmt.Fprintf(&b, "def featureGateAnnotationKeyB : List UInt8 := %s\n", leanBytes(annKey))
		b.WriteString("/-- (name, default, pre-release stage) of every gate registered by the project, sorted by name -/\n")
		b.WriteString("def knownGates : List (String × Bool × String) := [")
		for i, gt := range gates {
			if i > 0 {
				b.WriteString(", ")
			}
			fmt.Fprintf(&b, "(%q, %v, %q)", gt.name, gt.def, gt.stage)
		}
		b.WriteString("]\n")
		grl, ok := gateName["GlobalRateLimiter"]
		if !ok {
			lib.Fatalf("features.GlobalRateLimiter not found")
		}
		fmt.Fprintf(&b, "def globalRateLimiterGate : String := %q\n", grl)
		fmt.Fprintf(&b, "def globalRateLimiterGateB : List UInt8 := %s\n", leanBytes(grl))

		// ---- clusterinfo.go
		const cfile = "pkg/clusters/clusterinfo.go"
		cf := g.ParseFile(cfile)
		syncFn := lib.FuncDecl(cf, "ClusterInfo", "Sync")
		if syncFn == nil {
			lib.Fatalf("ClusterInfo.Sync not found")
		}
		// top-level statements of Sync: the callee of each call statement / `if err := call; err != nil { return err }`
		var order []string
		var returnsErr []string
		for _, st := range syncFn.Body.List {
			switch s := st.(type) {
			case *ast.ExprStmt:
				if c, ok := s.X.(*ast.CallExpr); ok {
					n := exprString(c.Fun)
					if strings.HasPrefix(n, "klog.") {
						continue
					}
					// `c.<some atomic.Value>.Store(<expr over cluster.Spec.X ...>)`: a publication, named by WHAT it
					// publishes (the Spec fields read by the argument), not by the field it is stored in; consecutive
					// publications are one step (their relative order is irrelevant to the model)
					if se, ok := c.Fun.(*ast.SelectorExpr); ok && se.Sel.Name == "Store" && len(c.Args) == 1 {
						fields := specFieldsRead(c.Args[0])
						if len(fields) > 0 {
							if len(order) > 0 && strings.HasPrefix(order[len(order)-1], "publish:") {
								prev := strings.Split(strings.TrimPrefix(order[len(order)-1], "publish:"), "+")
								fields = append(fields, prev...)
								order = order[:len(order)-1]
							}
							sort.Strings(fields)
							uniq := fields[:0]
							for i, f := range fields {
								if i == 0 || f != fields[i-1] {
									uniq = append(uniq, f)
								}
							}
							order = append(order, "publish:"+strings.Join(uniq, "+"))
							continue
						}
					}
					order = append(order, n)
				}
			case *ast.IfStmt:
				if as, ok := s.Init.(*ast.AssignStmt); ok && len(as.Rhs) == 1 {
					if c, ok := as.Rhs[0].(*ast.CallExpr); ok {
						n := exprString(c.Fun)
						order = append(order, n)
						// does the body return err ?
						for _, bs := range s.Body.List {
							if r, ok := bs.(*ast.ReturnStmt); ok && len(r.Results) == 1 && selName(r.Results[0]) == "err" {
								returnsErr = append(returnsErr, n)
							}
						}
					}
				} else if s.Init == nil {
					// the name check: if c.Cluster != strings.ToLower(cluster.Name) { ...; return nil }
					order = append(order, "nameCheck")
				}
			}
		}
		b.WriteString("/-! " + cfile + ": the top-level steps of ClusterInfo.Sync, in order: callees, and `publish:<Spec fields>` for the atomic stores -/\n")
		fmt.Fprintf(&b, "def syncOrder : List String := %s\n", lib.LeanStrList(order))
		fmt.Fprintf(&b, "def syncReturnsErrOf : List String := %s\n", lib.LeanStrList(returnsErr))

		// syncFeatureGate: the annotation must be Set on a copy of the defaults
		fg := lib.FuncDecl(cf, "ClusterInfo", "syncFeatureGate")
		if fg == nil {
			lib.Fatalf("ClusterInfo.syncFeatureGate not found")
		}
		// Every `Set`/`SetFromMap` reached from syncFeatureGate (in its own body, in a same-receiver helper or in a function
		// of package features it calls: one level) must have as receiver a local that was assigned
		// `[features.]DefaultMutableFeatureGate.DeepCopy()`, never the gates of earlier syncs; and there must be one.
		ffuncs := map[string]*ast.FuncDecl{}
		for _, d := range ff.Decls {
			if fd, ok := d.(*ast.FuncDecl); ok && fd.Recv == nil {
				ffuncs[fd.Name.Name] = fd
			}
		}
		nSet, allOnCopies := 0, true
		var analyse func(fd *ast.FuncDecl, depth int)
		analyse = func(fd *ast.FuncDecl, depth int) {
			copies := map[string]bool{}
			ast.Inspect(fd.Body, func(n ast.Node) bool {
				switch x := n.(type) {
				case *ast.AssignStmt:
					for k, rhs := range x.Rhs {
						if k < len(x.Lhs) && strings.HasSuffix(exprString(rhs), "DefaultMutableFeatureGate.DeepCopy()") {
							if id, ok := x.Lhs[k].(*ast.Ident); ok {
								copies[id.Name] = true
							}
						}
					}
				case *ast.CallExpr:
					se, ok := x.Fun.(*ast.SelectorExpr)
					if !ok {
						return true
					}
					if se.Sel.Name == "Set" || se.Sel.Name == "SetFromMap" {
						nSet++
						if id, ok := se.X.(*ast.Ident); !ok || !copies[id.Name] {
							allOnCopies = false
						}
						return true
					}
					if depth == 0 {
						if pk, ok := se.X.(*ast.Ident); ok && pk.Name == "features" {
							if h, ok := ffuncs[se.Sel.Name]; ok {
								analyse(h, 1)
							}
						} else if ok && pk.Name == "c" {
							if h := lib.FuncDecl(cf, "ClusterInfo", se.Sel.Name); h != nil && h != fd {
								analyse(h, 1)
							}
						}
					}
				}
				return true
			})
		}
		analyse(fg, 0)
		setOnDefaultCopy := nSet > 0 && allOnCopies
		fmt.Fprintf(&b, "/-- syncFeatureGate calls Set on a fresh `DefaultMutableFeatureGate.DeepCopy()` (not on the gates of earlier syncs) -/\n")
		fmt.Fprintf(&b, "def gatesSetOnDefaultCopy : Bool := %v\n", setOnDefaultCopy)

		// ---- flowcontrol.go constants
		const flfile = "pkg/flowcontrols/flowcontrol/flowcontrol.go"
		cs := g.Consts(flfile)
		for _, n := range []string{"LocalFlowControls", "RemoteFlowControls"} {
			v, ok := cs[n]
			if !ok {
				lib.Fatalf("constant %s not found in %s", n, flfile)
			}
			s, _ := strconv.Unquote(v.ExactString())
			fmt.Fprintf(&b, "def %s : String := %q\n", strings.ToLower(n[:1])+n[1:], s)
			fmt.Fprintf(&b, "def %sB : List UInt8 := %s\n", strings.ToLower(n[:1])+n[1:], leanBytes(s))
		}
		// name of DefaultFlowControl
		flf := g.ParseFile(flfile)
		defName := ""
		ast.Inspect(flf, func(n ast.Node) bool {
			vs, ok := n.(*ast.ValueSpec)
			if !ok || len(vs.Names) != 1 || vs.Names[0].Name != "DefaultFlowControl" || len(vs.Values) != 1 {
				return true
			}
			ast.Inspect(vs.Values[0], func(m ast.Node) bool {
				if kv, ok := m.(*ast.KeyValueExpr); ok && selName(kv.Key) == "Name" {
					if s, ok := strLit(kv.Value); ok {
						defName = s
					}
				}
				return true
			})
			return false
		})
		if defName == "" {
			lib.Fatalf("DefaultFlowControl name not found")
		}
		fmt.Fprintf(&b, "def defaultFlowControlName : String := %q\n", defName)
		fmt.Fprintf(&b, "def defaultFlowControlNameB : List UInt8 := %s\n", leanBytes(defName))

		// ---- log modes (pkg/apis/proxy/v1alpha1/upstreamcluster_types.go)
		const tfile = "pkg/apis/proxy/v1alpha1/upstreamcluster_types.go"
		tf := g.ParseFile(tfile)
		logConst := map[string]string{}
		ast.Inspect(tf, func(n ast.Node) bool {
			vs, ok := n.(*ast.ValueSpec)
			if !ok {
				return true
			}
			for i, nm := range vs.Names {
				if i < len(vs.Values) {
					if s, ok := strLit(vs.Values[i]); ok {
						logConst[nm.Name] = s
					}
				}
			}
			return true
		})
		for _, n := range []string{"LogOn", "LogOff"} {
			s, ok := logConst[n]
			if !ok || s == "" {
				lib.Fatalf("constant %s not found in %s", n, tfile)
			}
			fmt.Fprintf(&b, "def %sB : List UInt8 := %s\n", strings.ToLower(n[:1])+n[1:], leanBytes(s))
		}

		// ---- upstream_controller.go
		const ufile = "pkg/gateway/controllers/upstream_controller.go"
		uf := g.ParseFile(ufile)
		su := lib.FuncDecl(uf, "UpstreamClusterController", "syncUpstreamCluster")
		if su == nil {
			lib.Fatalf("syncUpstreamCluster not found")
		}
		// Which object reaches the conflict check, CreateClusterInfo and Sync: it must be the one `m.lister.Get` returned,
		// never the queue item. Names are found by role: the queue item is the result of the type assertion on the handler's
		// argument, the lister's object the first result of m.lister.Get; plain assignments move the roles; same-receiver
		// helper methods are followed one level (parameters take the role of the arguments).
		usesLister := true
		nUses := map[string]int{}
		var walk func(fd *ast.FuncDecl, role map[string]string, depth int)
		walk = func(fd *ast.FuncDecl, role map[string]string, depth int) {
			ast.Inspect(fd.Body, func(n ast.Node) bool {
				switch x := n.(type) {
				case *ast.AssignStmt:
					if len(x.Rhs) == 1 {
						switch r := x.Rhs[0].(type) {
						case *ast.TypeAssertExpr:
							if id, ok := x.Lhs[0].(*ast.Ident); ok {
								role[id.Name] = "queued"
							}
						case *ast.CallExpr:
							if exprString(r.Fun) == "m.lister.Get" {
								if id, ok := x.Lhs[0].(*ast.Ident); ok && id.Name != "_" {
									role[id.Name] = "lister"
								}
							}
						case *ast.Ident:
							if id, ok := x.Lhs[0].(*ast.Ident); ok && len(x.Lhs) == 1 {
								if ro, ok := role[r.Name]; ok {
									role[id.Name] = ro
								}
							}
						}
					}
				case *ast.CallExpr:
					fn := exprString(x.Fun)
					kind := ""
					switch {
					case fn == "m.checkUpstreamServerNameConflict":
						kind = "check"
					case fn == "clusters.CreateClusterInfo":
						kind = "create"
					case strings.HasSuffix(fn, ".Sync") && len(x.Args) == 1:
						kind = "sync"
					}
					if kind != "" && len(x.Args) > 0 {
						if id, ok := x.Args[0].(*ast.Ident); ok {
							nUses[kind]++
							if role[id.Name] != "lister" {
								usesLister = false
							}
						} else {
							usesLister = false
						}
						return true
					}
					if se, ok := x.Fun.(*ast.SelectorExpr); ok && depth == 0 {
						if rc, ok := se.X.(*ast.Ident); ok && rc.Name == "m" {
							if h := lib.FuncDecl(uf, "UpstreamClusterController", se.Sel.Name); h != nil && h != fd && h.Type.Params != nil {
								sub := map[string]string{}
								k := 0
								for _, f := range h.Type.Params.List {
									for _, pn := range f.Names {
										if k < len(x.Args) {
											if id, ok := x.Args[k].(*ast.Ident); ok {
												if ro, ok := role[id.Name]; ok {
													sub[pn.Name] = ro
												}
											}
										}
										k++
									}
								}
								if len(sub) > 0 {
									walk(h, sub, 1)
								}
							}
						}
					}
				}
				return true
			})
		}
		walk(su, map[string]string{}, 0)
		if nUses["check"] == 0 || nUses["create"] == 0 || nUses["sync"] == 0 {
			usesLister = false
		}
		fmt.Fprintf(&b, "/-! %s -/\n", ufile)
		fmt.Fprintf(&b, "/-- the object handed to the conflict check, CreateClusterInfo and Sync is the one `m.lister.Get` returned (by role; helpers followed one level) -/\n")
		fmt.Fprintf(&b, "def controllerAppliesListerObject : Bool := %v\n", usesLister)
		// the single-threaded argument: how many workers Run starts on the queue (the queue is a passthrough queue,
		// its items are object pointers, so with more than one worker two versions of one cluster are handled at
		// once), and that ClusterInfo.Sync is documented as single threaded (it takes no lock)
		runFn := lib.FuncDecl(uf, "UpstreamClusterController", "Run")
		if runFn == nil {
			lib.Fatalf("UpstreamClusterController.Run not found")
		}
		workers := ""
		nRunCalls := 0
		uconsts := g.Consts(ufile)
		ast.Inspect(runFn.Body, func(n ast.Node) bool {
			c, ok := n.(*ast.CallExpr)
			if !ok || exprString(c.Fun) != "m.queue.Run" || len(c.Args) != 1 {
				return true
			}
			nRunCalls++
			switch a := c.Args[0].(type) {
			case *ast.BasicLit:
				workers = a.Value
			case *ast.Ident:
				if v, ok := uconsts[a.Name]; ok {
					workers = v.ExactString()
				}
			}
			return true
		})
		if nRunCalls != 1 || workers == "" {
			lib.Fatalf("cannot determine the number of workers UpstreamClusterController.Run starts (m.queue.Run calls: %d)", nRunCalls)
		}
		if _, err := strconv.Atoi(workers); err != nil {
			lib.Fatalf("worker count %q is not an integer literal/constant", workers)
		}
		fmt.Fprintf(&b, "/-- workers `UpstreamClusterController.Run` starts on the (passthrough) queue -/\n")
		fmt.Fprintf(&b, "def queueWorkers : Nat := %s\n", workers)
		passthrough := false
		ast.Inspect(uf, func(n ast.Node) bool {
			if c, ok := n.(*ast.CallExpr); ok && exprString(c.Fun) == "syncqueue.NewPassthroughSyncQueue" {
				passthrough = true
			}
			return true
		})
		fmt.Fprintf(&b, "def queueIsPassthrough : Bool := %v\n", passthrough)
		doc := ""
		if syncFn.Doc != nil {
			doc = strings.ToLower(syncFn.Doc.Text())
		}
		fmt.Fprintf(&b, "/-- the doc comment of `ClusterInfo.Sync` says it is only called from one thread (it takes no lock) -/\n")
		fmt.Fprintf(&b, "def syncDocumentedSingleThreaded : Bool := %v\n", strings.Contains(doc, "single thread"))
		// ---- pkg/syncqueue/queue.go: the requeue path. The controller answers every failure with RequeueAfter; the model
		// (and "once nothing is pending") rests on such an item being delivered again, however often it failed before.
		// processNextWorkItem re-adds it with EnqueueAfter (AddAfter), which does not go through the rate limiter, so
		// NumRequeues never grows and MaxRequeueTimes is never reached. The fact: outside the `if err != nil` branch (the
		// handler-error path) nothing in processNextWorkItem counts a requeue (When / AddRateLimited / EnqueueRateLimited).
		const qfile = "pkg/syncqueue/queue.go"
		qf := g.ParseFile(qfile)
		pn := lib.FuncDecl(qf, "SyncQueue", "processNextWorkItem")
		if pn == nil {
			lib.Fatalf("SyncQueue.processNextWorkItem not found")
		}
		counted, sawEnqueueAfter := false, false
		var scan func(n ast.Node)
		scan = func(n ast.Node) {
			ast.Inspect(n, func(x ast.Node) bool {
				if ifs, ok := x.(*ast.IfStmt); ok {
					if be, ok := ifs.Cond.(*ast.BinaryExpr); ok && selName(be.X) == "err" && be.Op == token.NEQ && selName(be.Y) == "nil" {
						if ifs.Else != nil {
							scan(ifs.Else)
						}
						return false // the handler-error path counts on purpose (maxErrRetries)
					}
				}
				if c, ok := x.(*ast.CallExpr); ok {
					switch selName(c.Fun) {
					case "When", "AddRateLimited", "EnqueueRateLimited":
						counted = true
					case "EnqueueAfter", "AddAfter":
						sawEnqueueAfter = true
					}
				}
				return true
			})
		}
		scan(pn.Body)
		if !sawEnqueueAfter {
			lib.Fatalf("processNextWorkItem no longer re-adds a requeued item with EnqueueAfter/AddAfter: the requeue path changed shape")
		}
		fmt.Fprintf(&b, "/-! %s -/\n", qfile)
		fmt.Fprintf(&b, "/-- the RequeueAfter path of processNextWorkItem counts requeues towards MaxRequeueTimes (so that an item is given up) -/\n")
		fmt.Fprintf(&b, "def requeueAfterIsCounted : Bool := %v\n", counted)
		b.WriteString("end KG.Gen.C11\n")
		g.Emit("C11.lean", b.String())
	})
}
