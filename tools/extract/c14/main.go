// Regenerates lean/KG/Gen/C14.lean: whether ClusterInfo.PickOne (Manager.ClientFor: token review / subject access review of
// every such request) draws from the round-robin cursors of the dispatch policies or keeps its own (pkg/clusters/clusterinfo.go).
package main

import (
	"fmt"
	"go/ast"
	"strings"

	"extract/lib"
)

func sel(e ast.Expr) string {
	switch x := e.(type) {
	case *ast.Ident:
		return x.Name
	case *ast.SelectorExpr:
		return sel(x.X) + "." + x.Sel.Name
	case *ast.CallExpr:
		return sel(x.Fun) + "()"
	}
	return "?"
}

func main() {
	lib.Main(func(g *lib.Gen) {
		const file = "pkg/clusters/clusterinfo.go"
		f := g.ParseFile(file)
		pick := lib.FuncDecl(f, "ClusterInfo", "PickOne")
		pop := lib.FuncDecl(f, "endpointPickStrategy", "Pop")
		if pick == nil || pick.Body == nil || pop == nil || pop.Body == nil {
			lib.Fatalf("ClusterInfo.PickOne / endpointPickStrategy.Pop not found in %s", file)
		}
		// PickOne must build an endpointPickStrategy and Pop() it
		var scopeField string
		literal, callsPop := false, false
		ast.Inspect(pick.Body, func(n ast.Node) bool {
			switch x := n.(type) {
			case *ast.CompositeLit:
				if sel(x.Type) == "endpointPickStrategy" {
					literal = true
					for _, el := range x.Elts {
						if kv, ok := el.(*ast.KeyValueExpr); ok {
							if k := sel(kv.Key); k != "cluster" && k != "upstreams" {
								scopeField = k
							}
						}
					}
				}
			case *ast.CallExpr:
				if s, ok := x.Fun.(*ast.SelectorExpr); ok && s.Sel.Name == "Pop" {
					callsPop = true
				}
			}
			return true
		})
		if !literal || !callsPop {
			lib.Fatalf("PickOne no longer builds an endpointPickStrategy and Pop()s it: shape unknown")
		}
		// the cursor key of Pop: does it depend on that field?
		keyUsesScope := false
		keyFound := false
		ast.Inspect(pop.Body, func(n ast.Node) bool {
			as, ok := n.(*ast.AssignStmt)
			if !ok || len(as.Lhs) != 1 || sel(as.Lhs[0]) != "key" || len(as.Rhs) != 1 {
				return true
			}
			keyFound = true
			ast.Inspect(as.Rhs[0], func(m ast.Node) bool {
				if se, ok := m.(*ast.SelectorExpr); ok && scopeField != "" && se.Sel.Name == scopeField {
					keyUsesScope = true
				}
				return true
			})
			return true
		})
		if !keyFound {
			lib.Fatalf("Pop no longer computes `key := …`: shape unknown")
		}
		var b strings.Builder
		b.WriteString("namespace KG.Gen.C14\n")
		b.WriteString("/-! " + file + ": the cursors `ClusterInfo.PickOne` uses -/\n")
		fmt.Fprintf(&b, "/-- PickOne sets a field of its picker (%q) that is part of Pop's cursor key: it keeps its own round-robin cursors -/\n", scopeField)
		fmt.Fprintf(&b, "def pickOneOwnCursors : Bool := %v\n", scopeField != "" && keyUsesScope)
		b.WriteString("end KG.Gen.C14\n")
		g.Emit("C14.lean", b.String())
	})
}
