// Regenerates lean/KG/Gen/C14.lean: whether ClusterInfo.PickOne (Manager.ClientFor: token review / subject access review of
// every such request) draws from the round-robin cursors of the dispatch policies or keeps its own (pkg/clusters/clusterinfo.go).
package main

import (
	"fmt"
	"go/ast"
	"strings"

	"extract/lib"
)

func sel(e ast.Expr) string {
	switch x := e.(type) {
	case *ast.Ident:
		return x.Name
	case *ast.SelectorExpr:
		return sel(x.X) + "." + x.Sel.Name
	case *ast.CallExpr:
		return sel(x.Fun) + "()"
	}
	return "?"
}

// selPath renders a selector chain / call chain (a.b.c(), …) for "contains" tests.
func selPath(e ast.Expr) string { return sel(e) }

func recvName(fd *ast.FuncDecl) string {
	if fd.Recv == nil || len(fd.Recv.List) != 1 {
		return ""
	}
	t := fd.Recv.List[0].Type
	if st, ok := t.(*ast.StarExpr); ok {
		t = st.X
	}
	if id, ok := t.(*ast.Ident); ok {
		return id.Name
	}
	return ""
}

func main() {
	lib.Main(func(g *lib.Gen) {
		const file = "pkg/clusters/clusterinfo.go"
		f := g.ParseFile(file)
		pick := lib.FuncDecl(f, "ClusterInfo", "PickOne")
		pop := lib.FuncDecl(f, "endpointPickStrategy", "Pop")
		if pick == nil || pick.Body == nil || pop == nil || pop.Body == nil {
			lib.Fatalf("ClusterInfo.PickOne / endpointPickStrategy.Pop not found in %s", file)
		}
		// 1. PickOne builds a picker (a literal of endpointPickStrategy) and Pop()s it. The field that marks it as "not a
		// dispatch policy" is found by role: a field of the literal set to a non-empty string constant.
		var scopeField string
		literal, callsPop := false, false
		ast.Inspect(pick.Body, func(n ast.Node) bool {
			switch x := n.(type) {
			case *ast.CompositeLit:
				if sel(x.Type) == "endpointPickStrategy" {
					literal = true
					for _, el := range x.Elts {
						if kv, ok := el.(*ast.KeyValueExpr); ok {
							if bl, ok := kv.Value.(*ast.BasicLit); ok && bl.Kind.String() == "STRING" && len(bl.Value) > 2 {
								scopeField = sel(kv.Key)
							}
						}
					}
				}
			case *ast.CallExpr:
				if s, ok := x.Fun.(*ast.SelectorExpr); ok && s.Sel.Name == "Pop" {
					callsPop = true
				}
			}
			return true
		})
		if !literal || !callsPop {
			lib.Fatalf("PickOne no longer builds an endpointPickStrategy and Pop()s it: shape unknown")
		}
		// 2. the cursor key, by role: the first argument of a call on the cluster's loadbalancer, in Pop or in the methods of
		// endpointPickStrategy that Pop calls (two levels); does it depend on that field?
		methods := map[string]*ast.FuncDecl{}
		for _, d := range f.Decls {
			if fd, ok := d.(*ast.FuncDecl); ok && fd.Body != nil && recvName(fd) == "endpointPickStrategy" {
				methods[fd.Name.Name] = fd
			}
		}
		reach := map[string]*ast.FuncDecl{"Pop": pop}
		for depth := 0; depth < 2; depth++ {
			for _, fd := range reach {
				ast.Inspect(fd.Body, func(n ast.Node) bool {
					if c, ok := n.(*ast.CallExpr); ok {
						if se, ok := c.Fun.(*ast.SelectorExpr); ok {
							if m := methods[se.Sel.Name]; m != nil {
								if _, isIdent := se.X.(*ast.Ident); isIdent {
									reach[se.Sel.Name] = m
								}
							}
						}
					}
					return true
				})
			}
		}
		mentions := func(e ast.Expr) bool {
			found := false
			ast.Inspect(e, func(m ast.Node) bool {
				if se, ok := m.(*ast.SelectorExpr); ok && scopeField != "" && se.Sel.Name == scopeField {
					found = true
				}
				return true
			})
			return found
		}
		keyFound, keyUsesScope := false, false
		for _, fd := range reach {
			assigned := map[string]ast.Expr{}
			ast.Inspect(fd.Body, func(n ast.Node) bool {
				if as, ok := n.(*ast.AssignStmt); ok && len(as.Lhs) == len(as.Rhs) {
					for i := range as.Lhs {
						if id, ok := as.Lhs[i].(*ast.Ident); ok {
							assigned[id.Name] = as.Rhs[i]
						}
					}
				}
				return true
			})
			ast.Inspect(fd.Body, func(n ast.Node) bool {
				c, ok := n.(*ast.CallExpr)
				if !ok || len(c.Args) == 0 || !strings.Contains(selPath(c.Fun), ".loadbalancer.") {
					return true
				}
				keyFound = true
				arg := c.Args[0]
				if id, ok := arg.(*ast.Ident); ok && assigned[id.Name] != nil {
					arg = assigned[id.Name]
				}
				if mentions(arg) {
					keyUsesScope = true
				}
				return true
			})
		}
		if !keyFound {
			lib.Fatalf("no call on the cluster's loadbalancer with a key found in Pop or the methods it calls: shape unknown")
		}
		// 3. do the dispatch policies have cursors of their own? MatchAttributes sets the same field of ITS picker (in the
		// literal or by an assignment) to something that is not a constant — something that depends on the matched policy
		policyOwn := false
		if ma := lib.FuncDecl(f, "ClusterInfo", "MatchAttributes"); ma != nil && ma.Body != nil && scopeField != "" {
			ast.Inspect(ma.Body, func(n ast.Node) bool {
				switch x := n.(type) {
				case *ast.KeyValueExpr:
					if sel(x.Key) == scopeField {
						if _, isLit := x.Value.(*ast.BasicLit); !isLit {
							policyOwn = true
						}
					}
				case *ast.AssignStmt:
					for i, l := range x.Lhs {
						if se, ok := l.(*ast.SelectorExpr); ok && se.Sel.Name == scopeField && i < len(x.Rhs) {
							if _, isLit := x.Rhs[i].(*ast.BasicLit); !isLit {
								policyOwn = true
							}
						}
					}
				}
				return true
			})
		} else if ma == nil {
			lib.Fatalf("ClusterInfo.MatchAttributes not found in %s", file)
		}
		var b strings.Builder
		b.WriteString("namespace KG.Gen.C14\n")
		b.WriteString("/-! " + file + ": the cursors `ClusterInfo.PickOne` uses -/\n")
		fmt.Fprintf(&b, "/-- PickOne sets a string field of its picker (%q) that is part of the cursor key: it keeps its own round-robin cursors -/\n", scopeField)
		fmt.Fprintf(&b, "def pickOneOwnCursors : Bool := %v\n", scopeField != "" && keyUsesScope)
		fmt.Fprintf(&b, "/-- MatchAttributes gives the picker of a dispatch policy a cursor scope that depends on the policy: every policy has its own cursors -/\ndef policyOwnCursors : Bool := %v\n", policyOwn)
		b.WriteString("end KG.Gen.C14\n")
		g.Emit("C14.lean", b.String())
	})
}
