// Regenerates lean/KG/Gen/C04.lean from /repo's current sources:
//   - the hop-by-hop header list of pkg/util/reverseproxy/reverseproxy.go (`hopHeaders`);
//   - the Retry-After constants of pkg/gateway/endpoints/response/termination.go;
//   - the order in which buildProxyHandlerChainFunc (cmd/kube-gateway/app/proxy.go) applies the filters;
//   - the control-flow skeleton of dispatcher.ServeHTTP and of the WithUpstreamInfo filter: every call that
//     terminates a request (responseError / TerminateWithError, with the error constructor and the reason),
//     every return, the TryAcquire test, the deferred Release, Pop, and the call that forwards;
//   - the resource name exempted from Retry-After in the rate-limited branch.
//
// It FAILS when the source no longer has the shape it reads.
package main

import (
	"fmt"
	"go/ast"
	"go/token"
	"strconv"
	"strings"

	"extract/lib"
)

func bytesLit(s string) string {
	parts := make([]string, len(s))
	for i := 0; i < len(s); i++ {
		parts[i] = strconv.Itoa(int(s[i]))
	}
	return "[" + strings.Join(parts, ", ") + "]"
}

func bytesListLit(l []string) string {
	parts := make([]string, len(l))
	for i, s := range l {
		parts[i] = bytesLit(s)
	}
	return "[" + strings.Join(parts, ", ") + "]"
}

func exprName(e ast.Expr) string {
	switch t := e.(type) {
	case *ast.Ident:
		return t.Name
	case *ast.SelectorExpr:
		return exprName(t.X) + "." + t.Sel.Name
	case *ast.CallExpr:
		return exprName(t.Fun) + "()"
	case *ast.BasicLit:
		return t.Value
	case *ast.StarExpr:
		return exprName(t.X)
	}
	return fmt.Sprintf("%T", e)
}

func lastSel(e ast.Expr) string {
	switch t := e.(type) {
	case *ast.Ident:
		return t.Name
	case *ast.SelectorExpr:
		return t.Sel.Name
	}
	return ""
}

// ctorOf finds the apimachinery error constructor (errors.NewXxx) inside an argument, with its last argument when
// that is an integer literal or identifier (the retry-after of NewTooManyRequests).
func ctorOf(e ast.Expr) string {
	name := ""
	ast.Inspect(e, func(n ast.Node) bool {
		if c, ok := n.(*ast.CallExpr); ok && name == "" {
			s := lastSel(c.Fun)
			if strings.HasPrefix(s, "New") {
				name = s
				if s == "NewTooManyRequests" && len(c.Args) == 2 {
					name += "(" + exprName(c.Args[1]) + ")"
				}
				return false
			}
		}
		return true
	})
	return name
}

type ev struct{ kind, a, b string }

func (e ev) lean() string {
	switch e.kind {
	case "term":
		return fmt.Sprintf(".term %q %q", e.a, e.b)
	default:
		return "." + e.kind
	}
}

// skeleton walks a function body in source order.
func skeleton(body *ast.BlockStmt, forwardCall func(*ast.CallExpr) bool) []ev {
	var evs []ev
	ast.Inspect(body, func(n ast.Node) bool {
		switch t := n.(type) {
		case *ast.FuncLit:
			return false // goroutines / closures are not part of the request's own control flow
		case *ast.ReturnStmt:
			evs = append(evs, ev{kind: "ret"})
		case *ast.DeferStmt:
			if lastSel(t.Call.Fun) == "Release" {
				evs = append(evs, ev{kind: "deferRelease"})
				return false
			}
		case *ast.CallExpr:
			switch lastSel(t.Fun) {
			case "responseError": // d.responseError(err, w, req, reason)
				if len(t.Args) != 4 {
					lib.Fatalf("responseError call has %d arguments", len(t.Args))
				}
				evs = append(evs, ev{"term", ctorOf(t.Args[0]), exprName(t.Args[3])})
				return false
			case "TerminateWithError": // response.TerminateWithError(s, err, reason, w, req)
				if len(t.Args) != 5 {
					lib.Fatalf("TerminateWithError call has %d arguments", len(t.Args))
				}
				evs = append(evs, ev{"term", ctorOf(t.Args[1]), exprName(t.Args[2])})
				return false
			case "ErrorNegotiated": // responsewriters.ErrorNegotiated(err, s, gv, w, req): a Status written directly
				if len(t.Args) != 5 {
					lib.Fatalf("ErrorNegotiated call has %d arguments", len(t.Args))
				}
				evs = append(evs, ev{"term", ctorOf(t.Args[0]), "ErrorNegotiated"})
				return false
			case "TryAcquire":
				evs = append(evs, ev{kind: "acquire"})
			case "Release":
				evs = append(evs, ev{kind: "release"})
			case "Pop":
				evs = append(evs, ev{kind: "pop"})
			case "MatchAttributes":
				evs = append(evs, ev{kind: "matchPolicy"})
			case "Get":
				if exprName(t.Fun) == "clusterManager.Get" {
					evs = append(evs, ev{kind: "lookupCluster"})
				}
			case "FeatureEnabled":
				if len(t.Args) == 1 && lastSel(t.Args[0]) == "DenyAllRequests" {
					evs = append(evs, ev{kind: "denyAllGate"})
				}
			case "ServeHTTP":
				if forwardCall(t) {
					evs = append(evs, ev{kind: "forward"})
				}
			}
		}
		return true
	})
	return evs
}

func main() {
	lib.Main(func(g *lib.Gen) {
		var b strings.Builder
		b.WriteString("namespace KG.Gen.C04\n")

		// 1. hop-by-hop headers
		const rp = "pkg/util/reverseproxy/reverseproxy.go"
		var hop []string
		for _, d := range g.ParseFile(rp).Decls {
			gd, ok := d.(*ast.GenDecl)
			if !ok || gd.Tok != token.VAR {
				continue
			}
			for _, sp := range gd.Specs {
				vs := sp.(*ast.ValueSpec)
				if len(vs.Names) == 1 && vs.Names[0].Name == "hopHeaders" && len(vs.Values) == 1 {
					cl, ok := vs.Values[0].(*ast.CompositeLit)
					if !ok {
						lib.Fatalf("hopHeaders is not a composite literal")
					}
					for _, e := range cl.Elts {
						bl, ok := e.(*ast.BasicLit)
						if !ok || bl.Kind != token.STRING {
							lib.Fatalf("hopHeaders has a non-literal element")
						}
						s, _ := strconv.Unquote(bl.Value)
						hop = append(hop, s)
					}
				}
			}
		}
		if len(hop) == 0 {
			lib.Fatalf("hopHeaders not found in %s", rp)
		}
		fmt.Fprintf(&b, "/-- `hopHeaders` of %s -/\ndef hopHeaderNames : List String := %s\n", rp, lib.LeanStrList(hop))
		fmt.Fprintf(&b, "/-- the same as byte strings -/\ndef hopHeaders : List (List UInt8) := %s\n", bytesListLit(hop))

		// 2. Retry-After constants
		const term = "pkg/gateway/endpoints/response/termination.go"
		fmt.Fprintf(&b, "/-- constants of %s -/\ndef retryAfter : Nat := %s\ndef unavailableRetryAfter : Nat := %s\n", term,
			lib.IntLit(g.Const(term, "RetryAfter")), lib.IntLit(g.Const(term, "UnavailableRetryAfter")))

		// 3. filter order
		const proxy = "cmd/kube-gateway/app/proxy.go"
		fd := lib.FuncDecl(g.ParseFile(proxy), "", "buildProxyHandlerChainFunc")
		if fd == nil {
			lib.Fatalf("buildProxyHandlerChainFunc not found")
		}
		var inner *ast.FuncLit
		ast.Inspect(fd.Body, func(n ast.Node) bool {
			if fl, ok := n.(*ast.FuncLit); ok && inner == nil {
				inner = fl
				return false
			}
			return true
		})
		if inner == nil {
			lib.Fatalf("buildProxyHandlerChainFunc returns no function literal")
		}
		var chain []string
		var record func(stmts []ast.Stmt, conditional bool)
		record = func(stmts []ast.Stmt, conditional bool) {
			for _, st := range stmts {
				switch t := st.(type) {
				case *ast.AssignStmt:
					if len(t.Lhs) == 1 && exprName(t.Lhs[0]) == "handler" && len(t.Rhs) == 1 {
						call, ok := t.Rhs[0].(*ast.CallExpr)
						if !ok {
							lib.Fatalf("handler is assigned something that is not a call")
						}
						name := lastSel(call.Fun)
						if conditional {
							name = "?" + name
						}
						chain = append(chain, name)
					}
				case *ast.IfStmt:
					record(t.Body.List, true)
				}
			}
		}
		record(inner.Body.List, false)
		if len(chain) < 5 {
			lib.Fatalf("handler chain too short: %v", chain)
		}
		fmt.Fprintf(&b, "/-- filters of buildProxyHandlerChainFunc (%s) in the order they are applied: the first is the innermost,\n    the last runs first on a request; `?` marks a conditionally installed filter -/\ndef proxyChainNames : List String := %s\ndef proxyChain : List (List UInt8) := %s\n",
			proxy, lib.LeanStrList(chain), bytesListLit(chain))

		// 4. control-flow skeletons
		b.WriteString("/-- one step of a control-flow skeleton, in source order -/\ninductive Ev where\n  | term (ctor reason : String)  -- responseError / TerminateWithError with this error constructor and reason\n  | ret | acquire | release | deferRelease | pop | matchPolicy | lookupCluster | denyAllGate | forward\nderiving DecidableEq, Repr\n")
		const disp = "pkg/gateway/proxy/dispatcher/dispatcher.go"
		sd := lib.FuncDecl(g.ParseFile(disp), "dispatcher", "ServeHTTP")
		if sd == nil {
			lib.Fatalf("dispatcher.ServeHTTP not found")
		}
		devs := skeleton(sd.Body, func(c *ast.CallExpr) bool { return exprName(c.Fun) == "proxyHandler.ServeHTTP" })
		fmt.Fprintf(&b, "/-- skeleton of dispatcher.ServeHTTP (%s) -/\ndef dispatcherSteps : List Ev := [\n", disp)
		for i, e := range devs {
			sep := ","
			if i == len(devs)-1 {
				sep = ""
			}
			fmt.Fprintf(&b, "  %s%s\n", e.lean(), sep)
		}
		b.WriteString("]\n")
		const upi = "pkg/gateway/endpoints/filters/upstreaminfo.go"
		ud := lib.FuncDecl(g.ParseFile(upi), "", "WithUpstreamInfo")
		if ud == nil {
			lib.Fatalf("WithUpstreamInfo not found")
		}
		var uinner *ast.FuncLit
		ast.Inspect(ud.Body, func(n ast.Node) bool {
			if fl, ok := n.(*ast.FuncLit); ok && uinner == nil {
				uinner = fl
				return false
			}
			return true
		})
		if uinner == nil {
			lib.Fatalf("WithUpstreamInfo has no handler literal")
		}
		uevs := skeleton(uinner.Body, func(c *ast.CallExpr) bool { return exprName(c.Fun) == "handler.ServeHTTP" })
		fmt.Fprintf(&b, "/-- skeleton of the WithUpstreamInfo handler (%s) -/\ndef upstreamInfoSteps : List Ev := [\n", upi)
		for i, e := range uevs {
			sep := ","
			if i == len(uevs)-1 {
				sep = ""
			}
			fmt.Fprintf(&b, "  %s%s\n", e.lean(), sep)
		}
		b.WriteString("]\n")

		// 5. the resource exempted from Retry-After: `requestAttributes.GetResource() != "<lit>"` guarding `retryAfter = response.RetryAfter`
		exempt := ""
		ast.Inspect(sd.Body, func(n ast.Node) bool {
			ifs, ok := n.(*ast.IfStmt)
			if !ok {
				return true
			}
			be, ok := ifs.Cond.(*ast.BinaryExpr)
			if !ok || be.Op != token.NEQ {
				return true
			}
			call, ok := be.X.(*ast.CallExpr)
			lit, ok2 := be.Y.(*ast.BasicLit)
			if ok && ok2 && lastSel(call.Fun) == "GetResource" && len(ifs.Body.List) == 1 {
				if as, ok := ifs.Body.List[0].(*ast.AssignStmt); ok && exprName(as.Lhs[0]) == "retryAfter" && exprName(as.Rhs[0]) == "response.RetryAfter" {
					exempt, _ = strconv.Unquote(lit.Value)
				}
			}
			return true
		})
		if exempt == "" {
			lib.Fatalf("the `GetResource() != \"...\"` guard of retryAfter = response.RetryAfter was not found in dispatcher.ServeHTTP")
		}
		fmt.Fprintf(&b, "/-- the resource whose rate-limited answer carries no Retry-After -/\ndef rateLimitExemptResourceName : String := %q\ndef rateLimitExemptResource : List UInt8 := %s\n", exempt, bytesLit(exempt))

		// 6. WithRequestInfo (since bd02b39 the gateway's own filter): a resolver error is answered with a Status
		const rif = "pkg/gateway/endpoints/filters/requestinfo.go"
		rd := lib.FuncDecl(g.ParseFile(rif), "", "WithRequestInfo")
		if rd == nil {
			lib.Fatalf("filters.WithRequestInfo is not a function of the gateway any more (an alias of the generic filter answers a resolver error with text/plain)")
		}
		var rinner *ast.FuncLit
		ast.Inspect(rd.Body, func(n ast.Node) bool {
			if fl, ok := n.(*ast.FuncLit); ok && rinner == nil {
				rinner = fl
				return false
			}
			return true
		})
		if rinner == nil {
			lib.Fatalf("WithRequestInfo has no handler literal")
		}
		revs := skeleton(rinner.Body, func(c *ast.CallExpr) bool { return exprName(c.Fun) == "handler.ServeHTTP" })
		fmt.Fprintf(&b, "/-- skeleton of the WithRequestInfo handler (%s) -/\ndef requestInfoSteps : List Ev := [\n", rif)
		for i, e := range revs {
			sep := ","
			if i == len(revs)-1 {
				sep = ""
			}
			fmt.Fprintf(&b, "  %s%s\n", e.lean(), sep)
		}
		b.WriteString("]\n")
		// number of arguments of the WithRequestInfo call in the chain (handler, resolver, serializer)
		riArgs := 0
		ast.Inspect(inner.Body, func(n ast.Node) bool {
			if c, ok := n.(*ast.CallExpr); ok && lastSel(c.Fun) == "WithRequestInfo" {
				riArgs = len(c.Args)
			}
			return true
		})
		fmt.Fprintf(&b, "/-- arguments of the WithRequestInfo call in buildProxyHandlerChainFunc (handler, resolver, serializer) -/\ndef requestInfoCallArgs : Nat := %d\n", riArgs)

		// 7. the escaped path handed to the proxy (since 85b204e): `location.RawPath = escapeInvalidPathBytes(req.URL.RawPath)`,
		// and the punctuation escapeInvalidPathBytes leaves alone
		rawPathExpr := ""
		ast.Inspect(sd.Body, func(n ast.Node) bool {
			if as, ok := n.(*ast.AssignStmt); ok && len(as.Lhs) == 1 && len(as.Rhs) == 1 && exprName(as.Lhs[0]) == "location.RawPath" {
				rawPathExpr = exprName(as.Rhs[0])
				if c, ok := as.Rhs[0].(*ast.CallExpr); ok && len(c.Args) == 1 {
					rawPathExpr = exprName(c.Fun) + "(" + exprName(c.Args[0]) + ")"
				}
			}
			return true
		})
		if rawPathExpr == "" {
			lib.Fatalf("dispatcher.ServeHTTP no longer assigns location.RawPath")
		}
		punct := ""
		if ed := lib.FuncDecl(g.ParseFile(disp), "", "escapeInvalidPathBytes"); ed != nil {
			ast.Inspect(ed.Body, func(n ast.Node) bool {
				if c, ok := n.(*ast.CallExpr); ok && exprName(c.Fun) == "strings.IndexByte" && len(c.Args) == 2 {
					if bl, ok := c.Args[0].(*ast.BasicLit); ok && bl.Kind == token.STRING {
						punct, _ = strconv.Unquote(bl.Value)
					}
				}
				return true
			})
		}
		fmt.Fprintf(&b, "/-- what dispatcher.ServeHTTP assigns to location.RawPath -/\ndef locationRawPathExpr : String := %q\n", rawPathExpr)
		fmt.Fprintf(&b, "/-- the punctuation `escapeInvalidPathBytes` leaves alone besides letters and digits (empty: the function is gone) -/\ndef validPathPunct : List UInt8 := %s\n", bytesLit(punct))

		b.WriteString("end KG.Gen.C04\n")
		g.Emit("C04.lean", b.String())
	})
}
