// Regenerates lean/KG/Gen/C04.lean from /repo's current sources:
//   - the hop-by-hop header list of pkg/util/reverseproxy/reverseproxy.go (`hopHeaders`);
//   - the Retry-After constants of pkg/gateway/endpoints/response/termination.go;
//   - the order in which buildProxyHandlerChainFunc (cmd/kube-gateway/app/proxy.go) applies the filters;
//   - the control-flow skeleton of dispatcher.ServeHTTP and of the WithUpstreamInfo filter: every call that
//     terminates a request (responseError / TerminateWithError, with the error constructor and the reason),
//     every return, the TryAcquire test, the deferred Release, Pop, and the call that forwards;
//   - the resource name exempted from Retry-After in the rate-limited branch.
//   - the statement skeleton of the gateway's own WithRequestInfo and the arguments of its call in proxy.go;
//   - what dispatcher.ServeHTTP assigns to location.RawPath, and the byte table of escapeInvalidPathBytes;
//   - the transport a forwarded request is sent with: the fields of the http.Transport literal of newTransport
//     (pkg/clusters/endpoint.go) with their durations, the dialers, and the durations of newRESTConfig (pkg/clusters/util.go).
//
// It FAILS when the source no longer has the shape it reads.
package main

import (
	"fmt"
	"go/ast"
	"go/constant"
	"go/printer"
	"go/token"
	"strconv"
	"strings"

	"extract/lib"
)

func bytesLit(s string) string {
	parts := make([]string, len(s))
	for i := 0; i < len(s); i++ {
		parts[i] = strconv.Itoa(int(s[i]))
	}
	return "[" + strings.Join(parts, ", ") + "]"
}

func bytesListLit(l []string) string {
	parts := make([]string, len(l))
	for i, s := range l {
		parts[i] = bytesLit(s)
	}
	return "[" + strings.Join(parts, ", ") + "]"
}

func exprName(e ast.Expr) string {
	switch t := e.(type) {
	case *ast.Ident:
		return t.Name
	case *ast.SelectorExpr:
		return exprName(t.X) + "." + t.Sel.Name
	case *ast.CallExpr:
		return exprName(t.Fun) + "()"
	case *ast.BasicLit:
		return t.Value
	case *ast.StarExpr:
		return exprName(t.X)
	}
	return fmt.Sprintf("%T", e)
}

func lastSel(e ast.Expr) string {
	switch t := e.(type) {
	case *ast.Ident:
		return t.Name
	case *ast.SelectorExpr:
		return t.Sel.Name
	}
	return ""
}

// ctorOf finds the apimachinery error constructor (errors.NewXxx) inside an argument, with its last argument when
// that is an integer literal or identifier (the retry-after of NewTooManyRequests).
func ctorOf(e ast.Expr) string {
	name := ""
	ast.Inspect(e, func(n ast.Node) bool {
		if c, ok := n.(*ast.CallExpr); ok && name == "" {
			s := lastSel(c.Fun)
			if strings.HasPrefix(s, "New") {
				name = s
				if s == "NewTooManyRequests" && len(c.Args) == 2 {
					name += "(" + exprName(c.Args[1]) + ")"
				}
				return false
			}
		}
		return true
	})
	return name
}

type ev struct{ kind, a, b string }

func (e ev) lean() string {
	switch e.kind {
	case "term":
		return fmt.Sprintf(".term %q %q", e.a, e.b)
	default:
		return "." + e.kind
	}
}

// skeleton walks a function body in source order.
func skeleton(body *ast.BlockStmt, forwardCall func(*ast.CallExpr) bool) []ev {
	var evs []ev
	ast.Inspect(body, func(n ast.Node) bool {
		switch t := n.(type) {
		case *ast.FuncLit:
			return false // goroutines / closures are not part of the request's own control flow
		case *ast.ReturnStmt:
			evs = append(evs, ev{kind: "ret"})
		case *ast.DeferStmt:
			if lastSel(t.Call.Fun) == "Release" {
				evs = append(evs, ev{kind: "deferRelease"})
				return false
			}
		case *ast.CallExpr:
			switch lastSel(t.Fun) {
			case "responseError": // d.responseError(err, w, req, reason)
				if len(t.Args) != 4 {
					lib.Fatalf("responseError call has %d arguments", len(t.Args))
				}
				evs = append(evs, ev{"term", ctorOf(t.Args[0]), exprName(t.Args[3])})
				return false
			case "TerminateWithError": // response.TerminateWithError(s, err, reason, w, req)
				if len(t.Args) != 5 {
					lib.Fatalf("TerminateWithError call has %d arguments", len(t.Args))
				}
				evs = append(evs, ev{"term", ctorOf(t.Args[1]), exprName(t.Args[2])})
				return false
			case "ErrorNegotiated": // responsewriters.ErrorNegotiated(err, s, gv, w, req): a Status written directly
				if len(t.Args) != 5 {
					lib.Fatalf("ErrorNegotiated call has %d arguments", len(t.Args))
				}
				evs = append(evs, ev{"term", ctorOf(t.Args[0]), "ErrorNegotiated"})
				return false
			case "TryAcquire":
				evs = append(evs, ev{kind: "acquire"})
			case "Release":
				evs = append(evs, ev{kind: "release"})
			case "Pop":
				evs = append(evs, ev{kind: "pop"})
			case "MatchAttributes":
				evs = append(evs, ev{kind: "matchPolicy"})
			case "Get":
				if exprName(t.Fun) == "clusterManager.Get" {
					evs = append(evs, ev{kind: "lookupCluster"})
				}
			case "FeatureEnabled":
				if len(t.Args) == 1 && lastSel(t.Args[0]) == "DenyAllRequests" {
					evs = append(evs, ev{kind: "denyAllGate"})
				}
			case "ServeHTTP":
				if forwardCall(t) {
					evs = append(evs, ev{kind: "forward"})
				}
			}
		}
		return true
	})
	return evs
}

// kv: one field of a composite literal: name, printed value expression, duration in ms (when it is one)
type kv struct {
	k, v string
	ms   int64
}

func render(g *lib.Gen, e ast.Expr) string {
	var sb strings.Builder
	if err := printer.Fprint(&sb, g.Fset(), e); err != nil {
		lib.Fatalf("print: %v", err)
	}
	return strings.Join(strings.Fields(sb.String()), " ")
}

// compositeOf finds the first composite literal of the named type under n.
func compositeOf(n ast.Node, typ string) *ast.CompositeLit {
	var out *ast.CompositeLit
	ast.Inspect(n, func(x ast.Node) bool {
		if cl, ok := x.(*ast.CompositeLit); ok && out == nil && cl != n && exprName(cl.Type) == typ {
			out = cl
			return false
		}
		return true
	})
	return out
}

var timeUnitsMs = map[string]float64{"time.Nanosecond": 1e-6, "time.Microsecond": 1e-3, "time.Millisecond": 1, "time.Second": 1000, "time.Minute": 60000, "time.Hour": 3600000}

// evalMs evaluates a duration expression: integer literals, time.<Unit>, products, sums, parentheses, time.Duration(x),
// and `<param>.<Field>` looked up in env (the durations of the rest config literal).
func evalMs(e ast.Expr, env []kv, param string) (float64, bool) {
	switch t := e.(type) {
	case *ast.BasicLit:
		if t.Kind == token.INT || t.Kind == token.FLOAT {
			f, err := strconv.ParseFloat(t.Value, 64)
			return f, err == nil
		}
	case *ast.ParenExpr:
		return evalMs(t.X, env, param)
	case *ast.BinaryExpr:
		a, ok1 := evalMs(t.X, env, param)
		c, ok2 := evalMs(t.Y, env, param)
		if ok1 && ok2 {
			switch t.Op {
			case token.MUL:
				return a * c, true
			case token.ADD:
				return a + c, true
			case token.SUB:
				return a - c, true
			case token.QUO:
				if c != 0 {
					return a / c, true
				}
			}
		}
	case *ast.SelectorExpr:
		name := exprName(t)
		if u, ok := timeUnitsMs[name]; ok {
			return u, true
		}
		if id, ok := t.X.(*ast.Ident); ok && param != "" && id.Name == param {
			for _, e := range env {
				if e.k == t.Sel.Name {
					return float64(e.ms), true
				}
			}
			return 0, true // a field the rest config literal leaves at its zero value
		}
	case *ast.CallExpr:
		if exprName(t.Fun) == "time.Duration" && len(t.Args) == 1 {
			return evalMs(t.Args[0], env, param)
		}
	}
	return 0, false
}

func isDurationField(name string) bool {
	return strings.HasSuffix(name, "Timeout") || strings.HasSuffix(name, "KeepAlive") || strings.HasSuffix(name, "Deadline") || strings.HasSuffix(name, "Interval")
}

// durations: the duration-valued fields of a composite literal, in ms. A duration field whose value cannot be evaluated
// stops the extractor: the facts would no longer say what the code does.
func durations(g *lib.Gen, cl *ast.CompositeLit, env []kv, param string) []kv {
	var out []kv
	for _, el := range cl.Elts {
		e, ok := el.(*ast.KeyValueExpr)
		if !ok {
			continue
		}
		name := exprName(e.Key)
		if !isDurationField(name) {
			continue
		}
		ms, ok := evalMs(e.Value, env, param)
		if !ok {
			lib.Fatalf("cannot evaluate the duration %s: %s", name, render(g, e.Value))
		}
		out = append(out, kv{name, render(g, e.Value), int64(ms + 0.5)})
	}
	return out
}

func pairsLit(l []kv) string {
	parts := make([]string, len(l))
	for i, e := range l {
		parts[i] = fmt.Sprintf("(%q, %q)", e.k, e.v)
	}
	return "[" + strings.Join(parts, ", ") + "]"
}

func msLit(l []kv) string {
	parts := make([]string, len(l))
	for i, e := range l {
		parts[i] = fmt.Sprintf("(%q, %d)", e.k, e.ms)
	}
	return "[" + strings.Join(parts, ", ") + "]"
}

func main() {
	lib.Main(func(g *lib.Gen) {
		var b strings.Builder
		b.WriteString("namespace KG.Gen.C04\n")

		// 1. hop-by-hop headers
		const rp = "pkg/util/reverseproxy/reverseproxy.go"
		// found by ROLE, not by name or representation: the package-level collection of string literals (slice elements or
		// map keys) that contains "Connection" and "Transfer-Encoding". The theorems need the SET of names (c04_hop_list).
		var hop []string
		hopVar := ""
		for _, d := range g.ParseFile(rp).Decls {
			gd, ok := d.(*ast.GenDecl)
			if !ok || gd.Tok != token.VAR {
				continue
			}
			for _, sp := range gd.Specs {
				vs := sp.(*ast.ValueSpec)
				if len(vs.Names) != 1 || len(vs.Values) != 1 {
					continue
				}
				cl, ok := vs.Values[0].(*ast.CompositeLit)
				if !ok {
					continue
				}
				var names []string
				all := len(cl.Elts) > 0
				for _, e := range cl.Elts {
					if kv, ok := e.(*ast.KeyValueExpr); ok {
						e = kv.Key
					}
					bl, ok := e.(*ast.BasicLit)
					if !ok || bl.Kind != token.STRING {
						all = false
						break
					}
					str, _ := strconv.Unquote(bl.Value)
					names = append(names, str)
				}
				has := func(x string) bool {
					for _, n := range names {
						if n == x {
							return true
						}
					}
					return false
				}
				if all && has("Connection") && has("Transfer-Encoding") {
					if hopVar != "" {
						lib.Fatalf("two candidate hop-by-hop collections in %s: %s and %s", rp, hopVar, vs.Names[0].Name)
					}
					hopVar, hop = vs.Names[0].Name, names
				}
			}
		}
		if len(hop) == 0 {
			lib.Fatalf("no package-level collection of hop-by-hop header names (string literals incl. Connection, Transfer-Encoding) in %s", rp)
		}
		fmt.Fprintf(&b, "/-- the hop-by-hop header names of %s (the package-level collection that holds them, slice or set) -/\ndef hopHeaderNames : List String := %s\n", rp, lib.LeanStrList(hop))
		fmt.Fprintf(&b, "/-- the same as byte strings -/\ndef hopHeaders : List (List UInt8) := %s\n", bytesListLit(hop))

		// 2. Retry-After constants
		const term = "pkg/gateway/endpoints/response/termination.go"
		fmt.Fprintf(&b, "/-- constants of %s -/\ndef retryAfter : Nat := %s\ndef unavailableRetryAfter : Nat := %s\n", term,
			lib.IntLit(g.Const(term, "RetryAfter")), lib.IntLit(g.Const(term, "UnavailableRetryAfter")))

		// 3. filter order
		const proxy = "cmd/kube-gateway/app/proxy.go"
		fd := lib.FuncDecl(g.ParseFile(proxy), "", "buildProxyHandlerChainFunc")
		if fd == nil {
			lib.Fatalf("buildProxyHandlerChainFunc not found")
		}
		var inner *ast.FuncLit
		ast.Inspect(fd.Body, func(n ast.Node) bool {
			if fl, ok := n.(*ast.FuncLit); ok && inner == nil {
				inner = fl
				return false
			}
			return true
		})
		if inner == nil {
			lib.Fatalf("buildProxyHandlerChainFunc returns no function literal")
		}
		var chain []string
		var record func(stmts []ast.Stmt, conditional bool)
		record = func(stmts []ast.Stmt, conditional bool) {
			for _, st := range stmts {
				switch t := st.(type) {
				case *ast.AssignStmt:
					// by role: `v = pkg.WithX(…)` / `v := pkg.WithX(…)` — whatever the local that carries the chain is called
					if len(t.Lhs) == 1 && len(t.Rhs) == 1 {
						if _, isIdent := t.Lhs[0].(*ast.Ident); !isIdent {
							continue
						}
						call, ok := t.Rhs[0].(*ast.CallExpr)
						if !ok || !strings.HasPrefix(lastSel(call.Fun), "With") {
							continue
						}
						name := lastSel(call.Fun)
						if conditional {
							name = "?" + name
						}
						chain = append(chain, name)
					}
				case *ast.IfStmt:
					record(t.Body.List, true)
				}
			}
		}
		record(inner.Body.List, false)
		if len(chain) < 5 {
			lib.Fatalf("handler chain too short: %v", chain)
		}
		fmt.Fprintf(&b, "/-- filters of buildProxyHandlerChainFunc (%s) in the order they are applied: the first is the innermost,\n    the last runs first on a request; `?` marks a conditionally installed filter -/\ndef proxyChainNames : List String := %s\ndef proxyChain : List (List UInt8) := %s\n",
			proxy, lib.LeanStrList(chain), bytesListLit(chain))

		// 4. control-flow skeletons
		b.WriteString("/-- one step of a control-flow skeleton, in source order -/\ninductive Ev where\n  | term (ctor reason : String)  -- responseError / TerminateWithError with this error constructor and reason\n  | ret | acquire | release | deferRelease | pop | matchPolicy | lookupCluster | denyAllGate | forward\nderiving DecidableEq, Repr\n")
		const disp = "pkg/gateway/proxy/dispatcher/dispatcher.go"
		sd := lib.FuncDecl(g.ParseFile(disp), "dispatcher", "ServeHTTP")
		if sd == nil {
			lib.Fatalf("dispatcher.ServeHTTP not found")
		}
		devs := skeleton(sd.Body, func(c *ast.CallExpr) bool { return exprName(c.Fun) == "proxyHandler.ServeHTTP" })
		fmt.Fprintf(&b, "/-- skeleton of dispatcher.ServeHTTP (%s) -/\ndef dispatcherSteps : List Ev := [\n", disp)
		for i, e := range devs {
			sep := ","
			if i == len(devs)-1 {
				sep = ""
			}
			fmt.Fprintf(&b, "  %s%s\n", e.lean(), sep)
		}
		b.WriteString("]\n")
		const upi = "pkg/gateway/endpoints/filters/upstreaminfo.go"
		ud := lib.FuncDecl(g.ParseFile(upi), "", "WithUpstreamInfo")
		if ud == nil {
			lib.Fatalf("WithUpstreamInfo not found")
		}
		var uinner *ast.FuncLit
		ast.Inspect(ud.Body, func(n ast.Node) bool {
			if fl, ok := n.(*ast.FuncLit); ok && uinner == nil {
				uinner = fl
				return false
			}
			return true
		})
		if uinner == nil {
			lib.Fatalf("WithUpstreamInfo has no handler literal")
		}
		uevs := skeleton(uinner.Body, func(c *ast.CallExpr) bool { return exprName(c.Fun) == "handler.ServeHTTP" })
		fmt.Fprintf(&b, "/-- skeleton of the WithUpstreamInfo handler (%s) -/\ndef upstreamInfoSteps : List Ev := [\n", upi)
		for i, e := range uevs {
			sep := ","
			if i == len(uevs)-1 {
				sep = ""
			}
			fmt.Fprintf(&b, "  %s%s\n", e.lean(), sep)
		}
		b.WriteString("]\n")

		// 5. the resource exempted from Retry-After: `requestAttributes.GetResource() != "<lit>"` guarding `retryAfter = response.RetryAfter`
		exempt := ""
		ast.Inspect(sd.Body, func(n ast.Node) bool {
			ifs, ok := n.(*ast.IfStmt)
			if !ok {
				return true
			}
			be, ok := ifs.Cond.(*ast.BinaryExpr)
			if !ok || be.Op != token.NEQ {
				return true
			}
			call, ok := be.X.(*ast.CallExpr)
			lit, ok2 := be.Y.(*ast.BasicLit)
			if ok && ok2 && lastSel(call.Fun) == "GetResource" && len(ifs.Body.List) == 1 {
				if as, ok := ifs.Body.List[0].(*ast.AssignStmt); ok && exprName(as.Lhs[0]) == "retryAfter" && exprName(as.Rhs[0]) == "response.RetryAfter" {
					exempt, _ = strconv.Unquote(lit.Value)
				}
			}
			return true
		})
		if exempt == "" {
			lib.Fatalf("the `GetResource() != \"...\"` guard of retryAfter = response.RetryAfter was not found in dispatcher.ServeHTTP")
		}
		fmt.Fprintf(&b, "/-- the resource whose rate-limited answer carries no Retry-After -/\ndef rateLimitExemptResourceName : String := %q\ndef rateLimitExemptResource : List UInt8 := %s\n", exempt, bytesLit(exempt))

		// 6. WithRequestInfo (since bd02b39 the gateway's own filter): a resolver error is answered with a Status
		const rif = "pkg/gateway/endpoints/filters/requestinfo.go"
		rd := lib.FuncDecl(g.ParseFile(rif), "", "WithRequestInfo")
		if rd == nil {
			lib.Fatalf("filters.WithRequestInfo is not a function of the gateway any more (an alias of the generic filter answers a resolver error with text/plain)")
		}
		var rinner *ast.FuncLit
		ast.Inspect(rd.Body, func(n ast.Node) bool {
			if fl, ok := n.(*ast.FuncLit); ok && rinner == nil {
				rinner = fl
				return false
			}
			return true
		})
		if rinner == nil {
			lib.Fatalf("WithRequestInfo has no handler literal")
		}
		revs := skeleton(rinner.Body, func(c *ast.CallExpr) bool { return exprName(c.Fun) == "handler.ServeHTTP" })
		fmt.Fprintf(&b, "/-- skeleton of the WithRequestInfo handler (%s) -/\ndef requestInfoSteps : List Ev := [\n", rif)
		for i, e := range revs {
			sep := ","
			if i == len(revs)-1 {
				sep = ""
			}
			fmt.Fprintf(&b, "  %s%s\n", e.lean(), sep)
		}
		b.WriteString("]\n")
		// number of arguments of the WithRequestInfo call in the chain (handler, resolver, serializer)
		riArgs := 0
		ast.Inspect(inner.Body, func(n ast.Node) bool {
			if c, ok := n.(*ast.CallExpr); ok && lastSel(c.Fun) == "WithRequestInfo" {
				riArgs = len(c.Args)
			}
			return true
		})
		fmt.Fprintf(&b, "/-- arguments of the WithRequestInfo call in buildProxyHandlerChainFunc (handler, resolver, serializer) -/\ndef requestInfoCallArgs : Nat := %d\n", riArgs)

		// 7. the escaped path handed to the proxy (since 85b204e), by ROLE: whatever ends up in the RawPath field of the url.URL
		// built in dispatcher.ServeHTTP — by assignment or in a composite literal, there or in a same-file helper it calls (two
		// levels) — is a same-file function applied to the incoming URL's RawPath; the bytes that function leaves alone are
		// letters, digits and the punctuation of the string its byte test searches (literal or constant), followed likewise.
		dfile := g.ParseFile(disp)
		sameFile := map[string]*ast.FuncDecl{}
		for _, d := range dfile.Decls {
			if fd, ok := d.(*ast.FuncDecl); ok && fd.Recv == nil && fd.Body != nil {
				sameFile[fd.Name.Name] = fd
			}
		}
		var rawPathValue ast.Expr
		var findRawPath func(n ast.Node, depth int)
		findRawPath = func(n ast.Node, depth int) {
			ast.Inspect(n, func(x ast.Node) bool {
				switch t := x.(type) {
				case *ast.AssignStmt:
					for i, l := range t.Lhs {
						if se, ok := l.(*ast.SelectorExpr); ok && se.Sel.Name == "RawPath" && len(t.Rhs) == len(t.Lhs) {
							rawPathValue = t.Rhs[i]
						}
					}
				case *ast.CompositeLit:
					if exprName(t.Type) == "url.URL" {
						for _, el := range t.Elts {
							if kv, ok := el.(*ast.KeyValueExpr); ok && exprName(kv.Key) == "RawPath" {
								rawPathValue = kv.Value
							}
						}
					}
				case *ast.CallExpr:
					if id, ok := t.Fun.(*ast.Ident); ok && depth > 0 {
						if fd := sameFile[id.Name]; fd != nil {
							findRawPath(fd.Body, depth-1)
						}
					}
				}
				return true
			})
		}
		findRawPath(sd.Body, 2)
		if rawPathValue == nil {
			lib.Fatalf("dispatcher.ServeHTTP (and the same-file helpers it calls) no longer sets the RawPath of the upstream URL")
		}
		escaped, punct, alnum := false, "", false
		switch t := rawPathValue.(type) {
		case *ast.SelectorExpr:
			if t.Sel.Name != "RawPath" {
				lib.Fatalf("the upstream URL's RawPath is set from %s", render(g, rawPathValue))
			}
		case *ast.CallExpr:
			id, ok := t.Fun.(*ast.Ident)
			arg, ok2 := ast.Expr(nil), false
			if len(t.Args) == 1 {
				if se, isSel := t.Args[0].(*ast.SelectorExpr); isSel && se.Sel.Name == "RawPath" {
					arg, ok2 = se, true
				}
			}
			if !ok || !ok2 || sameFile[id.Name] == nil || arg == nil {
				lib.Fatalf("the upstream URL's RawPath is set from %s: not a same-file function of the incoming RawPath", render(g, rawPathValue))
			}
			escaped = true
			consts := g.Consts(disp)
			chars := map[string]bool{}
			var scan func(n ast.Node, depth int)
			scan = func(n ast.Node, depth int) {
				ast.Inspect(n, func(x ast.Node) bool {
					switch c := x.(type) {
					case *ast.BasicLit:
						if c.Kind == token.CHAR {
							chars[c.Value] = true
						}
					case *ast.CallExpr:
						switch exprName(c.Fun) {
						case "strings.IndexByte", "strings.IndexRune", "strings.ContainsRune", "strings.IndexAny", "strings.ContainsAny":
							if len(c.Args) == 2 {
								if bl, ok := c.Args[0].(*ast.BasicLit); ok && bl.Kind == token.STRING {
									punct, _ = strconv.Unquote(bl.Value)
								} else if cid, ok := c.Args[0].(*ast.Ident); ok {
									if v, ok := consts[cid.Name]; ok && v.Kind() == constant.String {
										punct = constant.StringVal(v)
									}
								}
							}
						}
						if cid, ok := c.Fun.(*ast.Ident); ok && depth > 0 {
							if fd := sameFile[cid.Name]; fd != nil {
								scan(fd.Body, depth-1)
							}
						}
					}
					return true
				})
			}
			scan(sameFile[id.Name].Body, 2)
			alnum = chars["'a'"] && chars["'z'"] && chars["'A'"] && chars["'Z'"] && chars["'0'"] && chars["'9'"]
			if punct == "" {
				lib.Fatalf("the function that escapes the upstream RawPath (%s) has no byte test against a string of punctuation any more", id.Name)
			}
		default:
			lib.Fatalf("the upstream URL's RawPath is set from %s", render(g, rawPathValue))
		}
		fmt.Fprintf(&b, "/-- the RawPath of the upstream URL built by dispatcher.ServeHTTP is a same-file function of the incoming RawPath\n    (false: the incoming RawPath itself) -/\ndef locationRawPathEscaped : Bool := %v\n", escaped)
		fmt.Fprintf(&b, "/-- the bytes that function leaves alone: letters and digits (its byte test compares against 'a' 'z' 'A' 'Z' '0' '9') … -/\ndef validPathAlnum : Bool := %v\n", alnum)
		fmt.Fprintf(&b, "/-- … and this punctuation (empty: there is no such function) -/\ndef validPathPunct : List UInt8 := %s\n", bytesLit(punct))

		// 8. the transport a forwarded request is sent with (EndpointInfo.ProxyTransport): which time-outs newTransport
		// (pkg/clusters/endpoint.go) and newRESTConfig (pkg/clusters/util.go) set. A forwarded exchange has a deadline of
		// the gateway's own exactly when one of these says so (or a time-out filter is in the chain, section 3).
		const endpointGo, utilGo = "pkg/clusters/endpoint.go", "pkg/clusters/util.go"
		rc := lib.FuncDecl(g.ParseFile(utilGo), "", "newRESTConfig")
		if rc == nil {
			lib.Fatalf("newRESTConfig not found in %s", utilGo)
		}
		restLit := compositeOf(rc.Body, "rest.Config")
		if restLit == nil {
			lib.Fatalf("newRESTConfig no longer builds a rest.Config literal")
		}
		restDur := durations(g, restLit, nil, "")
		var restDialer []kv
		if dl := compositeOf(restLit, "net.Dialer"); dl != nil {
			restDialer = durations(g, dl, nil, "")
		}
		nt := lib.FuncDecl(g.ParseFile(endpointGo), "", "newTransport")
		if nt == nil {
			lib.Fatalf("newTransport not found in %s", endpointGo)
		}
		if nt.Type.Params == nil || len(nt.Type.Params.List) != 1 || len(nt.Type.Params.List[0].Names) != 1 || exprName(nt.Type.Params.List[0].Type) != "rest.Config" {
			lib.Fatalf("newTransport no longer takes exactly one *rest.Config")
		}
		param := nt.Type.Params.List[0].Names[0].Name
		trLit := compositeOf(nt.Body, "http.Transport")
		if trLit == nil {
			lib.Fatalf("newTransport no longer builds an http.Transport literal")
		}
		var fields []kv
		for _, el := range trLit.Elts {
			e, ok := el.(*ast.KeyValueExpr)
			if !ok {
				lib.Fatalf("http.Transport literal of newTransport has an element without a key")
			}
			fields = append(fields, kv{exprName(e.Key), render(g, e.Value), 0})
		}
		trDur := durations(g, trLit, restDur, param)
		var fbDialer []kv
		if dl := compositeOf(nt.Body, "net.Dialer"); dl != nil {
			fbDialer = durations(g, dl, restDur, param)
		}
		wrap := ""
		ast.Inspect(nt.Body, func(n ast.Node) bool {
			if c, ok := n.(*ast.CallExpr); ok && len(c.Args) == 1 {
				if u, ok := c.Args[0].(*ast.UnaryExpr); ok && u.X == ast.Expr(trLit) {
					wrap = exprName(c.Fun)
				}
			}
			return true
		})
		// every place of the package where a field of an *http.Transport is ASSIGNED after construction would escape the literal
		assigned := []string{}
		for _, rel := range []string{endpointGo, utilGo} {
			ast.Inspect(g.ParseFile(rel), func(n ast.Node) bool {
				if as, ok := n.(*ast.AssignStmt); ok {
					for _, l := range as.Lhs {
						if se, ok := l.(*ast.SelectorExpr); ok && (strings.HasSuffix(se.Sel.Name, "Timeout") || se.Sel.Name == "Deadline") {
							assigned = append(assigned, rel+": "+exprName(l))
						}
					}
				}
				return true
			})
		}
		fmt.Fprintf(&b, "/-- the fields of the `http.Transport` literal in newTransport (%s), in source order, with their value expressions -/\ndef transportFields : List (String × String) := %s\n", endpointGo, pairsLit(fields))
		fmt.Fprintf(&b, "/-- those of them that are durations, in milliseconds (`%s.X` resolved through the literal of newRESTConfig) -/\ndef transportDurationsMs : List (String × Nat) := %s\n", param, msLit(trDur))
		fmt.Fprintf(&b, "/-- the function the literal is handed to -/\ndef transportWrap : String := %q\n", wrap)
		fmt.Fprintf(&b, "/-- the dialer newTransport falls back to when the rest config has none -/\ndef fallbackDialerMs : List (String × Nat) := %s\n", msLit(fbDialer))
		fmt.Fprintf(&b, "/-- durations of the `rest.Config` literal in newRESTConfig (%s) and of its dialer -/\ndef restConfigDurationsMs : List (String × Nat) := %s\ndef restDialerMs : List (String × Nat) := %s\n", utilGo, msLit(restDur), msLit(restDialer))
		fmt.Fprintf(&b, "/-- assignments to a `…Timeout` / `Deadline` field anywhere in those two files (outside the literals) -/\ndef timeoutAssignments : List String := %s\n", lib.LeanStrList(assigned))

		b.WriteString("end KG.Gen.C04\n")
		g.Emit("C04.lean", b.String())
	})
}
