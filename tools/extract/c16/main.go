// Regenerates lean/KG/Gen/C16.lean: the string constants the admission validation and its consumers compare
// against, and a few shape facts of the code that cannot be observed by running one function:
//   - the Validate* functions called by ValidateUpstreamClusterSpec / ValidateUpstreamCluster, in order;
//   - whether the controller's deferred clean-up guards clusterInfo.Stop() with `clusterInfo != nil`;
//   - whether updateGlobalCuntFlowControls skips schemas without a global limit (EnableGlobalFlowControl).
package main

import (
	"fmt"
	"go/ast"
	"go/token"
	"strconv"
	"strings"

	"extract/lib"
)

// strConst finds `Name [Type] = "literal"` in a const or var block of the file.
func strConst(g *lib.Gen, rel, name string) string {
	f := g.ParseFile(rel)
	for _, d := range f.Decls {
		gd, ok := d.(*ast.GenDecl)
		if !ok || (gd.Tok != token.CONST && gd.Tok != token.VAR) {
			continue
		}
		for _, s := range gd.Specs {
			vs := s.(*ast.ValueSpec)
			for i, n := range vs.Names {
				if n.Name != name || i >= len(vs.Values) {
					continue
				}
				if bl, ok := vs.Values[i].(*ast.BasicLit); ok && bl.Kind == token.STRING {
					v, err := strconv.Unquote(bl.Value)
					if err != nil {
						lib.Fatalf("%s: %v", name, err)
					}
					return v
				}
			}
		}
	}
	lib.Fatalf("string constant %s not found in %s", name, rel)
	return ""
}

// callsIn lists, in source order, the names of the functions called in fd whose name has the prefix.
func callsIn(fd *ast.FuncDecl, prefix string) []string {
	var res []string
	ast.Inspect(fd.Body, func(n ast.Node) bool {
		ce, ok := n.(*ast.CallExpr)
		if !ok {
			return true
		}
		name := ""
		switch f := ce.Fun.(type) {
		case *ast.Ident:
			name = f.Name
		case *ast.SelectorExpr:
			name = f.Sel.Name
		}
		if strings.HasPrefix(name, prefix) {
			res = append(res, name)
		}
		return true
	})
	return res
}

// guardedBy reports whether every call `recv.method()` inside node sits in the body of an `if` whose condition
// mentions all the given identifiers/operators (rendered source contains each of the needles).
func exprString(e ast.Expr) string {
	switch x := e.(type) {
	case *ast.Ident:
		return x.Name
	case *ast.BasicLit:
		return x.Value
	case *ast.SelectorExpr:
		return exprString(x.X) + "." + x.Sel.Name
	case *ast.BinaryExpr:
		return exprString(x.X) + " " + x.Op.String() + " " + exprString(x.Y)
	case *ast.UnaryExpr:
		return x.Op.String() + exprString(x.X)
	case *ast.CallExpr:
		a := []string{}
		for _, y := range x.Args {
			a = append(a, exprString(y))
		}
		return exprString(x.Fun) + "(" + strings.Join(a, ", ") + ")"
	case *ast.ParenExpr:
		return "(" + exprString(x.X) + ")"
	}
	return "?"
}

func main() {
	lib.Main(func(g *lib.Gen) {
		var b strings.Builder
		b.WriteString("namespace KG.Gen.C16\n")
		const types = "pkg/apis/proxy/v1alpha1/upstreamcluster_types.go"
		for _, n := range []string{"LogOn", "LogOff", "LocalLimit", "GlobalAllocateLimit", "GlobalCountLimit", "RoundRobin"} {
			fmt.Fprintf(&b, "def %s : String := %q\n", strings.ToLower(n[:1])+n[1:], strConst(g, types, n))
		}
		fmt.Fprintf(&b, "def featureGateAnnotationKey : String := %q\n", strConst(g, "pkg/clusters/features/features.go", "FeatureGateAnnotationKey"))

		// order of the section validators
		vf := g.ParseFile("pkg/apis/proxy/v1alpha1/validation/validation.go")
		spec := lib.FuncDecl(vf, "", "ValidateUpstreamClusterSpec")
		top := lib.FuncDecl(vf, "", "ValidateUpstreamCluster")
		if spec == nil || top == nil {
			lib.Fatalf("ValidateUpstreamCluster(Spec) not found")
		}
		fmt.Fprintf(&b, "/-- Validate* calls of ValidateUpstreamCluster, then of ValidateUpstreamClusterSpec, in source order -/\n")
		fmt.Fprintf(&b, "def topValidators : List String := %s\n", lib.LeanStrList(callsIn(top, "Validate")))
		fmt.Fprintf(&b, "def specValidators : List String := %s\n", lib.LeanStrList(callsIn(spec, "Validate")))

		// controller: deferred clusterInfo.Stop() guarded by clusterInfo != nil
		cf := g.ParseFile("pkg/gateway/controllers/upstream_controller.go")
		sync := lib.FuncDecl(cf, "UpstreamClusterController", "syncUpstreamCluster")
		if sync == nil {
			lib.Fatalf("syncUpstreamCluster not found")
		}
		stops, guarded := 0, 0
		var walk func(n ast.Node, inGuard bool)
		walk = func(n ast.Node, inGuard bool) {
			ast.Inspect(n, func(m ast.Node) bool {
				if m == nil || m == n {
					return true
				}
				switch x := m.(type) {
				case *ast.IfStmt:
					cond := exprString(x.Cond)
					walk(x.Body, inGuard || cond == "clusterInfo != nil")
					if x.Else != nil {
						walk(x.Else, inGuard)
					}
					return false
				case *ast.CallExpr:
					if exprString(x.Fun) == "clusterInfo.Stop" {
						stops++
						if inGuard {
							guarded++
						}
					}
				}
				return true
			})
		}
		walk(sync.Body, false)
		if stops == 0 {
			lib.Fatalf("syncUpstreamCluster no longer calls clusterInfo.Stop(): the shape this extractor reads changed")
		}
		fmt.Fprintf(&b, "/-- every `clusterInfo.Stop()` in syncUpstreamCluster is inside `if clusterInfo != nil` -/\n")
		fmt.Fprintf(&b, "def stopGuarded : Bool := %v\n", stops == guarded)

		// gateway reconcile: count path skips schemas without a global limit
		rf := g.ParseFile("pkg/flowcontrols/remote/remote_allocation.go")
		upd := lib.FuncDecl(rf, "reconcile", "updateGlobalCuntFlowControls")
		if upd == nil {
			lib.Fatalf("updateGlobalCuntFlowControls not found")
		}
		countGuard := false
		ast.Inspect(upd.Body, func(n ast.Node) bool {
			is, ok := n.(*ast.IfStmt)
			if !ok {
				return true
			}
			if exprString(is.Cond) == "!EnableGlobalFlowControl(localConfig)" && len(is.Body.List) > 0 {
				if br, ok := is.Body.List[len(is.Body.List)-1].(*ast.BranchStmt); ok && br.Tok == token.CONTINUE {
					countGuard = true
				}
			}
			return true
		})
		fmt.Fprintf(&b, "/-- updateGlobalCuntFlowControls has `if !EnableGlobalFlowControl(localConfig) { continue }` -/\n")
		fmt.Fprintf(&b, "def countPathGuarded : Bool := %v\n", countGuard)
		// admission plugin: Validate does not skip writes to the status subresource
		af := g.ParseFile("plugin/admission/upstreamcluster/admission.go")
		val := lib.FuncDecl(af, "upstreamclusterPlugin", "Validate")
		if val == nil || len(val.Body.List) == 0 {
			lib.Fatalf("upstreamclusterPlugin.Validate not found")
		}
		statusValidated := false
		if is, ok := val.Body.List[0].(*ast.IfStmt); ok {
			statusValidated = exprString(is.Cond) == "shouldIgnore(a) && !isStatusUpdate(a)"
		}
		fmt.Fprintf(&b, "/-- the first statement of the plugin's Validate is `if shouldIgnore(a) && !isStatusUpdate(a) { return nil }` -/\n")
		fmt.Fprintf(&b, "def statusValidated : Bool := %v\n", statusValidated)
		b.WriteString("end KG.Gen.C16\n")
		g.Emit("C16.lean", b.String())
	})
}
