// Regenerates lean/KG/Gen/C15.lean: the shape facts of the removal path that the lifecycle model (KG.Model.Lifecycle)
// is parameterised by. Each fact is read with go/ast from /repo's current sources; the model behaves as the source
// says (a cluster deletion that does not stop the cluster, an endpoint context that is not a child of the cluster's,
// ... give a model in which the C15 theorems no longer hold, so ./check reports the broken proof obligations next to
// whatever the harness finds at run time).
//
// A fact that can be read neither way (the function is gone, the call it looks for has no recognisable form) is a
// failed regeneration.
package main

import (
	"fmt"
	"go/ast"
	"go/token"
	"strings"

	"extract/lib"
)

func must(fd *ast.FuncDecl, file, name string) *ast.FuncDecl {
	if fd == nil || fd.Body == nil {
		lib.Fatalf("%s: function %s not found", file, name)
	}
	return fd
}

// calls returns every call expression below n whose callee is a selector (x.Name(...)) or an identifier (Name(...)).
func calls(n ast.Node, name string) []*ast.CallExpr {
	var out []*ast.CallExpr
	ast.Inspect(n, func(x ast.Node) bool {
		c, ok := x.(*ast.CallExpr)
		if !ok {
			return true
		}
		switch f := c.Fun.(type) {
		case *ast.SelectorExpr:
			if f.Sel.Name == name {
				out = append(out, c)
			}
		case *ast.Ident:
			if f.Name == name {
				out = append(out, c)
			}
		}
		return true
	})
	return out
}

func isPkgCall(e ast.Expr, pkg, name string) bool {
	c, ok := e.(*ast.CallExpr)
	if !ok {
		return false
	}
	s, ok := c.Fun.(*ast.SelectorExpr)
	if !ok || s.Sel.Name != name {
		return false
	}
	id, ok := s.X.(*ast.Ident)
	return ok && id.Name == pkg
}

// ctxOf says whether e reads the context of the object named recv: recv.Context() or recv.ctx.
func ctxOf(e ast.Expr, recv string) bool {
	if c, ok := e.(*ast.CallExpr); ok {
		if s, ok := c.Fun.(*ast.SelectorExpr); ok && s.Sel.Name == "Context" && len(c.Args) == 0 {
			if id, ok := s.X.(*ast.Ident); ok && (recv == "" || id.Name == recv) {
				return true
			}
		}
	}
	if s, ok := e.(*ast.SelectorExpr); ok && s.Sel.Name == "ctx" {
		if id, ok := s.X.(*ast.Ident); ok && (recv == "" || id.Name == recv) {
			return true
		}
	}
	return false
}

func detached(e ast.Expr) bool {
	return isPkgCall(e, "context", "Background") || isPkgCall(e, "context", "TODO")
}

func recvName(fd *ast.FuncDecl) string {
	if fd.Recv != nil && len(fd.Recv.List) == 1 && len(fd.Recv.List[0].Names) == 1 {
		return fd.Recv.List[0].Names[0].Name
	}
	return ""
}

func b(v bool) string {
	if v {
		return "true"
	}
	return "false"
}

func main() {
	lib.Main(func(g *lib.Gen) {
		const (
			fCtrl = "pkg/gateway/controllers/upstream_controller.go"
			fMgr  = "pkg/clusters/manager.go"
			fCI   = "pkg/clusters/clusterinfo.go"
			fEP   = "pkg/clusters/endpoint.go"
			fDisp = "pkg/gateway/proxy/dispatcher/dispatcher.go"
		)
		ctrl, mgr, ci, ep, disp := g.ParseFile(fCtrl), g.ParseFile(fMgr), g.ParseFile(fCI), g.ParseFile(fEP), g.ParseFile(fDisp)

		// 1/2. which of the manager's delete variants the two controller paths use
		variant := func(fn string) bool {
			fd := must(lib.FuncDecl(ctrl, "UpstreamClusterController", fn), fCtrl, fn)
			ws, wo := calls(fd.Body, "DeleteWithStop"), calls(fd.Body, "Delete")
			switch {
			case len(ws) > 0 && len(wo) == 0:
				return true
			case len(ws) == 0 && len(wo) > 0:
				return false
			}
			lib.Fatalf("%s: %s calls neither exactly Delete nor exactly DeleteWithStop (%d/%d)", fCtrl, fn, len(wo), len(ws))
			return false
		}
		deleteStops := variant("DeleteForServerNames")
		aliasStops := variant("AddOrUpdateForServerNames")

		// the loops over the server names visit EVERY name: a name that does not (any longer) resolve to the cluster is
		// skipped, it does not end the loop (no return / break / goto inside a range body)
		visitsAll := func(fn string) bool {
			fd := must(lib.FuncDecl(ctrl, "UpstreamClusterController", fn), fCtrl, fn)
			loops, all := 0, true
			ast.Inspect(fd.Body, func(x ast.Node) bool {
				rs, ok := x.(*ast.RangeStmt)
				if !ok {
					return true
				}
				loops++
				ast.Inspect(rs.Body, func(y ast.Node) bool {
					switch t := y.(type) {
					case *ast.FuncLit:
						return false
					case *ast.ReturnStmt:
						all = false
					case *ast.BranchStmt:
						if t.Tok == token.BREAK || t.Tok == token.GOTO {
							all = false
						}
					}
					return true
				})
				return true
			})
			if loops == 0 {
				lib.Fatalf("%s: %s has no loop over the server names", fCtrl, fn)
			}
			return all
		}
		deleteVisitsAll := visitsAll("DeleteForServerNames")
		updateVisitsAll := visitsAll("AddOrUpdateForServerNames")

		// 3. manager: DeleteWithStop -> doDelete(name, true) -> cluster.Stop(); Delete -> doDelete(name, false); Stop -> c.cancel()
		flag := func(fn string) bool {
			fd := must(lib.FuncDecl(mgr, "manager", fn), fMgr, fn)
			cs := calls(fd.Body, "doDelete")
			if len(cs) != 1 || len(cs[0].Args) != 2 {
				lib.Fatalf("%s: %s does not call doDelete(name, flag) once", fMgr, fn)
			}
			id, ok := cs[0].Args[1].(*ast.Ident)
			if !ok || (id.Name != "true" && id.Name != "false") {
				lib.Fatalf("%s: %s passes a non-literal stop flag", fMgr, fn)
			}
			return id.Name == "true"
		}
		dd := must(lib.FuncDecl(mgr, "manager", "doDelete"), fMgr, "doDelete")
		stopUnderFlag := false
		ast.Inspect(dd.Body, func(x ast.Node) bool {
			if is, ok := x.(*ast.IfStmt); ok {
				if id, ok := is.Cond.(*ast.Ident); ok && id.Name == "stop" && len(calls(is.Body, "Stop")) > 0 {
					stopUnderFlag = true
				}
			}
			return true
		})
		if len(calls(dd.Body, "LoadAndDelete")) == 0 {
			lib.Fatalf("%s: doDelete does not LoadAndDelete the key", fMgr)
		}
		stopFn := must(lib.FuncDecl(ci, "ClusterInfo", "Stop"), fCI, "Stop")
		stopCancels := len(calls(stopFn.Body, "cancel")) > 0
		withStopStops := flag("DeleteWithStop") && stopUnderFlag && stopCancels
		plainStops := flag("Delete") && stopUnderFlag && stopCancels

		// 4. the endpoint's context is a child of the cluster's
		aou := must(lib.FuncDecl(ci, "ClusterInfo", "addOrUpdateEndpoint"), fCI, "addOrUpdateEndpoint")
		wcs := calls(aou.Body, "WithCancel")
		if len(wcs) != 1 || len(wcs[0].Args) != 1 {
			lib.Fatalf("%s: addOrUpdateEndpoint does not create exactly one context.WithCancel", fCI)
		}
		var epChild bool
		switch {
		case ctxOf(wcs[0].Args[0], recvName(aou)):
			epChild = true
		case detached(wcs[0].Args[0]):
			epChild = false
		default:
			lib.Fatalf("%s: addOrUpdateEndpoint: parent of the endpoint context not recognised", fCI)
		}

		// 4b. PickOne (the pick behind ClientFor: TokenReview / SubjectAccessReview webhooks) is the same pick as the
		// dispatcher's: a fresh strategy over AllEndpoints() and nothing but its Pop() — no remembered endpoint
		po := must(lib.FuncDecl(ci, "ClusterInfo", "PickOne"), fCI, "PickOne")
		var rets []*ast.ReturnStmt
		ast.Inspect(po.Body, func(x ast.Node) bool {
			if _, ok := x.(*ast.FuncLit); ok {
				return false
			}
			if rs, ok := x.(*ast.ReturnStmt); ok {
				rets = append(rets, rs)
			}
			return true
		})
		pickOnePlain := len(rets) == 1 && len(rets[0].Results) == 1 && len(calls(rets[0].Results[0], "Pop")) == 1 &&
			len(calls(po.Body, "AllEndpoints")) == 1
		if len(calls(po.Body, "Pop")) == 0 {
			lib.Fatalf("%s: PickOne does not pick through Pop", fCI)
		}
		cp := g.ParseFile("pkg/clusters/clientprovider.go")
		cf := must(lib.FuncDecl(cp, "manager", "ClientFor"), "pkg/clusters/clientprovider.go", "ClientFor")
		if len(calls(cf.Body, "Get")) != 1 || len(calls(cf.Body, "PickOne")) != 1 {
			lib.Fatalf("pkg/clusters/clientprovider.go: ClientFor is not Get(name) + PickOne()")
		}

		// 5/6. syncEndpoints: removed endpoints leave the map and are cancelled
		se := must(lib.FuncDecl(ci, "ClusterInfo", "syncEndpoints"), fCI, "syncEndpoints")
		leavesMap := len(calls(se.Body, "LoadAndDelete")) > 0
		if !leavesMap && len(calls(se.Body, "Load")) == 0 {
			lib.Fatalf("%s: syncEndpoints neither loads nor deletes removed endpoints", fCI)
		}
		cancelled := len(calls(se.Body, "cancel")) > 0

		// 7. health-check loops: child of the endpoint context, and both goroutines leave when it ends
		ens := must(lib.FuncDecl(ep, "", "EnsureGatewayHealthCheck"), fEP, "EnsureGatewayHealthCheck")
		var ctxParam string
		for _, p := range ens.Type.Params.List {
			if s, ok := p.Type.(*ast.SelectorExpr); ok && s.Sel.Name == "Context" && len(p.Names) == 1 {
				ctxParam = p.Names[0].Name
			}
		}
		hw := calls(ens.Body, "WithCancel")
		if ctxParam == "" || len(hw) != 1 || len(hw[0].Args) != 1 {
			lib.Fatalf("%s: EnsureGatewayHealthCheck(ctx) does not create exactly one context.WithCancel", fEP)
		}
		var hcChild bool
		if id, ok := hw[0].Args[0].(*ast.Ident); ok && id.Name == ctxParam {
			hcChild = true
		} else if detached(hw[0].Args[0]) {
			hcChild = false
		} else {
			lib.Fatalf("%s: EnsureGatewayHealthCheck: parent of the health-check context not recognised", fEP)
		}
		// which context each call site of EnsureGatewayHealthCheck hands over: the update path (endpoint already in the
		// map: the call inside `if ok { ... }`) and the create path (the other call) of addOrUpdateEndpoint
		inUpdate := map[*ast.CallExpr]bool{}
		ast.Inspect(aou.Body, func(x ast.Node) bool {
			if is, ok := x.(*ast.IfStmt); ok {
				if id, ok := is.Cond.(*ast.Ident); ok && id.Name == "ok" {
					for _, c := range calls(is.Body, "EnsureGatewayHealthCheck") {
						inUpdate[c] = true
					}
				}
			}
			return true
		})
		siteCtx := func(c *ast.CallExpr, where string) bool {
			if len(c.Args) != 3 {
				lib.Fatalf("%s: addOrUpdateEndpoint (%s path): EnsureGatewayHealthCheck is not called with (e, interval, ctx)", fCI, where)
			}
			epArg, ok := c.Args[0].(*ast.Ident)
			if !ok {
				lib.Fatalf("%s: addOrUpdateEndpoint (%s path): first argument of EnsureGatewayHealthCheck is not a variable", fCI, where)
			}
			switch {
			case ctxOf(c.Args[2], epArg.Name) && epArg.Name != recvName(aou):
				return true // the endpoint's own context
			case ctxOf(c.Args[2], "") || detached(c.Args[2]):
				return false // some other object's context (the cluster's), or a detached one
			}
			lib.Fatalf("%s: addOrUpdateEndpoint (%s path): context handed to EnsureGatewayHealthCheck not recognised", fCI, where)
			return false
		}
		var nUpd, nNew int
		hcAtUpdate, hcAtCreate := true, true
		for _, c := range calls(aou.Body, "EnsureGatewayHealthCheck") {
			if inUpdate[c] {
				nUpd++
				hcAtUpdate = hcAtUpdate && siteCtx(c, "update")
			} else {
				nNew++
				hcAtCreate = hcAtCreate && siteCtx(c, "create")
			}
		}
		if nUpd == 0 || nNew == 0 {
			lib.Fatalf("%s: addOrUpdateEndpoint: expected a call of EnsureGatewayHealthCheck on the update path and one on the create path (%d/%d)", fCI, nUpd, nNew)
		}
		// any other caller in the package must hand over an endpoint's context as well
		for _, f := range []*ast.File{ci, ep} {
			for _, d := range f.Decls {
				fd, ok := d.(*ast.FuncDecl)
				if !ok || fd.Body == nil || fd == aou {
					continue
				}
				for _, c := range calls(fd.Body, "EnsureGatewayHealthCheck") {
					if len(c.Args) != 3 {
						lib.Fatalf("%s: unexpected call shape of EnsureGatewayHealthCheck in %s", fCI, fd.Name.Name)
					}
					if epArg, ok := c.Args[0].(*ast.Ident); !ok || !ctxOf(c.Args[2], epArg.Name) {
						hcAtUpdate = false
					}
				}
			}
		}
		start := must(lib.FuncDecl(ep, "", "startGatewayHealthCheck"), fEP, "startGatewayHealthCheck")
		loops, watching := 0, 0
		ast.Inspect(start.Body, func(x ast.Node) bool {
			gs, ok := x.(*ast.GoStmt)
			if !ok {
				return true
			}
			loops++
			w := false
			ast.Inspect(gs, func(y ast.Node) bool {
				if cc, ok := y.(*ast.CommClause); ok && cc.Comm != nil {
					if es, ok := cc.Comm.(*ast.ExprStmt); ok {
						if u, ok := es.X.(*ast.UnaryExpr); ok && u.Op == token.ARROW && len(calls(u.X, "Done")) > 0 {
							for _, st := range cc.Body {
								if _, ok := st.(*ast.ReturnStmt); ok {
									w = true
								}
							}
						}
					}
				}
				return true
			})
			if w {
				watching++
			}
			return false
		})
		if loops == 0 {
			lib.Fatalf("%s: startGatewayHealthCheck starts no goroutine", fEP)
		}
		hcChild = hcChild && watching == loops

		// 8. dispatcher: a goroutine cancels the proxied request when the picked endpoint's context ends
		sh := must(lib.FuncDecl(disp, "dispatcher", "ServeHTTP"), fDisp, "ServeHTTP")
		var epVar, cancelVar string
		ast.Inspect(sh.Body, func(x ast.Node) bool {
			as, ok := x.(*ast.AssignStmt)
			if !ok || len(as.Rhs) != 1 || len(as.Lhs) != 2 {
				return true
			}
			if len(calls(as.Rhs[0], "Pop")) == 1 {
				if id, ok := as.Lhs[0].(*ast.Ident); ok {
					epVar = id.Name
				}
			}
			if len(calls(as.Rhs[0], "newRequestForProxy")) == 1 {
				if id, ok := as.Lhs[1].(*ast.Ident); ok {
					cancelVar = id.Name
				}
			}
			return true
		})
		if epVar == "" || cancelVar == "" {
			lib.Fatalf("%s: ServeHTTP: endpoint := picker.Pop() / newReq, cancel := newRequestForProxy(...) not found", fDisp)
		}
		watches := false
		ast.Inspect(sh.Body, func(x ast.Node) bool {
			gs, ok := x.(*ast.GoStmt)
			if !ok {
				return true
			}
			ast.Inspect(gs, func(y ast.Node) bool {
				cc, ok := y.(*ast.CommClause)
				if !ok || cc.Comm == nil {
					return true
				}
				es, ok := cc.Comm.(*ast.ExprStmt)
				if !ok {
					return true
				}
				u, ok := es.X.(*ast.UnaryExpr)
				if !ok || u.Op != token.ARROW {
					return true
				}
				d, ok := u.X.(*ast.CallExpr) // X.Context().Done()
				if !ok {
					return true
				}
				ds, ok := d.Fun.(*ast.SelectorExpr)
				if !ok || ds.Sel.Name != "Done" || !ctxOf(ds.X, epVar) {
					return true
				}
				for _, st := range cc.Body {
					if len(calls(st, cancelVar)) > 0 {
						watches = true
					}
				}
				return true
			})
			return false
		})
		// the proxied request is built from the context newRequestForProxy derives
		nr := must(lib.FuncDecl(disp, "", "newRequestForProxy"), fDisp, "newRequestForProxy")
		if len(calls(nr.Body, "WithCancel")) != 1 || len(calls(nr.Body, "WithContext")) == 0 {
			lib.Fatalf("%s: newRequestForProxy does not derive a cancellable context for the proxied request", fDisp)
		}

		var sb strings.Builder
		sb.WriteString("namespace KG.Gen.C15\n")
		sb.WriteString("/-! shape facts of the removal path, read from the Go sources (tools/extract/c15) -/\n")
		w := func(name string, v bool, doc string) {
			fmt.Fprintf(&sb, "/-- %s -/\ndef %s : Bool := %s\n", doc, name, b(v))
		}
		w("deleteForServerNamesStops", deleteStops && withStopStops || !deleteStops && plainStops,
			fCtrl+": DeleteForServerNames removes the names with the manager's stopping delete (DeleteWithStop -> doDelete(name, true) -> cluster.Stop() -> c.cancel())")
		w("deleteLoopVisitsEveryName", deleteVisitsAll, fCtrl+": the loop of DeleteForServerNames skips a name that does not resolve to the cluster and goes on (no return / break in the loop body)")
		w("updateLoopsVisitEveryName", updateVisitsAll, fCtrl+": the loops of AddOrUpdateForServerNames visit every old / new name (no return / break in a loop body)")
		w("aliasDropStops", aliasStops && withStopStops || !aliasStops && plainStops,
			fCtrl+": AddOrUpdateForServerNames removes an old server name with a stopping delete")
		w("endpointCtxChildOfCluster", epChild, fCI+": addOrUpdateEndpoint derives the endpoint context from the cluster context")
		w("pickOneIsPlainPop", pickOnePlain, fCI+": PickOne (behind ClientFor: the TokenReview / SubjectAccessReview webhooks) returns nothing but the Pop() of a fresh strategy over AllEndpoints(): the pick set of the model's `pickable`, no remembered endpoint")
		w("removedEndpointLeavesMap", leavesMap, fCI+": syncEndpoints takes removed endpoints out of ClusterInfo.Endpoints (LoadAndDelete)")
		w("removedEndpointCancelled", cancelled, fCI+": syncEndpoints calls the removed endpoint's cancel function")
		w("healthCheckCtxChildOfEndpoint", hcChild, fEP+": EnsureGatewayHealthCheck derives the loops' context from its ctx argument and both goroutines return when it ends")
		w("hcCtxAtCreateIsEndpoint", hcAtCreate, fCI+": addOrUpdateEndpoint, new endpoint: EnsureGatewayHealthCheck is handed the endpoint's own context (info.ctx)")
		w("hcCtxAtUpdateIsEndpoint", hcAtUpdate, fCI+": addOrUpdateEndpoint, endpoint already known (disable / re-enable): EnsureGatewayHealthCheck is handed the endpoint's own context (info.ctx), so a restarted loop ends with the endpoint")
		w("dispatcherWatchesEndpoint", watches, fDisp+": a goroutine cancels the proxied request when the picked endpoint's context ends")
		sb.WriteString("end KG.Gen.C15\n")
		g.Emit("C15.lean", sb.String())
	})
}
