// Regenerates lean/KG/Gen/C15.lean: the shape facts of the removal path that the lifecycle model (KG.Model.Lifecycle)
// builds in and KG.Props.C15.c15_source_shape checks.
//
// The facts are SEMANTIC ("on the path from X the call Y happens", "the context created here derives from that one"),
// not spellings:
//   - a call is looked for in the function AND in the same-package helpers it calls (two levels deep), so a body moved
//     into a helper method is still found;
//   - fields are found by ROLE (the field of ClusterInfo / EndpointInfo whose type is context.Context / context.CancelFunc),
//     parameters by type, local variables by what they were assigned from — not by name;
//   - loops are range or index loops; the update / create call site of EnsureGatewayHealthCheck is told apart by its
//     position relative to the construction of the EndpointInfo, not by the name of a condition;
//   - HOW the manager keeps its table (sync.Map, mutex + map) is not a fact: name resolution after every operation is
//     compared with the model by the harness, which is the tie for it.
//
// A fact that can be read neither way is a failed regeneration (a broken tie, never a silent pass).
package main

import (
	"fmt"
	"go/ast"
	"go/token"
	"strings"

	"extract/lib"
)

type pkgIndex struct {
	funcs map[string][]*ast.FuncDecl // by name (functions and methods of every receiver)
	files map[string]*ast.File
}

func index(g *lib.Gen, rels ...string) *pkgIndex {
	p := &pkgIndex{funcs: map[string][]*ast.FuncDecl{}, files: map[string]*ast.File{}}
	for _, rel := range rels {
		f := g.ParseFile(rel)
		p.files[rel] = f
		for _, d := range f.Decls {
			if fd, ok := d.(*ast.FuncDecl); ok && fd.Body != nil {
				p.funcs[fd.Name.Name] = append(p.funcs[fd.Name.Name], fd)
			}
		}
	}
	return p
}

func calleeName(c *ast.CallExpr) string {
	switch f := c.Fun.(type) {
	case *ast.SelectorExpr:
		return f.Sel.Name
	case *ast.Ident:
		return f.Name
	}
	return ""
}

// shallow: every call expression below n with that callee name.
func calls(n ast.Node, name string) []*ast.CallExpr {
	var out []*ast.CallExpr
	if n == nil {
		return out
	}
	ast.Inspect(n, func(x ast.Node) bool {
		if c, ok := x.(*ast.CallExpr); ok && calleeName(c) == name {
			out = append(out, c)
		}
		return true
	})
	return out
}

// reach: the node itself plus the bodies of the same-package functions it calls, `depth` levels deep.
func (p *pkgIndex) reach(n ast.Node, depth int) []ast.Node {
	out := []ast.Node{n}
	seen := map[*ast.FuncDecl]bool{}
	frontier := []ast.Node{n}
	for d := 0; d < depth; d++ {
		var next []ast.Node
		for _, m := range frontier {
			ast.Inspect(m, func(x ast.Node) bool {
				if c, ok := x.(*ast.CallExpr); ok {
					for _, fd := range p.funcs[calleeName(c)] {
						if !seen[fd] {
							seen[fd] = true
							out = append(out, fd.Body)
							next = append(next, fd.Body)
						}
					}
				}
				return true
			})
		}
		frontier = next
	}
	return out
}

func (p *pkgIndex) deepCalls(n ast.Node, name string) []*ast.CallExpr {
	var out []*ast.CallExpr
	for _, m := range p.reach(n, 2) {
		out = append(out, calls(m, name)...)
	}
	return out
}

func (p *pkgIndex) method(recv, name, where string) *ast.FuncDecl {
	for _, fd := range p.funcs[name] {
		r := ""
		if fd.Recv != nil && len(fd.Recv.List) == 1 {
			t := fd.Recv.List[0].Type
			if s, ok := t.(*ast.StarExpr); ok {
				t = s.X
			}
			if id, ok := t.(*ast.Ident); ok {
				r = id.Name
			}
		}
		if r == recv {
			return fd
		}
	}
	lib.Fatalf("%s: function %s not found", where, name)
	return nil
}

// fieldsOfType: names of the fields of struct `typ` whose type is pkg.sel (e.g. context.CancelFunc).
func (p *pkgIndex) fieldsOfType(typ, pkg, sel string) map[string]bool {
	out := map[string]bool{}
	for _, f := range p.files {
		ast.Inspect(f, func(x ast.Node) bool {
			ts, ok := x.(*ast.TypeSpec)
			if !ok || ts.Name.Name != typ {
				return true
			}
			st, ok := ts.Type.(*ast.StructType)
			if !ok {
				return false
			}
			for _, fl := range st.Fields.List {
				if se, ok := fl.Type.(*ast.SelectorExpr); ok && se.Sel.Name == sel {
					if id, ok := se.X.(*ast.Ident); ok && id.Name == pkg {
						for _, n := range fl.Names {
							out[n.Name] = true
						}
					}
				}
			}
			return false
		})
	}
	return out
}

func isPkgCall(e ast.Expr, pkg, name string) bool {
	c, ok := e.(*ast.CallExpr)
	if !ok {
		return false
	}
	s, ok := c.Fun.(*ast.SelectorExpr)
	if !ok || s.Sel.Name != name {
		return false
	}
	id, ok := s.X.(*ast.Ident)
	return ok && id.Name == pkg
}

func detached(e ast.Expr) bool {
	return isPkgCall(e, "context", "Background") || isPkgCall(e, "context", "TODO")
}

// ctxOf: e reads the context of the object held in variable `obj` ("" = any variable): obj.Context() or obj.<a field of
// type context.Context>. Returns the variable's name.
func ctxOf(e ast.Expr, ctxFields map[string]bool) (string, bool) {
	if c, ok := e.(*ast.CallExpr); ok && len(c.Args) == 0 {
		if s, ok := c.Fun.(*ast.SelectorExpr); ok && s.Sel.Name == "Context" {
			if id, ok := s.X.(*ast.Ident); ok {
				return id.Name, true
			}
		}
	}
	if s, ok := e.(*ast.SelectorExpr); ok && ctxFields[s.Sel.Name] {
		if id, ok := s.X.(*ast.Ident); ok {
			return id.Name, true
		}
	}
	return "", false
}

func recvName(fd *ast.FuncDecl) string {
	if fd.Recv != nil && len(fd.Recv.List) == 1 && len(fd.Recv.List[0].Names) == 1 {
		return fd.Recv.List[0].Names[0].Name
	}
	return ""
}

func paramOfType(fd *ast.FuncDecl, pkg, sel string) string {
	for _, p := range fd.Type.Params.List {
		if len(p.Names) != 1 {
			continue
		}
		if pkg == "" {
			if id, ok := p.Type.(*ast.Ident); ok && id.Name == sel {
				return p.Names[0].Name
			}
			continue
		}
		if s, ok := p.Type.(*ast.SelectorExpr); ok && s.Sel.Name == sel {
			if id, ok := s.X.(*ast.Ident); ok && id.Name == pkg {
				return p.Names[0].Name
			}
		}
	}
	return ""
}

func b(v bool) string {
	if v {
		return "true"
	}
	return "false"
}

// leavesEarly: a loop body that can end the loop (return / break / goto outside a nested function or switch-less break).
func leavesEarly(body *ast.BlockStmt) bool {
	early := false
	ast.Inspect(body, func(y ast.Node) bool {
		switch t := y.(type) {
		case *ast.FuncLit:
			return false
		case *ast.ReturnStmt:
			early = true
		case *ast.BranchStmt:
			if t.Tok == token.BREAK || t.Tok == token.GOTO {
				early = true
			}
		}
		return true
	})
	return early
}

func main() {
	lib.Main(func(g *lib.Gen) {
		const (
			fCtrl = "pkg/gateway/controllers/upstream_controller.go"
			fMgr  = "pkg/clusters/manager.go"
			fCI   = "pkg/clusters/clusterinfo.go"
			fEP   = "pkg/clusters/endpoint.go"
			fCP   = "pkg/clusters/clientprovider.go"
			fDisp = "pkg/gateway/proxy/dispatcher/dispatcher.go"
		)
		ctrl := index(g, fCtrl)
		cl := index(g, fMgr, fCI, fEP, fCP, "pkg/clusters/util.go")
		disp := index(g, fDisp)

		ciCtx := cl.fieldsOfType("ClusterInfo", "context", "Context")
		ciCancel := cl.fieldsOfType("ClusterInfo", "context", "CancelFunc")
		epCtx := cl.fieldsOfType("EndpointInfo", "context", "Context")
		epCancel := cl.fieldsOfType("EndpointInfo", "context", "CancelFunc")
		if len(ciCancel) == 0 || len(epCancel) == 0 || len(ciCtx) == 0 || len(epCtx) == 0 {
			lib.Fatalf("%s / %s: ClusterInfo and EndpointInfo no longer carry a context.Context and a context.CancelFunc", fCI, fEP)
		}
		anyCtx := map[string]bool{}
		for k := range ciCtx {
			anyCtx[k] = true
		}
		for k := range epCtx {
			anyCtx[k] = true
		}
		// a call of a cancel-function FIELD: x.<field>() (not a local variable that happens to have the same name)
		callsField := func(p *pkgIndex, n ast.Node, names map[string]bool) bool {
			for k := range names {
				for _, c := range p.deepCalls(n, k) {
					if _, ok := c.Fun.(*ast.SelectorExpr); ok {
						return true
					}
				}
			}
			return false
		}

		// 1/2. which of the manager's delete variants the two controller paths use (in the function or its helpers)
		variant := func(fn string) bool {
			fd := ctrl.method("UpstreamClusterController", fn, fCtrl)
			ws, wo := ctrl.deepCalls(fd.Body, "DeleteWithStop"), ctrl.deepCalls(fd.Body, "Delete")
			switch {
			case len(ws) > 0 && len(wo) == 0:
				return true
			case len(ws) == 0 && len(wo) > 0:
				return false
			}
			lib.Fatalf("%s: %s calls neither exactly Delete nor exactly DeleteWithStop (%d/%d)", fCtrl, fn, len(wo), len(ws))
			return false
		}
		deleteStops := variant("DeleteForServerNames")
		aliasStops := variant("AddOrUpdateForServerNames")

		// the loops over the server names visit EVERY name (range or index loops; a stale name is skipped, not the end)
		visitsAll := func(fn string) bool {
			fd := ctrl.method("UpstreamClusterController", fn, fCtrl)
			loops, all := 0, true
			// the loops that change the manager's table (in the function or a helper it calls): the ones from whose body
			// a Delete / DeleteWithStop / AddWithKey is reached
			mutating := func(body *ast.BlockStmt) bool {
				for _, name := range []string{"Delete", "DeleteWithStop", "AddWithKey"} {
					if len(ctrl.deepCalls(body, name)) > 0 {
						return true
					}
				}
				return false
			}
			for _, n := range ctrl.reach(fd.Body, 1) {
				ast.Inspect(n, func(x ast.Node) bool {
					var body *ast.BlockStmt
					switch t := x.(type) {
					case *ast.RangeStmt:
						body = t.Body
					case *ast.ForStmt:
						body = t.Body
					}
					if body != nil && mutating(body) {
						loops++
						all = all && !leavesEarly(body)
					}
					return true
				})
			}
			if loops == 0 {
				lib.Fatalf("%s: %s has no loop over the server names", fCtrl, fn)
			}
			return all
		}
		deleteVisitsAll := visitsAll("DeleteForServerNames")
		updateVisitsAll := visitsAll("AddOrUpdateForServerNames")

		// 3. manager: DeleteWithStop stops the cluster, Delete does not. Both hand a literal flag to a common helper whose
		// bool parameter guards the call of ClusterInfo.Stop; Stop calls the cluster's cancel function.
		// (How the key is removed from the table is not a fact here: the harness compares name resolution.)
		stopFn := cl.method("ClusterInfo", "Stop", fCI)
		stopCancels := callsField(cl, stopFn.Body, ciCancel)
		stopsCluster := func(fn string) bool {
			fd := cl.method("manager", fn, fMgr)
			if len(cl.deepCalls(fd.Body, "Stop")) == 0 {
				return false // no path to Stop at all
			}
			// the literal flag and the helper it goes to
			var res *bool
			ast.Inspect(fd.Body, func(x ast.Node) bool {
				c, ok := x.(*ast.CallExpr)
				if !ok {
					return true
				}
				for i, a := range c.Args {
					id, ok := a.(*ast.Ident)
					if !ok || (id.Name != "true" && id.Name != "false") {
						continue
					}
					for _, h := range cl.funcs[calleeName(c)] {
						if h.Type.Params == nil {
							continue
						}
						// the i-th parameter
						k, pname := 0, ""
						for _, pl := range h.Type.Params.List {
							for _, n := range pl.Names {
								if k == i {
									pname = n.Name
								}
								k++
							}
						}
						if pname == "" {
							continue
						}
						guarded := false
						ast.Inspect(h.Body, func(y ast.Node) bool {
							if is, ok := y.(*ast.IfStmt); ok {
								if cid, ok := is.Cond.(*ast.Ident); ok && cid.Name == pname && len(cl.deepCalls(is.Body, "Stop")) > 0 {
									guarded = true
								}
							}
							return true
						})
						if guarded {
							v := id.Name == "true"
							res = &v
						}
					}
				}
				return true
			})
			if res == nil {
				// Stop is reached without a literal flag: it is called unconditionally on this path
				direct := len(calls(fd.Body, "Stop")) > 0
				if !direct {
					lib.Fatalf("%s: %s reaches ClusterInfo.Stop in a way this extractor cannot decide", fMgr, fn)
				}
				return true
			}
			return *res
		}
		withStopStops := stopsCluster("DeleteWithStop") && stopCancels
		plainStops := stopsCluster("Delete") && stopCancels

		// 4. the endpoint's context is a child of the cluster's
		aou := cl.method("ClusterInfo", "addOrUpdateEndpoint", fCI)
		wcs := cl.deepCalls(aou.Body, "WithCancel")
		var epChild, epChildKnown bool
		for _, wc := range wcs {
			if len(wc.Args) != 1 {
				continue
			}
			if v, ok := ctxOf(wc.Args[0], ciCtx); ok && v == recvName(aou) {
				epChild, epChildKnown = true, true
			} else if detached(wc.Args[0]) && !epChildKnown {
				epChild, epChildKnown = false, true
			}
		}
		// (EnsureGatewayHealthCheck is reached from addOrUpdateEndpoint too: its WithCancel(ctx param) is neither form)
		if !epChildKnown {
			lib.Fatalf("%s: addOrUpdateEndpoint: parent of the endpoint context not recognised", fCI)
		}

		// 4b. PickOne (the pick behind ClientFor: TokenReview / SubjectAccessReview webhooks) hands out nothing but what
		// Pop() over AllEndpoints() returns: every return value is the Pop call, a variable assigned from it, or nil
		po := cl.method("ClusterInfo", "PickOne", fCI)
		fromPop := map[string]bool{}
		ast.Inspect(po.Body, func(x ast.Node) bool {
			if as, ok := x.(*ast.AssignStmt); ok && len(as.Rhs) == 1 && len(calls(as.Rhs[0], "Pop")) == 1 {
				if _, isCall := as.Rhs[0].(*ast.CallExpr); isCall {
					for _, l := range as.Lhs {
						if id, ok := l.(*ast.Ident); ok {
							fromPop[id.Name] = true
						}
					}
				}
			}
			return true
		})
		pickOnePlain := len(cl.deepCalls(po.Body, "Pop")) >= 1 && len(cl.deepCalls(po.Body, "AllEndpoints")) >= 1
		ast.Inspect(po.Body, func(x ast.Node) bool {
			if _, ok := x.(*ast.FuncLit); ok {
				return false
			}
			rs, ok := x.(*ast.ReturnStmt)
			if !ok || len(rs.Results) == 0 {
				return true
			}
			first := rs.Results[0]
			switch t := first.(type) {
			case *ast.CallExpr:
				if calleeName(t) != "Pop" {
					pickOnePlain = false
				}
			case *ast.Ident:
				if t.Name != "nil" && !fromPop[t.Name] {
					pickOnePlain = false
				}
			default:
				pickOnePlain = false
			}
			return true
		})
		cf := cl.method("manager", "ClientFor", fCP)
		pickOnePlain = pickOnePlain && len(cl.deepCalls(cf.Body, "PickOne")) >= 1

		// 5/6. syncEndpoints (or the helpers it calls): removed endpoints leave the map and are cancelled
		se := cl.method("ClusterInfo", "syncEndpoints", fCI)
		// the endpoint table is the field of ClusterInfo of type *EndpointInfoMap; the endpoint's own cancel function is
		// the field the EndpointInfo literal fills with the cancel function of the context it creates
		epMapFields := map[string]bool{}
		for _, f := range cl.files {
			ast.Inspect(f, func(x ast.Node) bool {
				ts, ok := x.(*ast.TypeSpec)
				if !ok || ts.Name.Name != "ClusterInfo" {
					return true
				}
				if st, ok := ts.Type.(*ast.StructType); ok {
					for _, fl := range st.Fields.List {
						if se, ok := fl.Type.(*ast.StarExpr); ok {
							if id, ok := se.X.(*ast.Ident); ok && id.Name == "EndpointInfoMap" {
								for _, n := range fl.Names {
									epMapFields[n.Name] = true
								}
							}
						}
					}
				}
				return false
			})
		}
		onEndpointMap := func(c *ast.CallExpr) bool {
			f, ok := c.Fun.(*ast.SelectorExpr)
			if !ok {
				return false
			}
			x, ok := f.X.(*ast.SelectorExpr)
			return ok && epMapFields[x.Sel.Name]
		}
		leavesMap := false
		for _, name := range []string{"LoadAndDelete", "Delete"} {
			for _, c := range cl.deepCalls(se.Body, name) {
				leavesMap = leavesMap || onEndpointMap(c)
			}
		}
		ownCancel := map[string]bool{}
		cancelLocal := map[string]bool{}
		ast.Inspect(aou.Body, func(x ast.Node) bool {
			if as, ok := x.(*ast.AssignStmt); ok && len(as.Rhs) == 1 && len(as.Lhs) == 2 {
				if rc, ok := as.Rhs[0].(*ast.CallExpr); ok && calleeName(rc) == "WithCancel" {
					if id, ok := as.Lhs[1].(*ast.Ident); ok {
						cancelLocal[id.Name] = true
					}
				}
			}
			return true
		})
		ast.Inspect(aou.Body, func(x ast.Node) bool {
			if kv, ok := x.(*ast.KeyValueExpr); ok {
				if v, ok := kv.Value.(*ast.Ident); ok && cancelLocal[v.Name] {
					if k, ok := kv.Key.(*ast.Ident); ok && epCancel[k.Name] {
						ownCancel[k.Name] = true
					}
				}
			}
			return true
		})
		if len(ownCancel) == 0 {
			lib.Fatalf("%s: addOrUpdateEndpoint: the EndpointInfo is not given the cancel function of the context created for it", fCI)
		}
		cancelled := callsField(cl, se.Body, ownCancel)
		if len(cl.deepCalls(se.Body, "Diff")) == 0 && !leavesMap {
			lib.Fatalf("%s: syncEndpoints: no removal of endpoints recognised at all", fCI)
		}

		// 7. health-check loops: child of the context handed to EnsureGatewayHealthCheck, both goroutines leave when it
		// ends; and which context each call site hands over
		ens := cl.method("", "EnsureGatewayHealthCheck", fEP)
		ctxParam := paramOfType(ens, "context", "Context")
		hw := cl.deepCalls(ens.Body, "WithCancel")
		if ctxParam == "" || len(hw) == 0 {
			lib.Fatalf("%s: EnsureGatewayHealthCheck(ctx) does not derive a context", fEP)
		}
		hcChild := true
		for _, c := range hw {
			if len(c.Args) != 1 {
				hcChild = false
				continue
			}
			if id, ok := c.Args[0].(*ast.Ident); !ok || id.Name != ctxParam {
				hcChild = false
			}
		}
		loops, watching := 0, 0
		for _, n := range cl.reach(ens.Body, 2) {
			ast.Inspect(n, func(x ast.Node) bool {
				gs, ok := x.(*ast.GoStmt)
				if !ok {
					return true
				}
				loops++
				w := false
				ast.Inspect(gs, func(y ast.Node) bool {
					if cc, ok := y.(*ast.CommClause); ok && cc.Comm != nil {
						if es, ok := cc.Comm.(*ast.ExprStmt); ok {
							if u, ok := es.X.(*ast.UnaryExpr); ok && u.Op == token.ARROW && len(calls(u.X, "Done")) > 0 {
								for _, st := range cc.Body {
									if _, ok := st.(*ast.ReturnStmt); ok {
										w = true
									}
								}
							}
						}
					}
					return true
				})
				if w {
					watching++
				}
				return false
			})
		}
		if loops == 0 {
			lib.Fatalf("%s: the health check starts no goroutine", fEP)
		}
		hcChild = hcChild && watching == loops

		// call sites in addOrUpdateEndpoint: the ones lexically before the construction of the EndpointInfo are the update
		// path (endpoint already known), the ones after it the create path
		var litPos token.Pos
		ast.Inspect(aou.Body, func(x ast.Node) bool {
			if cl2, ok := x.(*ast.CompositeLit); ok {
				if id, ok := cl2.Type.(*ast.Ident); ok && id.Name == "EndpointInfo" && litPos == 0 {
					litPos = cl2.Pos()
				}
			}
			return true
		})
		if litPos == 0 {
			lib.Fatalf("%s: addOrUpdateEndpoint no longer constructs the EndpointInfo itself", fCI)
		}
		siteCtx := func(c *ast.CallExpr, where string) bool {
			if len(c.Args) != 3 {
				lib.Fatalf("%s: addOrUpdateEndpoint (%s path): EnsureGatewayHealthCheck is not called with (e, interval, ctx)", fCI, where)
			}
			epArg, ok := c.Args[0].(*ast.Ident)
			if !ok {
				lib.Fatalf("%s: addOrUpdateEndpoint (%s path): first argument of EnsureGatewayHealthCheck is not a variable", fCI, where)
			}
			if v, ok := ctxOf(c.Args[2], epCtx); ok {
				return v == epArg.Name && v != recvName(aou) // the endpoint's own context
			}
			if _, ok := ctxOf(c.Args[2], anyCtx); ok || detached(c.Args[2]) {
				return false
			}
			lib.Fatalf("%s: addOrUpdateEndpoint (%s path): context handed to EnsureGatewayHealthCheck not recognised", fCI, where)
			return false
		}
		var nUpd, nNew int
		hcAtUpdate, hcAtCreate := true, true
		for _, c := range calls(aou.Body, "EnsureGatewayHealthCheck") {
			if c.Pos() < litPos {
				nUpd++
				hcAtUpdate = hcAtUpdate && siteCtx(c, "update")
			} else {
				nNew++
				hcAtCreate = hcAtCreate && siteCtx(c, "create")
			}
		}
		if nUpd == 0 || nNew == 0 {
			lib.Fatalf("%s: addOrUpdateEndpoint: expected a call of EnsureGatewayHealthCheck on the update path and one on the create path (%d/%d)", fCI, nUpd, nNew)
		}
		for _, fds := range cl.funcs {
			for _, fd := range fds {
				if fd == aou {
					continue
				}
				for _, c := range calls(fd.Body, "EnsureGatewayHealthCheck") {
					if len(c.Args) != 3 {
						lib.Fatalf("%s: unexpected call shape of EnsureGatewayHealthCheck in %s", fCI, fd.Name.Name)
					}
					epArg, ok := c.Args[0].(*ast.Ident)
					v, isCtx := ctxOf(c.Args[2], epCtx)
					if !ok || !isCtx || v != epArg.Name {
						hcAtUpdate = false
					}
				}
			}
		}

		// 8. dispatcher: a goroutine cancels the proxied request when the picked endpoint's context ends. The endpoint is
		// the variable assigned from Pop(); the cancel function is a variable assigned from a call that (itself or in a
		// same-package helper) derives a context with WithCancel.
		sh := disp.method("dispatcher", "ServeHTTP", fDisp)
		var epVar string
		cancelVars := map[string]bool{}
		ast.Inspect(sh.Body, func(x ast.Node) bool {
			as, ok := x.(*ast.AssignStmt)
			if !ok || len(as.Rhs) != 1 {
				return true
			}
			rc, ok := as.Rhs[0].(*ast.CallExpr)
			if !ok {
				return true
			}
			if calleeName(rc) == "Pop" && len(as.Lhs) >= 1 {
				if id, ok := as.Lhs[0].(*ast.Ident); ok {
					epVar = id.Name
				}
			}
			derives := calleeName(rc) == "WithCancel"
			for _, h := range disp.funcs[calleeName(rc)] {
				if len(disp.deepCalls(h.Body, "WithCancel")) > 0 {
					derives = true
				}
			}
			if derives && len(as.Lhs) == 2 {
				if id, ok := as.Lhs[1].(*ast.Ident); ok {
					cancelVars[id.Name] = true
				}
			}
			return true
		})
		if epVar == "" || len(cancelVars) == 0 {
			lib.Fatalf("%s: ServeHTTP: endpoint := picker.Pop() / a cancellable context for the proxied request not found", fDisp)
		}
		watches := false
		ast.Inspect(sh.Body, func(x ast.Node) bool {
			gs, ok := x.(*ast.GoStmt)
			if !ok {
				return true
			}
			ast.Inspect(gs, func(y ast.Node) bool {
				cc, ok := y.(*ast.CommClause)
				if !ok || cc.Comm == nil {
					return true
				}
				es, ok := cc.Comm.(*ast.ExprStmt)
				if !ok {
					return true
				}
				u, ok := es.X.(*ast.UnaryExpr)
				if !ok || u.Op != token.ARROW {
					return true
				}
				d, ok := u.X.(*ast.CallExpr) // X.Context().Done()
				if !ok || calleeName(d) != "Done" {
					return true
				}
				ds, ok := d.Fun.(*ast.SelectorExpr)
				if !ok {
					return true
				}
				if v, ok := ctxOf(ds.X, epCtx); !ok || v != epVar {
					return true
				}
				for _, st := range cc.Body {
					for cv := range cancelVars {
						if len(calls(st, cv)) > 0 {
							watches = true
						}
					}
				}
				return true
			})
			return false
		})

		var sb strings.Builder
		sb.WriteString("namespace KG.Gen.C15\n")
		sb.WriteString("/-! shape facts of the removal path, read from the Go sources (tools/extract/c15) -/\n")
		w := func(name string, v bool, doc string) {
			fmt.Fprintf(&sb, "/-- %s -/\ndef %s : Bool := %s\n", doc, name, b(v))
		}
		w("deleteForServerNamesStops", deleteStops && withStopStops || !deleteStops && plainStops,
			fCtrl+": DeleteForServerNames removes the names with the manager's stopping delete (DeleteWithStop -> doDelete(name, true) -> cluster.Stop() -> c.cancel())")
		w("deleteLoopVisitsEveryName", deleteVisitsAll, fCtrl+": the loop of DeleteForServerNames skips a name that does not resolve to the cluster and goes on (no return / break in the loop body)")
		w("updateLoopsVisitEveryName", updateVisitsAll, fCtrl+": the loops of AddOrUpdateForServerNames visit every old / new name (no return / break in a loop body)")
		w("aliasDropStops", aliasStops && withStopStops || !aliasStops && plainStops,
			fCtrl+": AddOrUpdateForServerNames removes an old server name with a stopping delete")
		w("endpointCtxChildOfCluster", epChild, fCI+": addOrUpdateEndpoint derives the endpoint context from the cluster context")
		w("pickOneIsPlainPop", pickOnePlain, fCI+": PickOne (behind ClientFor: the TokenReview / SubjectAccessReview webhooks) returns nothing but the Pop() of a fresh strategy over AllEndpoints(): the pick set of the model's `pickable`, no remembered endpoint")
		w("removedEndpointLeavesMap", leavesMap, fCI+": syncEndpoints takes removed endpoints out of ClusterInfo.Endpoints (LoadAndDelete)")
		w("removedEndpointCancelled", cancelled, fCI+": syncEndpoints calls the removed endpoint's cancel function")
		w("healthCheckCtxChildOfEndpoint", hcChild, fEP+": EnsureGatewayHealthCheck derives the loops' context from its ctx argument and both goroutines return when it ends")
		w("hcCtxAtCreateIsEndpoint", hcAtCreate, fCI+": addOrUpdateEndpoint, new endpoint: EnsureGatewayHealthCheck is handed the endpoint's own context (info.ctx)")
		w("hcCtxAtUpdateIsEndpoint", hcAtUpdate, fCI+": addOrUpdateEndpoint, endpoint already known (disable / re-enable): EnsureGatewayHealthCheck is handed the endpoint's own context (info.ctx), so a restarted loop ends with the endpoint")
		w("dispatcherWatchesEndpoint", watches, fDisp+": a goroutine cancels the proxied request when the picked endpoint's context ends")
		sb.WriteString("end KG.Gen.C15\n")
		g.Emit("C15.lean", sb.String())
	})
}
