// Regenerates lean/KG/Gen/C10.lean: facts of the current sources that the C10 model relies on IMPLICITLY.
//   - pkg/gateway/controllers/upstream_controller.go: UpstreamClusterController.Run starts the queue with a
//     literal number of workers (`m.queue.Run(1)`). The model's histories are SEQUENCES of handler invocations;
//     that is only what the code does when exactly one worker runs the handler.
//   - pkg/syncqueue/queue.go: SyncQueue.Run(workers) starts exactly `workers` workers (the loop header).
//   - pkg/gateway/proxy/options/authentication.go: ToAuthenticationConfig installs the SNI verify-options provider
//     in a top-level `if sniVerifyOptionsProvider != nil` block of its own (not only when the control plane has a
//     client CA).
// The extractor FAILS when one of these places no longer has the shape it reads.
package main

import (
	"bytes"
	"fmt"
	"go/ast"
	"go/printer"
	"go/token"
	"strconv"
	"strings"

	"extract/lib"
)

func render(g *lib.Gen, n ast.Node) string {
	var b bytes.Buffer
	printer.Fprint(&b, g.Fset(), n) //nolint
	return b.String()
}

func leanBytes(s string) string {
	parts := make([]string, len(s))
	for i := 0; i < len(s); i++ {
		parts[i] = strconv.Itoa(int(s[i]))
	}
	return "[" + strings.Join(parts, ", ") + "]"
}

func main() {
	lib.Main(func(g *lib.Gen) {
		var b strings.Builder
		b.WriteString("namespace KG.Gen.C10\n")

		// ---- the controller's worker count
		const cfile = "pkg/gateway/controllers/upstream_controller.go"
		cf := g.ParseFile(cfile)
		run := lib.FuncDecl(cf, "UpstreamClusterController", "Run")
		if run == nil {
			lib.Fatalf("%s: UpstreamClusterController.Run not found", cfile)
		}
		workers := -1
		calls := 0
		ast.Inspect(run.Body, func(n ast.Node) bool {
			ce, ok := n.(*ast.CallExpr)
			if !ok {
				return true
			}
			if render(g, ce.Fun) == "m.queue.Run" {
				calls++
				if len(ce.Args) == 1 {
					if bl, ok := ce.Args[0].(*ast.BasicLit); ok && bl.Kind == token.INT {
						workers, _ = strconv.Atoi(bl.Value)
					}
				}
			}
			return true
		})
		if calls != 1 || workers < 0 {
			lib.Fatalf("%s: expected exactly one m.queue.Run(<integer literal>) in UpstreamClusterController.Run", cfile)
		}
		fmt.Fprintf(&b, "/-- `m.queue.Run(%d)` in UpstreamClusterController.Run -/\ndef controllerWorkers : Nat := %d\n", workers, workers)

		// ---- SyncQueue.Run starts exactly `workers` workers
		const qfile = "pkg/syncqueue/queue.go"
		qf := g.ParseFile(qfile)
		qrun := lib.FuncDecl(qf, "SyncQueue", "Run")
		if qrun == nil || len(qrun.Type.Params.List) != 1 || len(qrun.Type.Params.List[0].Names) != 1 {
			lib.Fatalf("%s: SyncQueue.Run(<one parameter>) not found", qfile)
		}
		param := qrun.Type.Params.List[0].Names[0].Name
		if len(qrun.Body.List) != 1 {
			lib.Fatalf("%s: SyncQueue.Run is expected to consist of one for loop, it has %d statements", qfile, len(qrun.Body.List))
		}
		fs, ok := qrun.Body.List[0].(*ast.ForStmt)
		if !ok || fs.Init == nil || fs.Cond == nil || fs.Post == nil || len(fs.Body.List) != 1 {
			lib.Fatalf("%s: SyncQueue.Run is expected to be `for i := 0; i < %s; i++ { go ... }`", qfile, param)
		}
		gs, ok := fs.Body.List[0].(*ast.GoStmt)
		if !ok || !strings.Contains(render(g, gs.Call), "sq.worker") {
			lib.Fatalf("%s: the loop of SyncQueue.Run is expected to start one worker goroutine per iteration", qfile)
		}
		header := "for " + render(g, fs.Init) + "; " + render(g, fs.Cond) + "; " + render(g, fs.Post)
		header = strings.ReplaceAll(header, param, "workers")
		fmt.Fprintf(&b, "/-- the loop header of SyncQueue.Run (parameter renamed to `workers`): %q -/\ndef queueRunLoop : List UInt8 := %s\n", header, leanBytes(header))

		// ---- the SNI verify-options provider is installed by a block of its own
		const afile = "pkg/gateway/proxy/options/authentication.go"
		af := g.ParseFile(afile)
		tac := lib.FuncDecl(af, "AuthenticationOptions", "ToAuthenticationConfig")
		if tac == nil {
			lib.Fatalf("%s: AuthenticationOptions.ToAuthenticationConfig not found", afile)
		}
		own := false
		assigned := 0
		ast.Inspect(tac.Body, func(n ast.Node) bool {
			if kv, ok := n.(*ast.KeyValueExpr); ok && render(g, kv.Key) == "SNIVerifyOptionsPorvider" {
				assigned++
			}
			if as, ok := n.(*ast.AssignStmt); ok && len(as.Lhs) == 1 && strings.HasSuffix(render(g, as.Lhs[0]), ".SNIVerifyOptionsPorvider") {
				assigned++
			}
			return true
		})
		for _, st := range tac.Body.List {
			is, ok := st.(*ast.IfStmt)
			if !ok || is.Init != nil || render(g, is.Cond) != "sniVerifyOptionsProvider != nil" {
				continue
			}
			body := render(g, is.Body)
			if strings.Contains(body, "cfg.ClientCert == nil") && strings.Contains(body, "cfg.ClientCert.SNIVerifyOptionsPorvider = sniVerifyOptionsProvider") {
				own = true
			}
		}
		if assigned == 0 {
			lib.Fatalf("%s: ToAuthenticationConfig no longer sets SNIVerifyOptionsPorvider anywhere", afile)
		}
		fmt.Fprintf(&b, "/-- ToAuthenticationConfig has a top-level `if sniVerifyOptionsProvider != nil` block that creates cfg.ClientCert when needed and installs the provider -/\ndef sniProviderBlockOfItsOwn : Bool := %v\n", own)
		b.WriteString("end KG.Gen.C10\n")
		g.Emit("C10.lean", b.String())
	})
}
