// Regenerates lean/KG/Gen/C10.lean: facts of the current sources that the C10 model relies on IMPLICITLY.
// Both facts are SEMANTIC and three-valued: `none` means "the extractor does not understand this code" — then the
// behavioural streams of the harness are the tie (race cases count the handler invocations in flight at once and
// judge the invariants; auth cases run the shipped wiring with and without --client-ca-file). The theorem
// `c10_wiring_facts` only breaks when the extractor UNDERSTANDS the code and it says something else.
//
//   - workersStarted: how many worker goroutines the controller starts: the integer literal (or file-level constant)
//     the controller's Run passes to its queue's Run, pushed through SyncQueue.Run by a small concrete interpreter
//     (clamping ifs on the parameter, one counting loop of any of the usual forms with one `go` per iteration,
//     or `for range make([]T, n)`). The model's histories are SEQUENCES of handler invocations; that is the
//     code's behaviour only when this is 1.
//   - sniProviderWithoutControlPlaneCA: whether ToAuthenticationConfig installs the SNI verify-options provider
//     somewhere that is not conditional on the control plane's client-cert configuration.
package main

import (
	"bytes"
	"fmt"
	"go/ast"
	"go/printer"
	"go/token"
	"strconv"
	"strings"

	"extract/lib"
)

func render(g *lib.Gen, n ast.Node) string {
	if n == nil {
		return ""
	}
	var b bytes.Buffer
	printer.Fprint(&b, g.Fset(), n) //nolint
	return b.String()
}

// method finds a method by name whatever its receiver is called.
func method(f *ast.File, recvType, name string) *ast.FuncDecl {
	for _, d := range f.Decls {
		fd, ok := d.(*ast.FuncDecl)
		if !ok || fd.Recv == nil || fd.Name.Name != name || len(fd.Recv.List) != 1 {
			continue
		}
		t := fd.Recv.List[0].Type
		if st, ok := t.(*ast.StarExpr); ok {
			t = st.X
		}
		if id, ok := t.(*ast.Ident); ok && id.Name == recvType {
			return fd
		}
	}
	return nil
}

// ---- a concrete interpreter for "start one goroutine per iteration" functions

type env map[string]int

func (e env) eval(x ast.Expr) (int, bool) {
	switch v := x.(type) {
	case *ast.BasicLit:
		if v.Kind == token.INT {
			n, err := strconv.Atoi(v.Value)
			return n, err == nil
		}
	case *ast.Ident:
		n, ok := e[v.Name]
		return n, ok
	case *ast.ParenExpr:
		return e.eval(v.X)
	case *ast.BinaryExpr:
		a, ok1 := e.eval(v.X)
		b, ok2 := e.eval(v.Y)
		if !ok1 || !ok2 {
			return 0, false
		}
		switch v.Op {
		case token.ADD:
			return a + b, true
		case token.SUB:
			return a - b, true
		}
	}
	return 0, false
}

func (e env) cond(x ast.Expr) (bool, bool) {
	be, ok := x.(*ast.BinaryExpr)
	if !ok {
		if p, ok := x.(*ast.ParenExpr); ok {
			return e.cond(p.X)
		}
		return false, false
	}
	a, ok1 := e.eval(be.X)
	b, ok2 := e.eval(be.Y)
	if !ok1 || !ok2 {
		return false, false
	}
	switch be.Op {
	case token.LSS:
		return a < b, true
	case token.LEQ:
		return a <= b, true
	case token.GTR:
		return a > b, true
	case token.GEQ:
		return a >= b, true
	case token.EQL:
		return a == b, true
	case token.NEQ:
		return a != b, true
	}
	return false, false
}

// simple executes assignments / inc-dec on integers.
func (e env) simple(s ast.Stmt) bool {
	switch v := s.(type) {
	case nil:
		return true
	case *ast.IncDecStmt:
		id, ok := v.X.(*ast.Ident)
		if !ok {
			return false
		}
		if _, ok := e[id.Name]; !ok {
			return false
		}
		if v.Tok == token.INC {
			e[id.Name]++
		} else {
			e[id.Name]--
		}
		return true
	case *ast.AssignStmt:
		if len(v.Lhs) != 1 || len(v.Rhs) != 1 {
			return false
		}
		id, ok := v.Lhs[0].(*ast.Ident)
		if !ok {
			return false
		}
		val, ok := e.eval(v.Rhs[0])
		if !ok {
			return false
		}
		switch v.Tok {
		case token.ASSIGN, token.DEFINE:
			e[id.Name] = val
		case token.ADD_ASSIGN:
			e[id.Name] += val
		case token.SUB_ASSIGN:
			e[id.Name] -= val
		default:
			return false
		}
		return true
	}
	return false
}

// run interprets a statement list; started counts the `go` statements executed. ok=false: not understood.
func (e env) run(list []ast.Stmt, started *int, fuel *int) bool {
	for _, s := range list {
		*fuel--
		if *fuel < 0 {
			return false
		}
		switch v := s.(type) {
		case *ast.GoStmt:
			*started++
		case *ast.IfStmt:
			if v.Init != nil && !e.simple(v.Init) {
				return false
			}
			c, ok := e.cond(v.Cond)
			if !ok {
				return false
			}
			if c {
				if !e.run(v.Body.List, started, fuel) {
					return false
				}
			} else if v.Else != nil {
				switch el := v.Else.(type) {
				case *ast.BlockStmt:
					if !e.run(el.List, started, fuel) {
						return false
					}
				case *ast.IfStmt:
					if !e.run([]ast.Stmt{el}, started, fuel) {
						return false
					}
				}
			}
		case *ast.ForStmt:
			if !e.simple(v.Init) {
				return false
			}
			for {
				*fuel--
				if *fuel < 0 {
					return false
				}
				if v.Cond != nil {
					c, ok := e.cond(v.Cond)
					if !ok {
						return false
					}
					if !c {
						break
					}
				} else {
					return false
				}
				if !e.run(v.Body.List, started, fuel) {
					return false
				}
				if !e.simple(v.Post) {
					return false
				}
			}
		case *ast.RangeStmt:
			// for range make([]T, n)  /  for i := range make([]T, n)
			ce, ok := v.X.(*ast.CallExpr)
			if !ok || len(ce.Args) < 2 {
				return false
			}
			if id, ok := ce.Fun.(*ast.Ident); !ok || id.Name != "make" {
				return false
			}
			n, ok := e.eval(ce.Args[1])
			if !ok {
				return false
			}
			for i := 0; i < n; i++ {
				if !e.run(v.Body.List, started, fuel) {
					return false
				}
			}
		case *ast.AssignStmt, *ast.IncDecStmt:
			if !e.simple(s) {
				return false
			}
		case *ast.EmptyStmt:
		default:
			return false
		}
	}
	return true
}

func optNat(ok bool, n int) string {
	if !ok || n < 0 {
		return "none"
	}
	return fmt.Sprintf("some %d", n)
}

func main() {
	lib.Main(func(g *lib.Gen) {
		var b strings.Builder
		b.WriteString("namespace KG.Gen.C10\n")

		// ---- how many workers the controller starts
		const cfile = "pkg/gateway/controllers/upstream_controller.go"
		const qfile = "pkg/syncqueue/queue.go"
		understood, started := false, 0
		why := ""
		func() {
			cf := g.ParseFile(cfile)
			run := method(cf, "UpstreamClusterController", "Run")
			if run == nil {
				why = "UpstreamClusterController.Run not found"
				return
			}
			consts := g.Consts(cfile)
			arg, nCalls := -1, 0
			ast.Inspect(run.Body, func(n ast.Node) bool {
				ce, ok := n.(*ast.CallExpr)
				if !ok || len(ce.Args) != 1 {
					return true
				}
				sel, ok := ce.Fun.(*ast.SelectorExpr)
				if !ok || sel.Sel.Name != "Run" {
					return true
				}
				// <receiver>.<some field>.Run(<n>): the controller's queue, whatever it is called
				if _, ok := sel.X.(*ast.SelectorExpr); !ok {
					return true
				}
				nCalls++
				switch a := ce.Args[0].(type) {
				case *ast.BasicLit:
					if a.Kind == token.INT {
						arg, _ = strconv.Atoi(a.Value)
					}
				case *ast.Ident:
					if v, ok := consts[a.Name]; ok {
						if n, err := strconv.Atoi(lib.IntLit(v)); err == nil {
							arg = n
						}
					}
				}
				return true
			})
			if nCalls != 1 || arg < 0 {
				why = "the worker count the controller passes to its queue is not a literal / constant of one call"
				return
			}
			qf := g.ParseFile(qfile)
			qrun := method(qf, "SyncQueue", "Run")
			if qrun == nil || len(qrun.Type.Params.List) != 1 || len(qrun.Type.Params.List[0].Names) != 1 {
				why = "SyncQueue.Run(<one parameter>) not found"
				return
			}
			e := env{qrun.Type.Params.List[0].Names[0].Name: arg}
			fuel := 10000
			if !e.run(qrun.Body.List, &started, &fuel) {
				why = "SyncQueue.Run is not a clamp-and-count function the extractor can execute"
				started = 0
				return
			}
			understood = true
			why = fmt.Sprintf("the controller calls its queue's Run(%d), which starts %d worker goroutine(s)", arg, started)
		}()
		fmt.Fprintf(&b, "/-- %s -/\ndef workersStarted : Option Nat := %s\n", why, optNat(understood, started))

		// ---- a RequeueAfter result is re-delivered for ever
		// The queue drops an item when NumRequeues(obj) reaches Result.MaxRequeueTimes. NumRequeues counts what the
		// queue's rate limiter was asked about (AddRateLimited / <rate limiter>.When). On the path of a handler
		// result WITHOUT error nothing may feed that counter, or the controller's {RequeueAfter, MaxRequeueTimes: 3}
		// stops looking at a cluster that lost a name conflict after 3 retries. Found by role: in the function that
		// calls the sync handler, calls named AddRateLimited / When outside the `if err != nil` block.
		rq, rwhy := "none", "the function of SyncQueue that calls the sync handler was not recognised"
		func() {
			qf := g.ParseFile(qfile)
			for _, d := range qf.Decls {
				fd, ok := d.(*ast.FuncDecl)
				if !ok || fd.Recv == nil || fd.Body == nil || !strings.Contains(render(g, fd.Body), ".syncHandler(") {
					continue
				}
				errVar := ""
				ast.Inspect(fd.Body, func(n ast.Node) bool {
					if as, ok := n.(*ast.AssignStmt); ok && len(as.Lhs) == 2 && len(as.Rhs) == 1 && strings.Contains(render(g, as.Rhs[0]), ".syncHandler(") {
						if id, ok := as.Lhs[1].(*ast.Ident); ok {
							errVar = id.Name
						}
					}
					return true
				})
				if errVar == "" {
					return
				}
				counted := 0
				var walk func(n ast.Node)
				walk = func(n ast.Node) {
					ast.Inspect(n, func(c ast.Node) bool {
						if c == n {
							return true
						}
						if is, ok := c.(*ast.IfStmt); ok && render(g, is.Cond) == errVar+" != nil" {
							if is.Else != nil {
								walk(is.Else)
							}
							return false // the error path has its own retry budget (maxErrRetries)
						}
						if ce, ok := c.(*ast.CallExpr); ok {
							if sel, ok := ce.Fun.(*ast.SelectorExpr); ok && (sel.Sel.Name == "AddRateLimited" || sel.Sel.Name == "When") {
								counted++
							}
						}
						return true
					})
				}
				walk(fd.Body)
				if counted > 0 {
					rq, rwhy = "some true", fd.Name.Name+": a requeue asked by a handler result without error feeds the counter MaxRequeueTimes is compared with"
				} else {
					rq, rwhy = "some false", fd.Name.Name+": nothing on the path of a handler result without error feeds the counter MaxRequeueTimes is compared with: such a result is re-delivered for ever"
				}
				return
			}
		}()
		fmt.Fprintf(&b, "/-- %s -/\ndef requeueAfterCounted : Option Bool := %s\n", rwhy, rq)

		// ---- the SNI verify-options provider and the control plane's client-cert configuration
		const afile = "pkg/gateway/proxy/options/authentication.go"
		af := g.ParseFile(afile)
		res, awhy := "none", "ToAuthenticationConfig not found or the provider field not recognised"
		if tac := method(af, "AuthenticationOptions", "ToAuthenticationConfig"); tac != nil {
			// identifiers bound from the control plane's GetClientCert()
			cpIdents := map[string]bool{}
			ast.Inspect(tac.Body, func(n ast.Node) bool {
				if as, ok := n.(*ast.AssignStmt); ok && len(as.Lhs) == 1 && len(as.Rhs) == 1 && strings.Contains(render(g, as.Rhs[0]), "GetClientCert") {
					if id, ok := as.Lhs[0].(*ast.Ident); ok {
						cpIdents[id.Name] = true
					}
				}
				return true
			})
			mentionsCP := func(is *ast.IfStmt) bool {
				txt := render(g, is.Init) + " " + render(g, is.Cond)
				if strings.Contains(txt, "GetClientCert") {
					return true
				}
				found := false
				ast.Inspect(is.Cond, func(n ast.Node) bool {
					if id, ok := n.(*ast.Ident); ok && cpIdents[id.Name] {
						found = true
					}
					return true
				})
				return found
			}
			free, guarded := 0, 0
			var walk func(n ast.Node, underCP bool)
			walk = func(n ast.Node, underCP bool) {
				ast.Inspect(n, func(c ast.Node) bool {
					if c == n {
						return true
					}
					switch v := c.(type) {
					case *ast.IfStmt:
						if v.Init != nil {
							walk(v.Init, underCP)
						}
						walk(v.Body, underCP || mentionsCP(v))
						if v.Else != nil {
							walk(v.Else, underCP)
						}
						return false
					case *ast.KeyValueExpr:
						if strings.Contains(render(g, v.Key), "SNIVerifyOption") {
							if underCP {
								guarded++
							} else {
								free++
							}
						}
					case *ast.AssignStmt:
						for _, l := range v.Lhs {
							if sel, ok := l.(*ast.SelectorExpr); ok && strings.Contains(sel.Sel.Name, "SNIVerifyOption") {
								if underCP {
									guarded++
								} else {
									free++
								}
							}
						}
					}
					return true
				})
			}
			walk(tac.Body, false)
			switch {
			case free > 0:
				res, awhy = "some true", "the SNI verify-options provider is installed by code that is not conditional on the control plane's client-cert configuration"
			case guarded > 0:
				res, awhy = "some false", "the SNI verify-options provider is only installed under a condition on the control plane's client-cert configuration"
			}
		}
		fmt.Fprintf(&b, "/-- %s -/\ndef sniProviderWithoutControlPlaneCA : Option Bool := %s\n", awhy, res)
		b.WriteString("end KG.Gen.C10\n")
		g.Emit("C10.lean", b.String())
	})
}
