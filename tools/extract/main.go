// extract regenerates lean/KG/Gen/*.lean from /repo's current sources (go/ast, go/constant).
package main

import (
	"flag"
	"fmt"
	"os"
	"path/filepath"
)

func main() {
	repo := flag.String("repo", "/repo", "repository root")
	out := flag.String("out", "", "output directory")
	flag.Parse()
	if *out == "" {
		fmt.Fprintln(os.Stderr, "need -out")
		os.Exit(2)
	}
	files := map[string]string{}
	var errs []string
	for _, g := range generators {
		name, content, err := g(*repo)
		if err != nil {
			errs = append(errs, err.Error())
			continue
		}
		files[name] = content
	}
	for name, content := range files {
		if err := os.WriteFile(filepath.Join(*out, name), []byte(content), 0o644); err != nil {
			fmt.Fprintln(os.Stderr, err)
			os.Exit(2)
		}
	}
	if len(errs) > 0 {
		for _, e := range errs {
			fmt.Fprintln(os.Stderr, "extract:", e)
		}
		os.Exit(1)
	}
}

// a generator returns (file name under KG/Gen, content)
var generators []func(repo string) (string, string, error)
