// Regenerates lean/KG/Gen/C07.lean: the allocation constants of pkg/ratelimiter/limiter/allocation.go.
package main

import (
	"fmt"
	"strings"

	"extract/lib"
)

func main() {
	lib.Main(func(g *lib.Gen) {
		const file = "pkg/ratelimiter/limiter/allocation.go"
		var b strings.Builder
		b.WriteString("namespace KG.Gen.C07\n")
		b.WriteString("/-! constants of " + file + " as exact rationals `(numerator, denominator)` -/\n")
		for _, n := range []string{"ExpectUtilizationLevel", "ExpectUtilizationPercent", "ReducePercent", "IncreasePercent", "MinimumQuotaPercent", "InitialQuotaPercent"} {
			v := g.Const(file, n)
			fmt.Fprintf(&b, "def %s : Nat × Nat := %s\n", strings.ToLower(n[:1])+n[1:], lib.RatLit(v))
		}
		b.WriteString("end KG.Gen.C07\n")
		g.Emit("C07.lean", b.String())
	})
}
