// Regenerates lean/KG/Gen/C19.lean:
//  (1) which operations of the API-backed limiter store (pkg/ratelimiter/store/k8s/cache_store.go) hold the store
//      mutex from before their first access to the API client or the cache until they return. The Lean model treats
//      such an operation as one that cannot run inside a running flush (which holds the mutex from its snapshot to
//      its last write); `KG.Props.C19` derives from these facts which calls can land inside a flush.
//  (2) which REST strategy the control plane registers for ratelimitconditions.
//
// The facts are semantic, not spellings: methods are found by ROLE (the exported LimitStore methods Save / Delete /
// DeleteUpstream / Load / Flush / Stop, the function handed to wait.Until by the constructor), the API client and the
// cache are the fields of objectStore with those TYPES, calls into same-receiver helper methods are inlined (any
// depth ≤ 4), and "holds the mutex" means: walking the effective statement sequence, a `recv.Lock()` / `recv.RLock()`
// immediately followed by `defer recv.Unlock()` / `defer recv.RUnlock()` comes before the first statement that touches
// the client or the cache (directly or through a helper). For Save the lock may sit in an `if <period> == 0 { … }`
// block of its own or at the head of the write-through block (the deferred unlock runs at return either way).
package main

import (
	"bytes"
	"fmt"
	"go/ast"
	"go/printer"
	"strings"

	"extract/lib"
)

const file = "pkg/ratelimiter/store/k8s/cache_store.go"

func src(g *lib.Gen, n ast.Node) string {
	var b bytes.Buffer
	printer.Fprint(&b, g.Fset(), n)
	return b.String()
}

type store struct {
	g       *lib.Gen
	methods map[string]*ast.FuncDecl
	client  string // field of objectStore holding the gateway clientset
	cache   string // field holding the local LimitStore
	period  string // field of type time.Duration
}

func recvOf(fd *ast.FuncDecl) string {
	if len(fd.Recv.List) == 1 && len(fd.Recv.List[0].Names) == 1 {
		return fd.Recv.List[0].Names[0].Name
	}
	return "_"
}

// helper calls recv.M(…) of the store's own methods inside a node
func (s *store) helperCalls(n ast.Node, recv string) []string {
	var out []string
	ast.Inspect(n, func(x ast.Node) bool {
		if c, ok := x.(*ast.CallExpr); ok {
			if sel, ok := c.Fun.(*ast.SelectorExpr); ok {
				if id, ok := sel.X.(*ast.Ident); ok && id.Name == recv {
					if _, ok := s.methods[sel.Sel.Name]; ok {
						out = append(out, sel.Sel.Name)
					}
				}
			}
		}
		return true
	})
	return out
}

func (s *store) direct(n ast.Node, recv string) bool {
	t := src(s.g, n)
	return strings.Contains(t, recv+"."+s.client) || strings.Contains(t, recv+"."+s.cache)
}

// touches: does the method reach the client or the cache (directly or through helpers)?
func (s *store) touches(m string, depth int) bool {
	fd := s.methods[m]
	if fd == nil || depth == 0 {
		return false
	}
	recv := recvOf(fd)
	if s.direct(fd.Body, recv) {
		return true
	}
	for _, h := range s.helperCalls(fd.Body, recv) {
		if h != m && s.touches(h, depth-1) {
			return true
		}
	}
	return false
}

func isLockPair(g *lib.Gen, recv string, stmts []ast.Stmt, i int) string {
	text := src(g, stmts[i])
	for _, kind := range []string{"Lock", "RLock"} {
		un := map[string]string{"Lock": "Unlock", "RLock": "RUnlock"}[kind]
		if text == recv+"."+kind+"()" && i+1 < len(stmts) && src(g, stmts[i+1]) == "defer "+recv+"."+un+"()" {
			return kind
		}
	}
	return ""
}

// lockOf walks the effective statement sequence of a method. It returns the kind of lock taken before the first
// access to client/cache ("Lock", "RLock"; prefixed "wt:" when the lock sits in an `if <period> == 0` block), or "",
// and the method in which the decision fell.
func (s *store) lockOf(m string, depth int) (kind, where string) {
	fd := s.methods[m]
	if fd == nil || depth == 0 {
		return "", m
	}
	recv := recvOf(fd)
	stmts := fd.Body.List
	for i, st := range stmts {
		if k := isLockPair(s.g, recv, stmts, i); k != "" {
			return k, m
		}
		if is, ok := st.(*ast.IfStmt); ok && is.Init == nil && !s.direct(is.Cond, recv) && len(s.helperCalls(is.Cond, recv)) == 0 {
			// a lock taken at the head of a write-through-only block
			if len(is.Body.List) >= 2 {
				if k := isLockPair(s.g, recv, is.Body.List, 0); k != "" &&
					strings.Contains(strings.ReplaceAll(src(s.g, is.Cond), " ", ""), recv+"."+s.period+"==0") {
					return "wt:" + k, m
				}
			}
		}
		if s.direct(st, recv) {
			return "", m
		}
		for _, h := range s.helperCalls(st, recv) {
			if h != m && s.touches(h, 4) {
				return s.lockOf(h, depth-1)
			}
		}
	}
	return "", m
}

func main() {
	lib.Main(func(g *lib.Gen) {
		f := g.ParseFile(file)
		s := &store{g: g, methods: map[string]*ast.FuncDecl{}}
		embedsMutex := ""
		periodic := "" // the method the constructor hands to wait.Until
		for _, d := range f.Decls {
			switch d := d.(type) {
			case *ast.GenDecl:
				for _, sp := range d.Specs {
					ts, ok := sp.(*ast.TypeSpec)
					if !ok || ts.Name.Name != "objectStore" {
						continue
					}
					st, ok := ts.Type.(*ast.StructType)
					if !ok {
						lib.Fatalf("objectStore is not a struct")
					}
					for _, fld := range st.Fields.List {
						t := src(g, fld.Type)
						switch {
						case len(fld.Names) == 0 && (t == "sync.Mutex" || t == "sync.RWMutex"):
							embedsMutex = t
						case len(fld.Names) == 1 && strings.HasSuffix(t, "clientset.Interface"):
							s.client = fld.Names[0].Name
						case len(fld.Names) == 1 && strings.HasSuffix(t, ".LimitStore"):
							s.cache = fld.Names[0].Name
						case len(fld.Names) == 1 && t == "time.Duration":
							s.period = fld.Names[0].Name
						}
					}
				}
			case *ast.FuncDecl:
				if d.Body == nil {
					continue
				}
				if d.Recv != nil && len(d.Recv.List) == 1 && src(g, d.Recv.List[0].Type) == "*objectStore" {
					s.methods[d.Name.Name] = d
				}
				if d.Recv == nil {
					ast.Inspect(d.Body, func(x ast.Node) bool {
						if c, ok := x.(*ast.CallExpr); ok && src(g, c.Fun) == "wait.Until" && len(c.Args) >= 1 {
							if sel, ok := c.Args[0].(*ast.SelectorExpr); ok {
								periodic = sel.Sel.Name
							}
						}
						return true
					})
				}
			}
		}
		if embedsMutex == "" {
			lib.Fatalf("%s: objectStore no longer embeds sync.Mutex / sync.RWMutex", file)
		}
		if s.client == "" || s.cache == "" || s.period == "" {
			lib.Fatalf("%s: objectStore: cannot find the clientset / LimitStore / time.Duration fields (%q, %q, %q)", file, s.client, s.cache, s.period)
		}
		for _, n := range []string{"Save", "Delete", "DeleteUpstream", "Load", "Flush", "Stop"} {
			if s.methods[n] == nil {
				lib.Fatalf("%s: method (*objectStore).%s not found", file, n)
			}
		}
		if periodic == "" || s.methods[periodic] == nil {
			lib.Fatalf("%s: the constructor no longer hands a method of the store to wait.Until", file)
		}
		flushKind, flushFn := s.lockOf("Flush", 4)
		// Stop and the periodic goroutine flush through the same function as Flush
		for _, n := range []string{"Stop", periodic} {
			k, fn := s.lockOf(n, 4)
			if k != flushKind || fn != flushFn {
				lib.Fatalf("%s: %s does not flush the way Flush does (%q in %s vs %q in %s)", file, n, k, fn, flushKind, flushFn)
			}
		}
		if flushKind == "RLock" {
			lib.Fatalf("%s: the flush takes only a read lock", file)
		}
		delKind, _ := s.lockOf("Delete", 4)
		delUpKind, _ := s.lockOf("DeleteUpstream", 4)
		saveKind, _ := s.lockOf("Save", 4)
		loadKind, _ := s.lockOf("Load", 4)
		uncond := func(k string) string { // a deletion / flush must hold the mutex unconditionally
			if strings.HasPrefix(k, "wt:") {
				return ""
			}
			return k
		}
		b := func(k string) string {
			if k != "" {
				return "true"
			}
			return "false"
		}
		var out strings.Builder
		out.WriteString("namespace KG.Gen.C19\n")
		fmt.Fprintf(&out, "/-! %s: objectStore embeds %s; which methods hold it (lock + deferred unlock before the first access to the API client or the cache, helpers inlined) -/\n", file, embedsMutex)
		fmt.Fprintf(&out, "def flushHoldsMutex : Bool := %s          -- Flush / Stop / the periodic goroutine (%q)\n", b(uncond(flushKind)), flushKind)
		fmt.Fprintf(&out, "def deleteHoldsMutex : Bool := %s         -- Delete (%q)\n", b(uncond(delKind)), delKind)
		fmt.Fprintf(&out, "def deleteUpstreamHoldsMutex : Bool := %s -- DeleteUpstream (%q)\n", b(uncond(delUpKind)), delUpKind)
		fmt.Fprintf(&out, "def saveExcludesFlush : Bool := %s        -- write-through Save (%q)\n", b(saveKind), saveKind)
		fmt.Fprintf(&out, "def loadHoldsMutex : Bool := %s           -- Load (%q)\n", b(uncond(loadKind)), loadKind)
		// --- which REST strategy the control plane registers for ratelimitconditions (rest.go), and whether a write to
		// the MAIN resource (all the limiter's store does) persists the status
		const restFile = "pkg/gateway/controlplane/registry/proxy/rest/rest.go"
		const stratFile = "staging/src/github.com/kubewharf/apiserver-runtime/pkg/registry/strategy.go"
		rf := g.ParseFile(restFile)
		strategyExpr := ""
		for _, d := range rf.Decls {
			fd, ok := d.(*ast.FuncDecl)
			// found by role: the function that registers the resource "ratelimitconditions"
			if !ok || fd.Body == nil || !strings.Contains(src(g, fd.Body), `"ratelimitconditions"`) {
				continue
			}
			ast.Inspect(fd.Body, func(n ast.Node) bool {
				if c, ok := n.(*ast.CallExpr); ok && strings.HasSuffix(src(g, c.Fun), ".SetRESTStrategy") && len(c.Args) == 2 {
					strategyExpr = src(g, c.Args[1])
				}
				return true
			})
		}
		if strategyExpr == "" {
			lib.Fatalf("%s: no function registers a REST strategy for \"ratelimitconditions\"", restFile)
		}
		// resolve a shared singleton to its constructor call
		ctor := strategyExpr
		if strings.HasPrefix(ctor, "registry.") && !strings.Contains(ctor, "(") {
			name := strings.TrimPrefix(ctor, "registry.")
			ctor = ""
			sf := g.ParseFile(stratFile)
			ast.Inspect(sf, func(n ast.Node) bool {
				if vs, ok := n.(*ast.ValueSpec); ok {
					for i, id := range vs.Names {
						if id.Name == name && i < len(vs.Values) {
							ctor = "registry." + src(g, vs.Values[i])
						}
					}
				}
				return true
			})
			if ctor == "" {
				lib.Fatalf("%s: strategy %s not found in %s", restFile, strategyExpr, stratFile)
			}
		}
		var subStatus string
		if n, _ := fmt.Sscanf(strings.ReplaceAll(ctor, " ", ""), "registry.NewDefaultRESTStrategy(%s", &subStatus); n != 1 || !strings.Contains(subStatus, ",") {
			lib.Fatalf("%s: strategy of ratelimitconditions is %q, not a registry.NewDefaultRESTStrategy(namespaced, subStatus)", restFile, ctor)
		}
		subStatus = strings.TrimSuffix(strings.SplitN(subStatus, ",", 2)[1], ")")
		if subStatus != "true" && subStatus != "false" {
			lib.Fatalf("%s: cannot read subStatus of %q", restFile, ctor)
		}
		// DefaultRESTStrategy with subStatus: PrepareForCreate clears .status, PrepareForUpdate keeps the stored .status
		sfSrc := src(g, g.ParseFile(stratFile))
		if !strings.Contains(sfSrc, "s.subStatus && hasStatus") {
			lib.Fatalf("%s: DefaultRESTStrategy no longer guards its status handling by subStatus", stratFile)
		}
		fmt.Fprintf(&out, "/-! %s: the control plane serves ratelimitconditions with %s -/\n", restFile, strings.ReplaceAll(strategyExpr, "-/", ""))
		fmt.Fprintf(&out, "def mainResourceWritesPersistStatus : Bool := %v -- subStatus = %s\n", subStatus == "false", subStatus)
		out.WriteString("end KG.Gen.C19\n")
		g.Emit("C19.lean", out.String())
	})
}
