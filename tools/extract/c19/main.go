// Regenerates lean/KG/Gen/C19.lean: which operations of the API-backed limiter store
// (pkg/ratelimiter/store/k8s/cache_store.go) hold the store mutex for their whole duration. The Lean model
// treats an operation that holds the mutex as one that cannot run inside a running flush (which holds it from its
// snapshot to its last write); `KG.Props.C19` derives from these facts which calls can land inside a flush.
//
// A method "holds the mutex" when, in its body (for Save: at the top of the body, or at the top of the
// `if s.syncPeriod == 0 { … }` block), a statement `s.Lock()` / `s.RLock()` is immediately followed by
// `defer s.Unlock()` / `defer s.RUnlock()` and no earlier statement touches the API client, the cache or
// createOrUpdate. The receiver's type must embed sync.Mutex or sync.RWMutex.
package main

import (
	"bytes"
	"fmt"
	"go/ast"
	"go/printer"
	"strings"

	"extract/lib"
)

const file = "pkg/ratelimiter/store/k8s/cache_store.go"

func src(g *lib.Gen, n ast.Node) string {
	var b bytes.Buffer
	printer.Fprint(&b, g.Fset(), n)
	return b.String()
}

func touchesState(s string) bool {
	return strings.Contains(s, "gatewayClient") || strings.Contains(s, "localStore") || strings.Contains(s, "createOrUpdate")
}

// lockedPrefix: does the statement list take the receiver's mutex (lock + deferred unlock) before touching any state?
// Returns the kind of lock ("Lock", "RLock") or "".
func lockedPrefix(g *lib.Gen, recv string, stmts []ast.Stmt) string {
	for i, st := range stmts {
		text := src(g, st)
		for _, kind := range []string{"Lock", "RLock"} {
			un := map[string]string{"Lock": "Unlock", "RLock": "RUnlock"}[kind]
			if text == recv+"."+kind+"()" && i+1 < len(stmts) && src(g, stmts[i+1]) == "defer "+recv+"."+un+"()" {
				return kind
			}
		}
		if touchesState(text) {
			return ""
		}
	}
	return ""
}

func main() {
	lib.Main(func(g *lib.Gen) {
		f := g.ParseFile(file)
		embedsMutex := ""
		methods := map[string]*ast.FuncDecl{}
		recvName := map[string]string{}
		for _, d := range f.Decls {
			switch d := d.(type) {
			case *ast.GenDecl:
				for _, sp := range d.Specs {
					ts, ok := sp.(*ast.TypeSpec)
					if !ok || ts.Name.Name != "objectStore" {
						continue
					}
					st, ok := ts.Type.(*ast.StructType)
					if !ok {
						lib.Fatalf("objectStore is not a struct")
					}
					for _, fld := range st.Fields.List {
						if len(fld.Names) == 0 {
							if t := src(g, fld.Type); t == "sync.Mutex" || t == "sync.RWMutex" {
								embedsMutex = t
							}
						}
					}
				}
			case *ast.FuncDecl:
				if d.Recv == nil || len(d.Recv.List) != 1 || src(g, d.Recv.List[0].Type) != "*objectStore" || d.Body == nil {
					continue
				}
				methods[d.Name.Name] = d
				if len(d.Recv.List[0].Names) == 1 {
					recvName[d.Name.Name] = d.Recv.List[0].Names[0].Name
				}
			}
		}
		if embedsMutex == "" {
			lib.Fatalf("%s: objectStore no longer embeds sync.Mutex / sync.RWMutex", file)
		}
		need := func(n string) *ast.FuncDecl {
			d, ok := methods[n]
			if !ok {
				lib.Fatalf("%s: method (*objectStore).%s not found", file, n)
			}
			return d
		}
		holds := func(n string) string { return lockedPrefix(g, recvName[n], need(n).Body.List) }
		// Save: at the top, or at the top of the write-through block
		save := need("Save")
		saveLock := lockedPrefix(g, recvName["Save"], save.Body.List)
		if saveLock == "" {
			for _, st := range save.Body.List {
				if is, ok := st.(*ast.IfStmt); ok && src(g, is.Cond) == recvName["Save"]+".syncPeriod == 0" {
					saveLock = lockedPrefix(g, recvName["Save"], is.Body.List)
				}
			}
		}
		// Flush, Stop and the periodic sync go through doSyncLocked
		for _, n := range []string{"Flush", "Stop", "sync"} {
			if !strings.Contains(src(g, need(n).Body), recvName[n]+".doSyncLocked()") {
				lib.Fatalf("%s: %s no longer flushes through doSyncLocked", file, n)
			}
		}
		b := func(s string) string {
			if s != "" {
				return "true"
			}
			return "false"
		}
		var out strings.Builder
		out.WriteString("namespace KG.Gen.C19\n")
		fmt.Fprintf(&out, "/-! %s: objectStore embeds %s; which methods hold it (lock + deferred unlock before touching the API or the cache) -/\n", file, embedsMutex)
		fmt.Fprintf(&out, "def flushHoldsMutex : Bool := %s          -- doSyncLocked (%q)\n", b(holds("doSyncLocked")), holds("doSyncLocked"))
		fmt.Fprintf(&out, "def deleteHoldsMutex : Bool := %s         -- Delete (%q)\n", b(holds("Delete")), holds("Delete"))
		fmt.Fprintf(&out, "def deleteUpstreamHoldsMutex : Bool := %s -- DeleteUpstream (%q)\n", b(holds("DeleteUpstream")), holds("DeleteUpstream"))
		fmt.Fprintf(&out, "def saveExcludesFlush : Bool := %s        -- write-through Save (%q)\n", b(saveLock), saveLock)
		fmt.Fprintf(&out, "def loadHoldsMutex : Bool := %s           -- Load (%q)\n", b(holds("Load")), holds("Load"))
		// a flush holding only a read lock would not exclude readers
		if k := holds("doSyncLocked"); k == "RLock" {
			lib.Fatalf("%s: doSyncLocked takes only a read lock", file)
		}
		// --- which REST strategy the control plane registers for ratelimitconditions (rest.go), and whether a write to
		// the MAIN resource (all the limiter's store does) persists the status
		const restFile = "pkg/gateway/controlplane/registry/proxy/rest/rest.go"
		const stratFile = "staging/src/github.com/kubewharf/apiserver-runtime/pkg/registry/strategy.go"
		rf := g.ParseFile(restFile)
		strategyExpr := ""
		for _, d := range rf.Decls {
			fd, ok := d.(*ast.FuncDecl)
			if !ok || fd.Name.Name != "newRateLimitConditionOption" || fd.Body == nil {
				continue
			}
			ast.Inspect(fd.Body, func(n ast.Node) bool {
				if c, ok := n.(*ast.CallExpr); ok && strings.HasSuffix(src(g, c.Fun), ".SetRESTStrategy") && len(c.Args) == 2 {
					strategyExpr = src(g, c.Args[1])
				}
				return true
			})
		}
		if strategyExpr == "" {
			lib.Fatalf("%s: newRateLimitConditionOption no longer calls SetRESTStrategy", restFile)
		}
		// resolve a shared singleton to its constructor call
		ctor := strategyExpr
		if strings.HasPrefix(ctor, "registry.") && !strings.Contains(ctor, "(") {
			name := strings.TrimPrefix(ctor, "registry.")
			ctor = ""
			sf := g.ParseFile(stratFile)
			ast.Inspect(sf, func(n ast.Node) bool {
				if vs, ok := n.(*ast.ValueSpec); ok {
					for i, id := range vs.Names {
						if id.Name == name && i < len(vs.Values) {
							ctor = "registry." + src(g, vs.Values[i])
						}
					}
				}
				return true
			})
			if ctor == "" {
				lib.Fatalf("%s: strategy %s not found in %s", restFile, strategyExpr, stratFile)
			}
		}
		var subStatus string
		if n, _ := fmt.Sscanf(strings.ReplaceAll(ctor, " ", ""), "registry.NewDefaultRESTStrategy(%s", &subStatus); n != 1 || !strings.Contains(subStatus, ",") {
			lib.Fatalf("%s: strategy of ratelimitconditions is %q, not a registry.NewDefaultRESTStrategy(namespaced, subStatus)", restFile, ctor)
		}
		subStatus = strings.TrimSuffix(strings.SplitN(subStatus, ",", 2)[1], ")")
		if subStatus != "true" && subStatus != "false" {
			lib.Fatalf("%s: cannot read subStatus of %q", restFile, ctor)
		}
		// DefaultRESTStrategy with subStatus: PrepareForCreate clears .status, PrepareForUpdate keeps the stored .status
		sfSrc := src(g, g.ParseFile(stratFile))
		if !strings.Contains(sfSrc, "s.subStatus && hasStatus") {
			lib.Fatalf("%s: DefaultRESTStrategy no longer guards its status handling by subStatus", stratFile)
		}
		fmt.Fprintf(&out, "/-! %s: the control plane serves ratelimitconditions with %s -/\n", restFile, strings.ReplaceAll(strategyExpr, "-/", ""))
		fmt.Fprintf(&out, "def mainResourceWritesPersistStatus : Bool := %v -- subStatus = %s\n", subStatus == "false", subStatus)
		out.WriteString("end KG.Gen.C19\n")
		g.Emit("C19.lean", out.String())
	})
}
