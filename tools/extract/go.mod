module extract

go 1.21
