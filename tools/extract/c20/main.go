// Regenerates lean/KG/Gen/C20.lean: how each kind of the proxy group is served by the control plane, read from
//
//	pkg/gateway/controlplane/registry/proxy/rest/rest.go         (which option builders are registered; per kind:
//	     Kind/Resource, the strategy handed to SetRESTStrategy, the value assigned to options.SubStatus)
//	staging/.../apiserver-runtime/pkg/registry/strategy.go        (the strategy singletons -> (namespaced, subStatus))
//	staging/.../apiserver-runtime/pkg/registry/option.go          (the factory's default strategy)
//	pkg/apis/proxy/v1alpha1/*.go                                  (does the Go type have ObjectMeta / Spec / Status;
//	     how many fields its Status type has)
//
// A kind added to (or removed from) rest.go changes the list; KG.Props.C20 re-decides, over the regenerated list,
// that every kind served with a status subresource has a Spec and a Status and a main strategy built with
// subStatus=true, and the harness compares the list with the storage map the real code builds at run time.
package main

import (
	"bytes"
	"fmt"
	"go/ast"
	"go/printer"
	"go/token"
	"os"
	"path/filepath"
	"sort"
	"strings"

	"extract/lib"
)

const (
	restFile     = "pkg/gateway/controlplane/registry/proxy/rest/rest.go"
	strategyFile = "staging/src/github.com/kubewharf/apiserver-runtime/pkg/registry/strategy.go"
	optionFile   = "staging/src/github.com/kubewharf/apiserver-runtime/pkg/registry/option.go"
	typesDir     = "pkg/apis/proxy/v1alpha1"
)

type flags struct{ namespaced, subStatus bool }

func boolLit(e ast.Expr) (bool, bool) {
	id, ok := e.(*ast.Ident)
	if !ok || (id.Name != "true" && id.Name != "false") {
		return false, false
	}
	return id.Name == "true", true
}

func calleeName(c *ast.CallExpr) string {
	switch f := c.Fun.(type) {
	case *ast.Ident:
		return f.Name
	case *ast.SelectorExpr:
		return f.Sel.Name
	}
	return ""
}

// newDefault reads NewDefaultRESTStrategy(a, b) with literal arguments.
func newDefault(e ast.Expr) (flags, bool) {
	c, ok := e.(*ast.CallExpr)
	if !ok || calleeName(c) != "NewDefaultRESTStrategy" || len(c.Args) != 2 {
		return flags{}, false
	}
	a, ok1 := boolLit(c.Args[0])
	b, ok2 := boolLit(c.Args[1])
	return flags{a, b}, ok1 && ok2
}

// behavioural: functions of strategy.go whose behaviour the harness ties to the model by running them; every other
// function/method of the file is pinned by its (whitespace-normalised) source text.
var behavioural = map[string]bool{
	"DefaultRESTStrategy.PrepareForCreate": true, "DefaultRESTStrategy.PrepareForUpdate": true,
	"DefaultStatusRESTStrategy.PrepareForUpdate": true, "HasObjectMetaSpecStatus": true, "specEqual": true, "semanticEqual": true,
}

func src(g *lib.Gen, n ast.Node) string {
	var buf bytes.Buffer
	if err := printer.Fprint(&buf, g.Fset(), n); err != nil {
		lib.Fatalf("print: %v", err)
	}
	return strings.Join(strings.Fields(buf.String()), " ")
}

// hooksFact: every hook of the strategy types (the generic registry calls them around PrepareFor…: Canonicalize
// AFTER the comparison and the validation, AllowCreateOnUpdate / AllowUnconditionalUpdate decide which path a
// request takes, Validate*/WarningsOn*/… would be new hooks), the types' embedded members, and the members of the
// genericregistry.Store that NewResourceREST fills in (AfterUpdate, Decorator, BeginUpdate … would be new ones).
func hooksFact(g *lib.Gen) string {
	sf := g.ParseFile(strategyFile)
	var hooks, types []string
	for _, d := range sf.Decls {
		switch t := d.(type) {
		case *ast.FuncDecl:
			name := t.Name.Name
			if t.Recv != nil && len(t.Recv.List) == 1 {
				rt := t.Recv.List[0].Type
				if st, ok := rt.(*ast.StarExpr); ok {
					rt = st.X
				}
				name = src(g, rt) + "." + name
			}
			body := "behavioural: run by the harness"
			if !behavioural[name] {
				if t.Body == nil {
					lib.Fatalf("%s has no body", name)
				}
				body = src(g, t.Type) + " " + src(g, t.Body)
			}
			hooks = append(hooks, fmt.Sprintf("  (%q, %q)", name, body))
		case *ast.GenDecl:
			if t.Tok != token.TYPE {
				continue
			}
			for _, sp := range t.Specs {
				ts := sp.(*ast.TypeSpec)
				types = append(types, fmt.Sprintf("  (%q, %q)", ts.Name.Name, src(g, ts.Type)))
			}
		}
	}
	for n := range behavioural {
		found := false
		for _, h := range hooks {
			if strings.HasPrefix(h, fmt.Sprintf("  (%q,", n)) {
				found = true
			}
		}
		if !found {
			lib.Fatalf("%s no longer exists in %s", n, strategyFile)
		}
	}
	// NewResourceREST: members of the Store literal and later assignments to store members
	rf := g.ParseFile("staging/src/github.com/kubewharf/apiserver-runtime/pkg/registry/rest.go")
	nr := lib.FuncDecl(rf, "", "NewResourceREST")
	if nr == nil {
		lib.Fatalf("NewResourceREST not found")
	}
	var members []string
	ast.Inspect(nr.Body, func(n ast.Node) bool {
		switch t := n.(type) {
		case *ast.CompositeLit:
			if strings.HasSuffix(src(g, t.Type), "genericregistry.Store") {
				for _, e := range t.Elts {
					kv, ok := e.(*ast.KeyValueExpr)
					if !ok {
						lib.Fatalf("positional member in the genericregistry.Store literal")
					}
					k := src(g, kv.Key)
					v := src(g, kv.Value)
					if k == "NewFunc" || k == "NewListFunc" {
						v = "func"
					}
					members = append(members, fmt.Sprintf("  (%q, %q)", "store."+k, v))
				}
			}
		case *ast.AssignStmt:
			for i, l := range t.Lhs {
				if se, ok := l.(*ast.SelectorExpr); ok && i < len(t.Rhs) {
					if id, ok := se.X.(*ast.Ident); ok && (id.Name == "store" || strings.HasSuffix(id.Name, "Store")) {
						members = append(members, fmt.Sprintf("  (%q, %q)", id.Name+"."+se.Sel.Name, src(g, t.Rhs[i])))
					}
				}
			}
		}
		return true
	})
	if len(members) == 0 {
		lib.Fatalf("no genericregistry.Store literal in NewResourceREST")
	}
	var b strings.Builder
	b.WriteString("/-! every function of " + strategyFile + " that is not run by the harness, by its source text -/\n")
	b.WriteString("def hooks : List (String × String) := [\n" + strings.Join(hooks, ",\n") + "]\n\n")
	b.WriteString("def strategyTypes : List (String × String) := [\n" + strings.Join(types, ",\n") + "]\n\n")
	b.WriteString("/-! members of the generic store set by NewResourceREST -/\n")
	b.WriteString("def storeMembers : List (String × String) := [\n" + strings.Join(members, ",\n") + "]\n")
	return b.String()
}

func main() {
	lib.Main(func(g *lib.Gen) {
		// ---- strategy.go: parameter order of NewDefaultRESTStrategy and the singletons
		sf := g.ParseFile(strategyFile)
		nd := lib.FuncDecl(sf, "", "NewDefaultRESTStrategy")
		if nd == nil {
			lib.Fatalf("NewDefaultRESTStrategy not found in %s", strategyFile)
		}
		var params []string
		for _, f := range nd.Type.Params.List {
			for _, n := range f.Names {
				params = append(params, n.Name)
			}
		}
		if strings.Join(params, ",") != "namespaced,subStatus" {
			lib.Fatalf("NewDefaultRESTStrategy parameters are %v, expected (namespaced, subStatus)", params)
		}
		// its body must put the parameters into the fields of the same name
		okBody := false
		ast.Inspect(nd.Body, func(n ast.Node) bool {
			cl, ok := n.(*ast.CompositeLit)
			if !ok {
				return true
			}
			var names []string
			for _, e := range cl.Elts {
				if kv, ok := e.(*ast.KeyValueExpr); ok {
					k, _ := kv.Key.(*ast.Ident)
					v, _ := kv.Value.(*ast.Ident)
					if k != nil && v != nil && k.Name == v.Name {
						names = append(names, k.Name)
					}
				} else if id, ok := e.(*ast.Ident); ok {
					names = append(names, id.Name)
				}
			}
			j := strings.Join(names, ",")
			if strings.HasSuffix(j, "namespaced,subStatus") {
				okBody = true
			}
			return true
		})
		if !okBody {
			lib.Fatalf("NewDefaultRESTStrategy no longer builds DefaultRESTStrategy{…, namespaced, subStatus}")
		}
		singles := map[string]flags{}
		for _, d := range sf.Decls {
			gd, ok := d.(*ast.GenDecl)
			if !ok || gd.Tok != token.VAR {
				continue
			}
			for _, sp := range gd.Specs {
				vs := sp.(*ast.ValueSpec)
				for i, n := range vs.Names {
					if i < len(vs.Values) {
						if fl, ok := newDefault(vs.Values[i]); ok {
							singles[n.Name] = fl
						}
					}
				}
			}
		}
		// the status strategy must still embed the main one and be built around it by NewResourceREST
		strategyOf := func(e ast.Expr) (flags, string) {
			if fl, ok := newDefault(e); ok {
				return fl, "NewDefaultRESTStrategy"
			}
			name := ""
			switch t := e.(type) {
			case *ast.Ident:
				name = t.Name
			case *ast.SelectorExpr:
				name = t.Sel.Name
			}
			if fl, ok := singles[name]; ok {
				return fl, name
			}
			lib.Fatalf("cannot resolve the strategy expression %T (%s) to NewDefaultRESTStrategy(namespaced, subStatus)", e, name)
			return flags{}, ""
		}
		// ---- option.go: default strategy of the factory
		of := g.ParseFile(optionFile)
		no := lib.FuncDecl(of, "RESTStorageOptionsFactory", "newRESTStorageOptions")
		if no == nil {
			lib.Fatalf("newRESTStorageOptions not found in %s", optionFile)
		}
		var def *flags
		ast.Inspect(no.Body, func(n ast.Node) bool {
			if kv, ok := n.(*ast.KeyValueExpr); ok {
				if k, ok := kv.Key.(*ast.Ident); ok && k.Name == "RESTStrategy" {
					fl, _ := strategyOf(kv.Value)
					def = &fl
				}
			}
			return true
		})
		if def == nil {
			lib.Fatalf("default RESTStrategy not found in newRESTStorageOptions")
		}
		// ---- rest.go: the registered option builders
		rf := g.ParseFile(restFile)
		prov := lib.FuncDecl(rf, "", "NewRESTStorageProvider")
		if prov == nil {
			lib.Fatalf("NewRESTStorageProvider not found in %s", restFile)
		}
		builderOf := map[string]string{} // variable -> builder function
		var registered []string
		ast.Inspect(prov.Body, func(n ast.Node) bool {
			switch t := n.(type) {
			case *ast.AssignStmt:
				if len(t.Rhs) == 1 && len(t.Lhs) >= 1 {
					if c, ok := t.Rhs[0].(*ast.CallExpr); ok {
						if id, ok := c.Fun.(*ast.Ident); ok {
							if v, ok := t.Lhs[0].(*ast.Ident); ok {
								builderOf[v.Name] = id.Name
							}
						}
					}
				}
			case *ast.CallExpr:
				if calleeName(t) == "NewRESTStorageProvider" {
					if len(t.Args) < 2 {
						lib.Fatalf("registry.NewRESTStorageProvider call has %d arguments", len(t.Args))
					}
					for _, a := range t.Args[2:] {
						id, ok := a.(*ast.Ident)
						if !ok || builderOf[id.Name] == "" {
							lib.Fatalf("argument of registry.NewRESTStorageProvider is not a variable assigned from an option builder")
						}
						registered = append(registered, builderOf[id.Name])
					}
					if t.Ellipsis != token.NoPos {
						lib.Fatalf("registry.NewRESTStorageProvider is called with a slice: cannot enumerate the kinds")
					}
				}
			}
			return true
		})
		if len(registered) == 0 {
			lib.Fatalf("no kind is registered in %s", restFile)
		}
		// ---- the Go types
		type shape struct {
			meta, spec, status bool
			statusType         string
		}
		structs := map[string]*ast.StructType{}
		files, _ := filepath.Glob(filepath.Join(g.Repo, typesDir, "*.go"))
		sort.Strings(files)
		for _, f := range files {
			if strings.HasSuffix(f, "_test.go") || strings.Contains(filepath.Base(f), "generated") {
				continue
			}
			rel, _ := filepath.Rel(g.Repo, f)
			pf := g.ParseFile(rel)
			for _, d := range pf.Decls {
				gd, ok := d.(*ast.GenDecl)
				if !ok || gd.Tok != token.TYPE {
					continue
				}
				for _, sp := range gd.Specs {
					ts := sp.(*ast.TypeSpec)
					if st, ok := ts.Type.(*ast.StructType); ok {
						structs[ts.Name.Name] = st
					}
				}
			}
		}
		shapeOf := func(kind string) (shape, int) {
			st := structs[kind]
			if st == nil {
				lib.Fatalf("type %s not found in %s", kind, typesDir)
			}
			var sh shape
			for _, f := range st.Fields.List {
				if len(f.Names) == 0 {
					if se, ok := f.Type.(*ast.SelectorExpr); ok && se.Sel.Name == "ObjectMeta" {
						sh.meta = true
					}
				}
				for _, n := range f.Names {
					if n.Name == "Spec" {
						sh.spec = true
					}
					if n.Name == "Status" {
						sh.status = true
						if id, ok := f.Type.(*ast.Ident); ok {
							sh.statusType = id.Name
						}
					}
				}
			}
			nf := 0
			if sh.status {
				if st := structs[sh.statusType]; st != nil {
					for _, f := range st.Fields.List {
						if len(f.Names) == 0 {
							nf++
						}
						nf += len(f.Names)
					}
				} else {
					lib.Fatalf("status type of %s (%q) is not a struct of %s", kind, sh.statusType, typesDir)
				}
			}
			return sh, nf
		}
		// ---- one record per registered builder
		b2 := func(b bool) string {
			if b {
				return "true"
			}
			return "false"
		}
		var rows []string
		for _, bn := range registered {
			fd := lib.FuncDecl(rf, "", bn)
			if fd == nil {
				lib.Fatalf("option builder %s not found", bn)
			}
			kind, resource := "", ""
			fl := *def
			optSub := false
			nSet, nSub := 0, 0
			ast.Inspect(fd.Body, func(n ast.Node) bool {
				switch t := n.(type) {
				case *ast.KeyValueExpr:
					k, _ := t.Key.(*ast.Ident)
					v, _ := t.Value.(*ast.BasicLit)
					if k != nil && v != nil && v.Kind == token.STRING {
						if k.Name == "Kind" {
							kind = strings.Trim(v.Value, `"`)
						}
						if k.Name == "Resource" {
							resource = strings.Trim(v.Value, `"`)
						}
					}
				case *ast.CallExpr:
					if calleeName(t) == "SetRESTStrategy" {
						if len(t.Args) != 2 {
							lib.Fatalf("%s: SetRESTStrategy with %d arguments", bn, len(t.Args))
						}
						fl, _ = strategyOf(t.Args[1])
						nSet++
					}
				case *ast.AssignStmt:
					for i, l := range t.Lhs {
						if se, ok := l.(*ast.SelectorExpr); ok && se.Sel.Name == "SubStatus" && i < len(t.Rhs) {
							v, ok := boolLit(t.Rhs[i])
							if !ok {
								lib.Fatalf("%s: SubStatus is assigned a non-literal", bn)
							}
							optSub = v
							nSub++
						}
					}
				}
				return true
			})
			if kind == "" || resource == "" || nSet > 1 || nSub > 1 {
				lib.Fatalf("%s: cannot read Kind/Resource (%q/%q) or several SetRESTStrategy/SubStatus statements (%d/%d)", bn, kind, resource, nSet, nSub)
			}
			sh, nf := shapeOf(kind)
			rows = append(rows, fmt.Sprintf("  { kind := %q, resource := %q, namespaced := %s, strategySubStatus := %s, optSubStatus := %s,\n    hasMeta := %s, hasSpec := %s, hasStatus := %s, statusFields := %d }",
				kind, resource, b2(fl.namespaced), b2(fl.subStatus), b2(optSub), b2(sh.meta), b2(sh.spec), b2(sh.status), nf))
		}
		var b strings.Builder
		b.WriteString("namespace KG.Gen.C20\n")
		b.WriteString("/-! kinds registered by " + restFile + " (in registration order) -/\n")
		b.WriteString("structure RegFact where\n  kind : String\n  resource : String\n  namespaced : Bool\n  strategySubStatus : Bool\n  optSubStatus : Bool\n  hasMeta : Bool\n  hasSpec : Bool\n  hasStatus : Bool\n  statusFields : Nat\nderiving DecidableEq, Repr\n\n")
		b.WriteString("def registrations : List RegFact := [\n" + strings.Join(rows, ",\n") + "]\n")
		b.WriteString("\n" + hooksFact(g))
		b.WriteString("end KG.Gen.C20\n")
		g.Emit("C20.lean", b.String())
		_ = os.Stderr
	})
}
