// Regenerates lean/KG/Gen/C20.lean: how each kind of the proxy group is served by the control plane, read from
//
//	pkg/gateway/controlplane/registry/proxy/rest/rest.go         (which option builders are registered; per kind:
//	     Kind/Resource, the strategy handed to SetRESTStrategy, the value assigned to options.SubStatus)
//	staging/.../apiserver-runtime/pkg/registry/strategy.go        (the strategy singletons -> (namespaced, subStatus))
//	staging/.../apiserver-runtime/pkg/registry/option.go          (the factory's default strategy)
//	pkg/apis/proxy/v1alpha1/*.go                                  (does the Go type have ObjectMeta / Spec / Status;
//	     how many fields its Status type has)
//
// A kind added to (or removed from) rest.go changes the list; KG.Props.C20 re-decides, over the regenerated list,
// that every kind served with a status subresource has a Spec and a Status and a main strategy built with
// subStatus=true, and the harness compares the list with the storage map the real code builds at run time.
package main

import (
	"bytes"
	"fmt"
	"go/ast"
	"go/printer"
	"go/token"
	"os"
	"path/filepath"
	"sort"
	"strings"

	"extract/lib"
)

const (
	restFile     = "pkg/gateway/controlplane/registry/proxy/rest/rest.go"
	strategyFile = "staging/src/github.com/kubewharf/apiserver-runtime/pkg/registry/strategy.go"
	optionFile   = "staging/src/github.com/kubewharf/apiserver-runtime/pkg/registry/option.go"
	typesDir     = "pkg/apis/proxy/v1alpha1"
)

type flags struct{ namespaced, subStatus bool }

// positions of the two flags among NewDefaultRESTStrategy's parameters (found by role in main)
var idxNamespaced, idxSubStatus = 0, 1

func boolLit(e ast.Expr) (bool, bool) {
	id, ok := e.(*ast.Ident)
	if !ok || (id.Name != "true" && id.Name != "false") {
		return false, false
	}
	return id.Name == "true", true
}

func calleeName(c *ast.CallExpr) string {
	switch f := c.Fun.(type) {
	case *ast.Ident:
		return f.Name
	case *ast.SelectorExpr:
		return f.Sel.Name
	}
	return ""
}

// newDefault reads NewDefaultRESTStrategy(a, b) with literal arguments.
func newDefault(e ast.Expr) (flags, bool) {
	c, ok := e.(*ast.CallExpr)
	if !ok || calleeName(c) != "NewDefaultRESTStrategy" || len(c.Args) != 2 {
		return flags{}, false
	}
	a, ok1 := boolLit(c.Args[idxNamespaced])
	b, ok2 := boolLit(c.Args[idxSubStatus])
	return flags{a, b}, ok1 && ok2
}

func src(g *lib.Gen, n ast.Node) string {
	var buf bytes.Buffer
	if err := printer.Fprint(&buf, g.Fset(), n); err != nil {
		lib.Fatalf("print: %v", err)
	}
	return strings.Join(strings.Fields(buf.String()), " ")
}

func recvName(g *lib.Gen, fd *ast.FuncDecl) string {
	if fd.Recv == nil || len(fd.Recv.List) != 1 {
		return ""
	}
	rt := fd.Recv.List[0].Type
	if st, ok := rt.(*ast.StarExpr); ok {
		rt = st.X
	}
	return src(g, rt)
}

// constBool: the value of a method whose whole body is `return true` / `return false`.
func constBool(fd *ast.FuncDecl) (bool, bool) {
	if fd == nil || fd.Body == nil || len(fd.Body.List) != 1 {
		return false, false
	}
	rs, ok := fd.Body.List[0].(*ast.ReturnStmt)
	if !ok || len(rs.Results) != 1 {
		return false, false
	}
	return boolLit(rs.Results[0])
}

// hooksFact states what the model and the theorems NEED from the code around PrepareFor…, not how it is spelled:
//   - which hooks (methods) the two strategy types declare: the surface the generic registry can call. Every known
//     hook is tied behaviourally by the harness on both endpoints (it runs the stores' own strategies through
//     rest.BeforeCreate/BeforeUpdate and the real store); a hook of an unknown kind is what has to be noticed;
//   - the VALUE of AllowCreateOnUpdate for each endpoint's update strategy (own declaration or the embedded main
//     strategy's): the model's apiStep takes it from here;
//   - that the status strategy has the main strategy embedded and nothing else (everything it does not declare is the
//     main strategy's);
//   - which members of the generic store NewResourceREST sets (names only), and which the status copy overrides.
//
// Helper functions, local names, comments and the spelling of bodies are free.
func hooksFact(g *lib.Gen) string {
	methods := map[string][]string{}
	decl := map[string]*ast.FuncDecl{}
	var statusFields []string
	var decls []ast.Decl
	pkgFiles, _ := filepath.Glob(filepath.Join(g.Repo, filepath.Dir(strategyFile), "*.go"))
	sort.Strings(pkgFiles)
	for _, f := range pkgFiles {
		if strings.HasSuffix(f, "_test.go") {
			continue
		}
		rel, _ := filepath.Rel(g.Repo, f)
		decls = append(decls, g.ParseFile(rel).Decls...) // a hook may be declared in any file of the package
	}
	for _, d := range decls {
		switch t := d.(type) {
		case *ast.FuncDecl:
			if r := recvName(g, t); r != "" {
				methods[r] = append(methods[r], t.Name.Name)
				decl[r+"."+t.Name.Name] = t
			}
		case *ast.GenDecl:
			if t.Tok != token.TYPE {
				continue
			}
			for _, sp := range t.Specs {
				ts := sp.(*ast.TypeSpec)
				if ts.Name.Name != "DefaultStatusRESTStrategy" {
					continue
				}
				st, ok := ts.Type.(*ast.StructType)
				if !ok {
					lib.Fatalf("DefaultStatusRESTStrategy is not a struct any more")
				}
				for _, f := range st.Fields.List {
					kind := "embedded "
					if len(f.Names) > 0 {
						kind = "field "
					}
					statusFields = append(statusFields, kind+src(g, f.Type))
				}
			}
		}
	}
	for _, t := range []string{"DefaultRESTStrategy", "DefaultStatusRESTStrategy"} {
		if len(methods[t]) == 0 {
			lib.Fatalf("type %s declares no methods in %s", t, strategyFile)
		}
		sort.Strings(methods[t])
	}
	mainACU, ok := constBool(decl["DefaultRESTStrategy.AllowCreateOnUpdate"])
	if !ok {
		lib.Fatalf("DefaultRESTStrategy.AllowCreateOnUpdate is not a constant any more")
	}
	statusACU := mainACU // promoted from the embedded strategy …
	if d := decl["DefaultStatusRESTStrategy.AllowCreateOnUpdate"]; d != nil {
		if statusACU, ok = constBool(d); !ok { // … unless the status strategy declares its own
			lib.Fatalf("DefaultStatusRESTStrategy.AllowCreateOnUpdate is not a constant")
		}
	}
	// NewResourceREST: members of the generic store
	rf := g.ParseFile("staging/src/github.com/kubewharf/apiserver-runtime/pkg/registry/rest.go")
	nr := lib.FuncDecl(rf, "", "NewResourceREST")
	if nr == nil {
		lib.Fatalf("NewResourceREST not found")
	}
	storeHookFields := map[string]bool{}
	for _, f := range strings.Fields("NewFunc NewListFunc DefaultQualifiedResource KeyRootFunc KeyFunc ObjectNameFunc TTLFunc PredicateFunc EnableGarbageCollection DeleteCollectionWorkers Decorator CreateStrategy BeginCreate AfterCreate UpdateStrategy BeginUpdate AfterUpdate DeleteStrategy AfterDelete ReturnDeletedObject ShouldDeleteDuringUpdate ExportStrategy TableConvertor ResetFieldsStrategy Storage StorageVersioner InMemoryVersioner DestroyFunc") {
		storeHookFields[f] = true
	}
	lit := map[string]bool{}
	over := map[string]bool{}
	nLit := 0
	ast.Inspect(nr.Body, func(n ast.Node) bool {
		switch t := n.(type) {
		case *ast.CompositeLit:
			if t.Type != nil && strings.HasSuffix(src(g, t.Type), ".Store") && !strings.HasSuffix(src(g, t.Type), "StatusREST") {
				if strings.Contains(src(g, t.Type), "registry") {
					nLit++
					for _, e := range t.Elts {
						kv, ok := e.(*ast.KeyValueExpr)
						if !ok {
							lib.Fatalf("positional member in the generic store literal")
						}
						lit[src(g, kv.Key)] = true
					}
				}
			}
		case *ast.AssignStmt:
			for _, l := range t.Lhs {
				if se, ok := l.(*ast.SelectorExpr); ok && storeHookFields[se.Sel.Name] {
					if _, ok := se.X.(*ast.Ident); ok {
						over[se.Sel.Name] = true
					}
				}
			}
		}
		return true
	})
	if nLit != 1 {
		lib.Fatalf("expected one generic store literal in NewResourceREST, found %d", nLit)
	}
	keys := func(m map[string]bool) []string {
		var l []string
		for k := range m {
			l = append(l, k)
		}
		sort.Strings(l)
		return l
	}
	var b strings.Builder
	b.WriteString("/-! hooks declared by the strategy types of " + strategyFile + " (method names, sorted) -/\n")
	b.WriteString("def mainStrategyMethods : List String := " + lib.LeanStrList(methods["DefaultRESTStrategy"]) + "\n")
	b.WriteString("def statusStrategyMethods : List String := " + lib.LeanStrList(methods["DefaultStatusRESTStrategy"]) + "\n")
	b.WriteString("def statusStrategyMembers : List String := " + lib.LeanStrList(statusFields) + "\n")
	b.WriteString("/-! AllowCreateOnUpdate() of the update strategy of the main / the status endpoint -/\n")
	fmt.Fprintf(&b, "def mainAllowCreateOnUpdate : Bool := %v\ndef statusAllowCreateOnUpdate : Bool := %v\n", mainACU, statusACU)
	b.WriteString("/-! members of the generic store set by NewResourceREST, and those assigned afterwards (the status copy) -/\n")
	b.WriteString("def storeMembers : List String := " + lib.LeanStrList(keys(lit)) + "\n")
	b.WriteString("def storeMembersAssigned : List String := " + lib.LeanStrList(keys(over)) + "\n")
	return b.String()
}

func main() {
	lib.Main(func(g *lib.Gen) {
		// ---- strategy.go: parameter order of NewDefaultRESTStrategy and the singletons
		sf := g.ParseFile(strategyFile)
		nd := lib.FuncDecl(sf, "", "NewDefaultRESTStrategy")
		if nd == nil {
			lib.Fatalf("NewDefaultRESTStrategy not found in %s", strategyFile)
		}
		// which parameter is "namespaced" and which "subStatus" is found by ROLE, not by name: the struct field that
		// NamespaceScoped() returns is the namespaced one, the only other bool field is the subStatus one, and the
		// constructor's literal says which parameter goes into which field
		var params []string
		for _, f := range nd.Type.Params.List {
			for _, n := range f.Names {
				params = append(params, n.Name)
			}
		}
		var stFields, boolFields []string
		for _, d := range sf.Decls {
			gd, ok := d.(*ast.GenDecl)
			if !ok || gd.Tok != token.TYPE {
				continue
			}
			for _, sp := range gd.Specs {
				ts := sp.(*ast.TypeSpec)
				st, ok := ts.Type.(*ast.StructType)
				if ts.Name.Name != "DefaultRESTStrategy" || !ok {
					continue
				}
				for _, f := range st.Fields.List {
					if len(f.Names) == 0 {
						stFields = append(stFields, "<embedded>")
					}
					for _, n := range f.Names {
						stFields = append(stFields, n.Name)
						if id, ok := f.Type.(*ast.Ident); ok && id.Name == "bool" {
							boolFields = append(boolFields, n.Name)
						}
					}
				}
			}
		}
		nsField := ""
		if ns := lib.FuncDecl(sf, "DefaultRESTStrategy", "NamespaceScoped"); ns != nil && ns.Body != nil && len(ns.Body.List) == 1 {
			if rs, ok := ns.Body.List[0].(*ast.ReturnStmt); ok && len(rs.Results) == 1 {
				if se, ok := rs.Results[0].(*ast.SelectorExpr); ok {
					nsField = se.Sel.Name
				}
			}
		}
		subField := ""
		for _, f := range boolFields {
			if f != nsField {
				if subField != "" {
					lib.Fatalf("DefaultRESTStrategy has more than two bool fields %v: cannot tell which one is the subStatus flag", boolFields)
				}
				subField = f
			}
		}
		if nsField == "" || subField == "" {
			lib.Fatalf("cannot find the namespaced / subStatus fields of DefaultRESTStrategy (NamespaceScoped returns %q, bool fields %v)", nsField, boolFields)
		}
		idxNamespaced, idxSubStatus = -1, -1
		paramIdx := func(e ast.Expr) int {
			if id, ok := e.(*ast.Ident); ok {
				for i, p := range params {
					if p == id.Name {
						return i
					}
				}
			}
			return -1
		}
		ast.Inspect(nd.Body, func(n ast.Node) bool {
			cl, ok := n.(*ast.CompositeLit)
			if !ok || src(g, cl.Type) != "DefaultRESTStrategy" {
				return true
			}
			for i, e := range cl.Elts {
				field, val := "", e
				if kv, ok := e.(*ast.KeyValueExpr); ok {
					field, val = src(g, kv.Key), kv.Value
				} else if i < len(stFields) {
					field = stFields[i]
				}
				switch field {
				case nsField:
					idxNamespaced = paramIdx(val)
				case subField:
					idxSubStatus = paramIdx(val)
				}
			}
			return true
		})
		if idxNamespaced < 0 || idxSubStatus < 0 || len(params) != 2 {
			lib.Fatalf("NewDefaultRESTStrategy(%v) no longer puts one parameter into %s and one into %s", params, nsField, subField)
		}
		singles := map[string]flags{}
		for _, d := range sf.Decls {
			gd, ok := d.(*ast.GenDecl)
			if !ok || gd.Tok != token.VAR {
				continue
			}
			for _, sp := range gd.Specs {
				vs := sp.(*ast.ValueSpec)
				for i, n := range vs.Names {
					if i < len(vs.Values) {
						if fl, ok := newDefault(vs.Values[i]); ok {
							singles[n.Name] = fl
						}
					}
				}
			}
		}
		// the status strategy must still embed the main one and be built around it by NewResourceREST
		strategyOf := func(e ast.Expr) (flags, string) {
			if fl, ok := newDefault(e); ok {
				return fl, "NewDefaultRESTStrategy"
			}
			name := ""
			switch t := e.(type) {
			case *ast.Ident:
				name = t.Name
			case *ast.SelectorExpr:
				name = t.Sel.Name
			}
			if fl, ok := singles[name]; ok {
				return fl, name
			}
			lib.Fatalf("cannot resolve the strategy expression %T (%s) to NewDefaultRESTStrategy(namespaced, subStatus)", e, name)
			return flags{}, ""
		}
		// ---- option.go: default strategy of the factory
		of := g.ParseFile(optionFile)
		no := lib.FuncDecl(of, "RESTStorageOptionsFactory", "newRESTStorageOptions")
		if no == nil {
			lib.Fatalf("newRESTStorageOptions not found in %s", optionFile)
		}
		var def *flags
		ast.Inspect(no.Body, func(n ast.Node) bool {
			if kv, ok := n.(*ast.KeyValueExpr); ok {
				if k, ok := kv.Key.(*ast.Ident); ok && k.Name == "RESTStrategy" {
					fl, _ := strategyOf(kv.Value)
					def = &fl
				}
			}
			return true
		})
		if def == nil {
			lib.Fatalf("default RESTStrategy not found in newRESTStorageOptions")
		}
		// ---- rest.go: the registered option builders
		rf := g.ParseFile(restFile)
		prov := lib.FuncDecl(rf, "", "NewRESTStorageProvider")
		if prov == nil {
			lib.Fatalf("NewRESTStorageProvider not found in %s", restFile)
		}
		builderOf := map[string]string{} // variable -> builder function
		var registered []string
		ast.Inspect(prov.Body, func(n ast.Node) bool {
			switch t := n.(type) {
			case *ast.AssignStmt:
				if len(t.Rhs) == 1 && len(t.Lhs) >= 1 {
					if c, ok := t.Rhs[0].(*ast.CallExpr); ok {
						if id, ok := c.Fun.(*ast.Ident); ok {
							if v, ok := t.Lhs[0].(*ast.Ident); ok {
								builderOf[v.Name] = id.Name
							}
						}
					}
				}
			case *ast.CallExpr:
				if calleeName(t) == "NewRESTStorageProvider" {
					if len(t.Args) < 2 {
						lib.Fatalf("registry.NewRESTStorageProvider call has %d arguments", len(t.Args))
					}
					for _, a := range t.Args[2:] {
						id, ok := a.(*ast.Ident)
						if !ok || builderOf[id.Name] == "" {
							lib.Fatalf("argument of registry.NewRESTStorageProvider is not a variable assigned from an option builder")
						}
						registered = append(registered, builderOf[id.Name])
					}
					if t.Ellipsis != token.NoPos {
						lib.Fatalf("registry.NewRESTStorageProvider is called with a slice: cannot enumerate the kinds")
					}
				}
			}
			return true
		})
		if len(registered) == 0 {
			lib.Fatalf("no kind is registered in %s", restFile)
		}
		// ---- the Go types
		type shape struct {
			meta, spec, status bool
			statusType         string
		}
		structs := map[string]*ast.StructType{}
		files, _ := filepath.Glob(filepath.Join(g.Repo, typesDir, "*.go"))
		sort.Strings(files)
		for _, f := range files {
			if strings.HasSuffix(f, "_test.go") || strings.Contains(filepath.Base(f), "generated") {
				continue
			}
			rel, _ := filepath.Rel(g.Repo, f)
			pf := g.ParseFile(rel)
			for _, d := range pf.Decls {
				gd, ok := d.(*ast.GenDecl)
				if !ok || gd.Tok != token.TYPE {
					continue
				}
				for _, sp := range gd.Specs {
					ts := sp.(*ast.TypeSpec)
					if st, ok := ts.Type.(*ast.StructType); ok {
						structs[ts.Name.Name] = st
					}
				}
			}
		}
		shapeOf := func(kind string) (shape, int) {
			st := structs[kind]
			if st == nil {
				lib.Fatalf("type %s not found in %s", kind, typesDir)
			}
			var sh shape
			for _, f := range st.Fields.List {
				if len(f.Names) == 0 {
					if se, ok := f.Type.(*ast.SelectorExpr); ok && se.Sel.Name == "ObjectMeta" {
						sh.meta = true
					}
				}
				for _, n := range f.Names {
					if n.Name == "Spec" {
						sh.spec = true
					}
					if n.Name == "Status" {
						sh.status = true
						if id, ok := f.Type.(*ast.Ident); ok {
							sh.statusType = id.Name
						}
					}
				}
			}
			nf := 0
			if sh.status {
				if st := structs[sh.statusType]; st != nil {
					for _, f := range st.Fields.List {
						if len(f.Names) == 0 {
							nf++
						}
						nf += len(f.Names)
					}
				} else {
					lib.Fatalf("status type of %s (%q) is not a struct of %s", kind, sh.statusType, typesDir)
				}
			}
			return sh, nf
		}
		// ---- one record per registered builder
		b2 := func(b bool) string {
			if b {
				return "true"
			}
			return "false"
		}
		var rows []string
		for _, bn := range registered {
			fd := lib.FuncDecl(rf, "", bn)
			if fd == nil {
				lib.Fatalf("option builder %s not found", bn)
			}
			kind, resource := "", ""
			fl := *def
			optSub := false
			nSet, nSub := 0, 0
			ast.Inspect(fd.Body, func(n ast.Node) bool {
				switch t := n.(type) {
				case *ast.KeyValueExpr:
					k, _ := t.Key.(*ast.Ident)
					v, _ := t.Value.(*ast.BasicLit)
					if k != nil && v != nil && v.Kind == token.STRING {
						if k.Name == "Kind" {
							kind = strings.Trim(v.Value, `"`)
						}
						if k.Name == "Resource" {
							resource = strings.Trim(v.Value, `"`)
						}
					}
				case *ast.CallExpr:
					if calleeName(t) == "SetRESTStrategy" {
						if len(t.Args) != 2 {
							lib.Fatalf("%s: SetRESTStrategy with %d arguments", bn, len(t.Args))
						}
						fl, _ = strategyOf(t.Args[1])
						nSet++
					}
				case *ast.AssignStmt:
					for i, l := range t.Lhs {
						if se, ok := l.(*ast.SelectorExpr); ok && se.Sel.Name == "SubStatus" && i < len(t.Rhs) {
							v, ok := boolLit(t.Rhs[i])
							if !ok {
								lib.Fatalf("%s: SubStatus is assigned a non-literal", bn)
							}
							optSub = v
							nSub++
						}
					}
				}
				return true
			})
			if kind == "" || resource == "" || nSet > 1 || nSub > 1 {
				lib.Fatalf("%s: cannot read Kind/Resource (%q/%q) or several SetRESTStrategy/SubStatus statements (%d/%d)", bn, kind, resource, nSet, nSub)
			}
			sh, nf := shapeOf(kind)
			rows = append(rows, fmt.Sprintf("  { kind := %q, resource := %q, namespaced := %s, strategySubStatus := %s, optSubStatus := %s,\n    hasMeta := %s, hasSpec := %s, hasStatus := %s, statusFields := %d }",
				kind, resource, b2(fl.namespaced), b2(fl.subStatus), b2(optSub), b2(sh.meta), b2(sh.spec), b2(sh.status), nf))
		}
		var b strings.Builder
		b.WriteString("namespace KG.Gen.C20\n")
		b.WriteString("/-! kinds registered by " + restFile + " (in registration order) -/\n")
		b.WriteString("structure RegFact where\n  kind : String\n  resource : String\n  namespaced : Bool\n  strategySubStatus : Bool\n  optSubStatus : Bool\n  hasMeta : Bool\n  hasSpec : Bool\n  hasStatus : Bool\n  statusFields : Nat\nderiving DecidableEq, Repr\n\n")
		b.WriteString("def registrations : List RegFact := [\n" + strings.Join(rows, ",\n") + "]\n")
		b.WriteString("\n" + hooksFact(g))
		b.WriteString("end KG.Gen.C20\n")
		g.Emit("C20.lean", b.String())
		_ = os.Stderr
	})
}
