// A small evaluator for pure Go predicates of one byte (go/ast only, nothing of the repo is executed): enough to compute,
// for each of the 256 byte values, what `shouldEscape(b)` / `legalHeaderByte(b)` answer — whatever way the source spells the
// set (lookup table, range tests, switch, strings.IndexByte over a literal, helpers of the same file). The regenerated fact is
// the SET of bytes, not the spelling. Anything outside this fragment makes the evaluation fail (the extractor then fails).
package main

import (
	"fmt"
	"go/ast"
	"go/token"
	"strconv"
	"strings"
)

type value struct {
	kind string // "int" | "bool" | "string"
	i    int64
	b    bool
	s    string
}

type evaluator struct {
	file  *ast.File
	depth int
}

type env map[string]value

func (e *evaluator) fail(format string, a ...interface{}) error { return fmt.Errorf(format, a...) }

// callFunc evaluates a function of the same file on the given arguments.
func (e *evaluator) callFunc(name string, args []value) (value, error) {
	if e.depth > 4 {
		return value{}, e.fail("call depth")
	}
	var fd *ast.FuncDecl
	for _, d := range e.file.Decls {
		if f, ok := d.(*ast.FuncDecl); ok && f.Recv == nil && f.Name.Name == name {
			fd = f
		}
	}
	if fd == nil || fd.Body == nil {
		return value{}, e.fail("function %s not in this file", name)
	}
	en := env{}
	i := 0
	for _, fl := range fd.Type.Params.List {
		for _, n := range fl.Names {
			if i >= len(args) {
				return value{}, e.fail("arity of %s", name)
			}
			en[n.Name] = args[i]
			i++
		}
	}
	e.depth++
	defer func() { e.depth-- }()
	v, ret, err := e.block(fd.Body.List, en)
	if err != nil {
		return value{}, err
	}
	if !ret {
		return value{}, e.fail("%s does not return", name)
	}
	return v, nil
}

func (e *evaluator) block(stmts []ast.Stmt, en env) (value, bool, error) {
	for _, st := range stmts {
		switch s := st.(type) {
		case *ast.ReturnStmt:
			if len(s.Results) != 1 {
				return value{}, false, e.fail("return with %d results", len(s.Results))
			}
			v, err := e.expr(s.Results[0], en)
			return v, true, err
		case *ast.IfStmt:
			if s.Init != nil {
				return value{}, false, e.fail("if with init")
			}
			c, err := e.expr(s.Cond, en)
			if err != nil {
				return value{}, false, err
			}
			if c.kind != "bool" {
				return value{}, false, e.fail("non-bool condition")
			}
			if c.b {
				if v, ret, err := e.block(s.Body.List, en); err != nil || ret {
					return v, ret, err
				}
			} else if s.Else != nil {
				var list []ast.Stmt
				switch el := s.Else.(type) {
				case *ast.BlockStmt:
					list = el.List
				default:
					list = []ast.Stmt{el}
				}
				if v, ret, err := e.block(list, en); err != nil || ret {
					return v, ret, err
				}
			}
		case *ast.SwitchStmt:
			if s.Init != nil {
				return value{}, false, e.fail("switch with init")
			}
			var tag *value
			if s.Tag != nil {
				t, err := e.expr(s.Tag, en)
				if err != nil {
					return value{}, false, err
				}
				tag = &t
			}
			var chosen, deflt *ast.CaseClause
			for _, c := range s.Body.List {
				cc := c.(*ast.CaseClause)
				if cc.List == nil {
					deflt = cc
					continue
				}
				for _, x := range cc.List {
					v, err := e.expr(x, en)
					if err != nil {
						return value{}, false, err
					}
					hit := false
					if tag == nil {
						hit = v.kind == "bool" && v.b
					} else {
						hit = v.kind == tag.kind && v.i == tag.i && v.s == tag.s && v.b == tag.b
					}
					if hit && chosen == nil {
						chosen = cc
					}
				}
				if chosen != nil {
					break
				}
			}
			if chosen == nil {
				chosen = deflt
			}
			if chosen != nil {
				for _, b := range chosen.Body {
					if _, ok := b.(*ast.BranchStmt); ok {
						return value{}, false, e.fail("branch statement in switch")
					}
				}
				if v, ret, err := e.block(chosen.Body, en); err != nil || ret {
					return v, ret, err
				}
			}
		default:
			return value{}, false, e.fail("unsupported statement %T", st)
		}
	}
	return value{}, false, nil
}

// pkgValue finds a package-level const / var of the file.
func (e *evaluator) pkgValue(name string) (ast.Expr, bool) {
	for _, d := range e.file.Decls {
		gd, ok := d.(*ast.GenDecl)
		if !ok || (gd.Tok != token.CONST && gd.Tok != token.VAR) {
			continue
		}
		for _, sp := range gd.Specs {
			vs := sp.(*ast.ValueSpec)
			for i, n := range vs.Names {
				if n.Name == name && i < len(vs.Values) {
					return vs.Values[i], true
				}
			}
		}
	}
	return nil, false
}

func intv(i int64) value  { return value{kind: "int", i: i} }
func boolv(b bool) value  { return value{kind: "bool", b: b} }
func strv(s string) value { return value{kind: "string", s: s} }

// table evaluates a composite literal of an array / slice of bool or integers into index -> value.
func (e *evaluator) table(x ast.Expr, en env) (map[int64]value, int64, error) {
	cl, ok := x.(*ast.CompositeLit)
	if !ok {
		return nil, 0, e.fail("not a composite literal")
	}
	at, ok := cl.Type.(*ast.ArrayType)
	if !ok {
		return nil, 0, e.fail("not an array literal")
	}
	m := map[int64]value{}
	next := int64(0)
	for _, el := range cl.Elts {
		var idx int64
		val := el
		if kv, ok := el.(*ast.KeyValueExpr); ok {
			k, err := e.expr(kv.Key, en)
			if err != nil || k.kind != "int" {
				return nil, 0, e.fail("table key")
			}
			idx, val = k.i, kv.Value
		} else {
			idx = next
		}
		v, err := e.expr(val, en)
		if err != nil {
			return nil, 0, err
		}
		m[idx] = v
		next = idx + 1
	}
	n := next
	for k := range m {
		if k+1 > n {
			n = k + 1
		}
	}
	if at.Len != nil {
		if l, err := e.expr(at.Len, en); err == nil && l.kind == "int" {
			n = l.i
		} else if _, ok := at.Len.(*ast.Ellipsis); !ok {
			return nil, 0, e.fail("array length")
		}
	}
	return m, n, nil
}

func (e *evaluator) expr(x ast.Expr, en env) (value, error) {
	switch t := x.(type) {
	case *ast.ParenExpr:
		return e.expr(t.X, en)
	case *ast.BasicLit:
		switch t.Kind {
		case token.CHAR:
			r, _, _, err := strconv.UnquoteChar(t.Value[1:len(t.Value)-1], '\'')
			if err != nil {
				return value{}, err
			}
			return intv(int64(r)), nil
		case token.INT:
			n, err := strconv.ParseInt(t.Value, 0, 64)
			return intv(n), err
		case token.STRING:
			s, err := strconv.Unquote(t.Value)
			return strv(s), err
		}
	case *ast.Ident:
		switch t.Name {
		case "true":
			return boolv(true), nil
		case "false":
			return boolv(false), nil
		}
		if v, ok := en[t.Name]; ok {
			return v, nil
		}
		if pv, ok := e.pkgValue(t.Name); ok {
			if _, isLit := pv.(*ast.CompositeLit); !isLit {
				return e.expr(pv, env{})
			}
		}
		return value{}, e.fail("unknown identifier %s", t.Name)
	case *ast.UnaryExpr:
		v, err := e.expr(t.X, en)
		if err != nil {
			return value{}, err
		}
		switch {
		case t.Op == token.NOT && v.kind == "bool":
			return boolv(!v.b), nil
		case t.Op == token.SUB && v.kind == "int":
			return intv(-v.i), nil
		}
	case *ast.BinaryExpr:
		l, err := e.expr(t.X, en)
		if err != nil {
			return value{}, err
		}
		if l.kind == "bool" && (t.Op == token.LOR || t.Op == token.LAND) {
			if (t.Op == token.LOR && l.b) || (t.Op == token.LAND && !l.b) {
				return l, nil
			}
			return e.expr(t.Y, en)
		}
		r, err := e.expr(t.Y, en)
		if err != nil {
			return value{}, err
		}
		if l.kind == "int" && r.kind == "int" {
			switch t.Op {
			case token.EQL:
				return boolv(l.i == r.i), nil
			case token.NEQ:
				return boolv(l.i != r.i), nil
			case token.LSS:
				return boolv(l.i < r.i), nil
			case token.LEQ:
				return boolv(l.i <= r.i), nil
			case token.GTR:
				return boolv(l.i > r.i), nil
			case token.GEQ:
				return boolv(l.i >= r.i), nil
			case token.ADD:
				return intv(l.i + r.i), nil
			case token.SUB:
				return intv(l.i - r.i), nil
			case token.AND:
				return intv(l.i & r.i), nil
			case token.OR:
				return intv(l.i | r.i), nil
			case token.SHR:
				return intv(l.i >> uint(r.i)), nil
			case token.SHL:
				return intv(l.i << uint(r.i)), nil
			}
		}
		if l.kind == "bool" && r.kind == "bool" {
			switch t.Op {
			case token.EQL:
				return boolv(l.b == r.b), nil
			case token.NEQ:
				return boolv(l.b != r.b), nil
			}
		}
		if l.kind == "string" && r.kind == "string" && t.Op == token.ADD {
			return strv(l.s + r.s), nil
		}
	case *ast.IndexExpr:
		idx, err := e.expr(t.Index, en)
		if err != nil || idx.kind != "int" {
			return value{}, e.fail("index")
		}
		if id, ok := t.X.(*ast.Ident); ok {
			if pv, ok := e.pkgValue(id.Name); ok {
				if _, isLit := pv.(*ast.CompositeLit); isLit {
					m, n, err := e.table(pv, env{})
					if err != nil {
						return value{}, err
					}
					if idx.i < 0 || idx.i >= n {
						return value{}, e.fail("index %d out of range of %s", idx.i, id.Name)
					}
					if v, ok := m[idx.i]; ok {
						return v, nil
					}
					return boolv(false), nil // zero value (tables of bool only)
				}
			}
		}
		s, err := e.expr(t.X, en)
		if err == nil && s.kind == "string" && idx.i >= 0 && idx.i < int64(len(s.s)) {
			return intv(int64(s.s[idx.i])), nil
		}
		return value{}, e.fail("unsupported index expression")
	case *ast.CallExpr:
		var args []value
		evalArgs := func() error {
			for _, a := range t.Args {
				v, err := e.expr(a, en)
				if err != nil {
					return err
				}
				args = append(args, v)
			}
			return nil
		}
		switch f := t.Fun.(type) {
		case *ast.Ident:
			switch f.Name {
			case "len":
				if len(t.Args) == 1 {
					if id, ok := t.Args[0].(*ast.Ident); ok {
						if pv, ok := e.pkgValue(id.Name); ok {
							if _, isLit := pv.(*ast.CompositeLit); isLit {
								_, n, err := e.table(pv, env{})
								return intv(n), err
							}
						}
					}
					v, err := e.expr(t.Args[0], en)
					if err == nil && v.kind == "string" {
						return intv(int64(len(v.s))), nil
					}
				}
				return value{}, e.fail("len")
			case "int", "byte", "uint8", "rune", "int32", "uint", "int64", "uint32":
				if err := evalArgs(); err != nil || len(args) != 1 || args[0].kind != "int" {
					return value{}, e.fail("conversion")
				}
				v := args[0].i
				if f.Name == "byte" || f.Name == "uint8" {
					v &= 0xff
				}
				return intv(v), nil
			case "string":
				if err := evalArgs(); err != nil || len(args) != 1 {
					return value{}, e.fail("conversion")
				}
				if args[0].kind == "int" {
					return strv(string(rune(args[0].i))), nil
				}
				return args[0], nil
			}
			if err := evalArgs(); err != nil {
				return value{}, err
			}
			return e.callFunc(f.Name, args)
		case *ast.SelectorExpr:
			pkg, ok := f.X.(*ast.Ident)
			if !ok || (pkg.Name != "strings" && pkg.Name != "bytes") {
				return value{}, e.fail("unsupported call")
			}
			if err := evalArgs(); err != nil {
				return value{}, err
			}
			if len(args) == 2 && args[0].kind == "string" {
				switch {
				case (f.Sel.Name == "IndexByte" || f.Sel.Name == "IndexRune") && args[1].kind == "int":
					if f.Sel.Name == "IndexByte" {
						return intv(int64(strings.IndexByte(args[0].s, byte(args[1].i)))), nil
					}
					return intv(int64(strings.IndexRune(args[0].s, rune(args[1].i)))), nil
				case f.Sel.Name == "ContainsRune" && args[1].kind == "int":
					return boolv(strings.ContainsRune(args[0].s, rune(args[1].i))), nil
				case f.Sel.Name == "Contains" && args[1].kind == "string":
					return boolv(strings.Contains(args[0].s, args[1].s)), nil
				case f.Sel.Name == "Index" && args[1].kind == "string":
					return intv(int64(strings.Index(args[0].s, args[1].s))), nil
				}
			}
		}
	}
	return value{}, e.fail("unsupported expression %T", x)
}

// byteSet evaluates a predicate `func name(b byte) bool` of the file on all 256 bytes.
func byteSet(file *ast.File, name string) ([]int, error) {
	e := &evaluator{file: file}
	var set []int
	for b := 0; b < 256; b++ {
		v, err := e.callFunc(name, []value{intv(int64(b))})
		if err != nil {
			return nil, fmt.Errorf("%s(%d): %v", name, b, err)
		}
		if v.kind != "bool" {
			return nil, fmt.Errorf("%s does not return a bool", name)
		}
		if v.b {
			set = append(set, b)
		}
	}
	return set, nil
}
