// Regenerates lean/KG/Gen/C02.lean from /repo's current sources. The facts are SEMANTIC (what the theorems need), found by role
// and by evaluation rather than by spelling:
//   - the prefix of the header names WrapRequest deletes before it writes its own (pkg/transport/dynamic_impersonate.go),
//   - the SET of bytes the extra-key escape %-encodes: the predicate its guarding `if` calls, evaluated on all 256 bytes (eval.go),
//   - who can answer an impersonation check: the functions called by the method that builds the proxy authorizer (import paths),
//   - that CreateProxyConfig wires that authorizer for the config and the cluster manager of the proxy handler chain.
// Everything else the model assumes about these files (the value check and its place in WrapRequest, the UTF-8 check of
// buildImpersonationRequests, the filter order, which authorizer the filter is handed) is tied BEHAVIOURALLY by the harness,
// which runs the real chain builder, the real ApplyTo path and the real transport.
package main

import (
	"fmt"
	"go/ast"
	"go/token"
	"sort"
	"strconv"
	"strings"

	"extract/lib"
)

func byteList(s string) string {
	parts := make([]string, len(s))
	for i := 0; i < len(s); i++ {
		parts[i] = strconv.Itoa(int(s[i]))
	}
	return "[" + strings.Join(parts, ", ") + "]"
}

func main() {
	lib.Main(func(g *lib.Gen) {
		const tfile = "pkg/transport/dynamic_impersonate.go"
		var b strings.Builder
		b.WriteString("namespace KG.Gen.C02\n")
		f := g.ParseFile(tfile)
		consts := g.Consts(tfile)

		// resolve an expression that denotes a string: literal, constant of the file, or a constant of a dependency that the
		// impersonation protocol fixes (k8s.io/client-go/transport, k8s.io/api/authentication/v1: same three values)
		known := map[string]string{"ImpersonateUserHeader": "Impersonate-User", "ImpersonateGroupHeader": "Impersonate-Group",
			"ImpersonateUserExtraHeaderPrefix": "Impersonate-Extra-"}
		strOf := func(e ast.Expr) (string, bool) {
			switch x := e.(type) {
			case *ast.BasicLit:
				if x.Kind == token.STRING {
					s, err := strconv.Unquote(x.Value)
					return s, err == nil
				}
			case *ast.Ident:
				if v, ok := consts[x.Name]; ok {
					s, err := strconv.Unquote(v.ExactString())
					return s, err == nil
				}
			case *ast.SelectorExpr:
				if s, ok := known[x.Sel.Name]; ok {
					return s, true
				}
			}
			return "", false
		}

		wr := lib.FuncDecl(f, "dynamicImpersonatingRoundTripper", "WrapRequest")
		if wr == nil { // found by role: the method named WrapRequest of any receiver (the UpgradeRequestRoundTripper interface fixes the name)
			for _, d := range f.Decls {
				if fd, ok := d.(*ast.FuncDecl); ok && fd.Recv != nil && fd.Name.Name == "WrapRequest" {
					wr = fd
				}
			}
		}
		if wr == nil {
			lib.Fatalf("no WrapRequest method in %s", tfile)
		}

		// --- the family prefix, by role: the X of `strings.HasPrefix(<canonical name>, X)` that guards a `delete(` of a header
		prefix, found := "", false
		ast.Inspect(wr, func(n ast.Node) bool {
			is, ok := n.(*ast.IfStmt)
			if !ok {
				return true
			}
			deletes := false
			ast.Inspect(is.Body, func(m ast.Node) bool {
				if c, ok := m.(*ast.CallExpr); ok {
					if id, ok := c.Fun.(*ast.Ident); ok && id.Name == "delete" {
						deletes = true
					}
					if sel, ok := c.Fun.(*ast.SelectorExpr); ok && sel.Sel.Name == "Del" {
						deletes = true
					}
				}
				return true
			})
			if !deletes {
				return true
			}
			ast.Inspect(is.Cond, func(m ast.Node) bool {
				if c, ok := m.(*ast.CallExpr); ok && len(c.Args) == 2 {
					if sel, ok := c.Fun.(*ast.SelectorExpr); ok && sel.Sel.Name == "HasPrefix" {
						if s, ok := strOf(c.Args[1]); ok {
							prefix, found = s, true
						}
					}
				}
				return true
			})
			return true
		})
		if !found {
			lib.Fatalf("WrapRequest: no `if strings.HasPrefix(name, <prefix>) { delete … }` found")
		}
		fmt.Fprintf(&b, "/-- the prefix of the header names `WrapRequest` deletes before writing its own (%s): %q -/\n", tfile, prefix)
		fmt.Fprintf(&b, "def impersonateHeaderPrefix : List UInt8 := %s\n", byteList(prefix))

		// --- the SET of bytes the extra-key escape %-encodes, by role and by evaluation (not by spelling):
		//     escape function = the same-file function applied to the key in `Add(<extra prefix> + escape(k), v)`;
		//     predicate = the same-file `func(byte) bool` its first guarding `if` calls; evaluated on all 256 bytes.
		sameFile := func(name string) *ast.FuncDecl { return lib.FuncDecl(f, "", name) }
		escName := ""
		ast.Inspect(wr, func(n ast.Node) bool {
			be, ok := n.(*ast.BinaryExpr)
			if !ok || be.Op != token.ADD {
				return true
			}
			if s, ok := strOf(be.X); !ok || s != "Impersonate-Extra-" {
				return true
			}
			if c, ok := be.Y.(*ast.CallExpr); ok {
				if id, ok := c.Fun.(*ast.Ident); ok && sameFile(id.Name) != nil {
					escName = id.Name
				}
			}
			return true
		})
		if escName == "" {
			lib.Fatalf("WrapRequest: no `<Impersonate-Extra- prefix> + escape(key)` with a helper of this file found")
		}
		predName := ""
		ast.Inspect(sameFile(escName), func(n ast.Node) bool {
			is, ok := n.(*ast.IfStmt)
			if !ok || predName != "" {
				return true
			}
			ast.Inspect(is.Cond, func(m ast.Node) bool {
				if c, ok := m.(*ast.CallExpr); ok && len(c.Args) == 1 && predName == "" {
					if id, ok := c.Fun.(*ast.Ident); ok {
						if fd := sameFile(id.Name); fd != nil && fd.Type.Results != nil && len(fd.Type.Results.List) == 1 {
							if rt, ok := fd.Type.Results.List[0].Type.(*ast.Ident); ok && rt.Name == "bool" {
								predName = id.Name
							}
						}
					}
				}
				return true
			})
			return true
		})
		if predName == "" {
			lib.Fatalf("%s: no `if <predicate of this file>(byte)` found", escName)
		}
		set, err := byteSet(f, predName)
		if err != nil {
			lib.Fatalf("cannot evaluate %s on every byte: %v", predName, err)
		}
		ls := make([]string, len(set))
		for i, x := range set {
			ls[i] = strconv.Itoa(x)
		}
		fmt.Fprintf(&b, "/-- the bytes of an extra key that `%s` %%-encodes: `%s(b)` evaluated from the source for b = 0..255 -/\n", escName, predName)
		fmt.Fprintf(&b, "def escapedBytes : List Nat := [%s]\n", strings.Join(ls, ", "))

		// --- who can answer an impersonation check (what no behavioural stream can exhaust): every function whose result can
		//     become the authorizer `AuthorizerConfig.New` returns, named by import path (not by import alias)
		af := g.ParseFile("pkg/gateway/proxy/authorizer/config.go")
		imports := map[string]string{}
		for _, im := range af.Imports {
			path, _ := strconv.Unquote(im.Path.Value)
			name := path[strings.LastIndex(path, "/")+1:]
			if im.Name != nil {
				name = im.Name.Name
			}
			imports[name] = path
		}
		var an *ast.FuncDecl
		for _, d := range af.Decls { // by role: the method that returns (authorizer.Authorizer, …)
			fd, ok := d.(*ast.FuncDecl)
			if !ok || fd.Recv == nil || fd.Type.Results == nil || len(fd.Type.Results.List) == 0 {
				continue
			}
			if sel, ok := fd.Type.Results.List[0].Type.(*ast.SelectorExpr); ok && sel.Sel.Name == "Authorizer" {
				an = fd
			}
		}
		if an == nil {
			lib.Fatalf("no method returning an authorizer.Authorizer in pkg/gateway/proxy/authorizer/config.go")
		}
		ctorSet := map[string]bool{}
		ast.Inspect(an, func(n ast.Node) bool {
			call, ok := n.(*ast.CallExpr)
			if !ok {
				return true
			}
			switch fn := call.Fun.(type) {
			case *ast.SelectorExpr:
				if x, ok := fn.X.(*ast.Ident); ok {
					if p, ok := imports[x.Name]; ok {
						ctorSet[p+"."+fn.Sel.Name] = true
					} else {
						ctorSet["(method)."+fn.Sel.Name] = true
					}
				} else {
					ctorSet["(method)."+fn.Sel.Name] = true
				}
			case *ast.Ident:
				ctorSet["(local)."+fn.Name] = true
			}
			return true
		})
		var ctors []string
		for c := range ctorSet {
			ctors = append(ctors, c)
		}
		sort.Strings(ctors)
		fmt.Fprintf(&b, "/-- every function called by the method of pkg/gateway/proxy/authorizer/config.go that returns the authorizer (import paths) -/\n")
		fmt.Fprintf(&b, "def authorizerConstructors : List String := %s\n", lib.LeanStrList(ctors))

		// --- CreateProxyConfig wires that authorizer for the SAME config and the SAME cluster manager the handler chain uses
		pf := g.ParseFile("cmd/kube-gateway/app/proxy.go")
		exprString := func(e ast.Expr) string {
			var sb strings.Builder
			var w func(e ast.Expr)
			w = func(e ast.Expr) {
				switch x := e.(type) {
				case *ast.Ident:
					sb.WriteString(x.Name)
				case *ast.SelectorExpr:
					w(x.X)
					sb.WriteString("." + x.Sel.Name)
				case *ast.UnaryExpr:
					sb.WriteString(x.Op.String())
					w(x.X)
				default:
					sb.WriteString("?")
				}
			}
			w(e)
			return sb.String()
		}
		var chainCfg, chainOpts, applyCfg, applyMgr, chainMgr string
		ast.Inspect(pf, func(n ast.Node) bool {
			switch x := n.(type) {
			case *ast.AssignStmt: // <cfg>.BuildHandlerChainFunc = <builder>(<opts>)
				if len(x.Lhs) == 1 && len(x.Rhs) == 1 {
					if sel, ok := x.Lhs[0].(*ast.SelectorExpr); ok && sel.Sel.Name == "BuildHandlerChainFunc" {
						chainCfg = exprString(sel.X)
						if c, ok := x.Rhs[0].(*ast.CallExpr); ok && len(c.Args) == 1 {
							chainOpts = exprString(c.Args[0])
						}
					}
				}
			case *ast.CallExpr: // <o>.Authorization.ApplyTo(&<cfg>, <manager>)
				if sel, ok := x.Fun.(*ast.SelectorExpr); ok && sel.Sel.Name == "ApplyTo" && len(x.Args) == 2 {
					if r, ok := sel.X.(*ast.SelectorExpr); ok && r.Sel.Name == "Authorization" {
						applyCfg = strings.TrimPrefix(exprString(x.Args[0]), "&")
						applyMgr = exprString(x.Args[1])
					}
				}
			}
			return true
		})
		ast.Inspect(pf, func(n ast.Node) bool { // <opts> := &T{ <manager field>: <manager>, … }: the only field of a manager-like value
			as, ok := n.(*ast.AssignStmt)
			if !ok || len(as.Lhs) != 1 || len(as.Rhs) != 1 || exprString(as.Lhs[0]) != chainOpts || chainOpts == "" {
				return true
			}
			ast.Inspect(as.Rhs[0], func(m ast.Node) bool {
				if kv, ok := m.(*ast.KeyValueExpr); ok && exprString(kv.Value) == applyMgr {
					chainMgr = exprString(kv.Value)
				}
				return true
			})
			return true
		})
		same := chainCfg != "" && chainCfg == applyCfg && applyMgr != "" && applyMgr == chainMgr
		fmt.Fprintf(&b, "/-- in `CreateProxyConfig`: `Authorization.ApplyTo(&C, M)` is called for the config C whose `BuildHandlerChainFunc` is the proxy\n    chain (%q) and with the cluster manager M the chain's options carry (%q) -/\n", chainCfg, applyMgr)
		fmt.Fprintf(&b, "def authorizerWiredForTheChain : Bool := %v\n", same)

		b.WriteString("end KG.Gen.C02\n")
		g.Emit("C02.lean", b.String())
	})
}
