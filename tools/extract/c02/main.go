// Regenerates lean/KG/Gen/C02.lean from /repo's current sources:
//   - the legal header-name byte table `legalHeaderKeyBytes` and the constant `impersonateHeaderPrefix`
//     of pkg/transport/dynamic_impersonate.go,
//   - the order in which buildProxyHandlerChainFunc (cmd/kube-gateway/app/proxy.go) wraps the filters,
//   - which headers WithNoLoggingImpersonation deletes (shape fact of pkg/gateway/endpoints/filters/impersonation.go).
package main

import (
	"fmt"
	"go/ast"
	"go/token"
	"sort"
	"strconv"
	"strings"

	"extract/lib"
)

func byteList(s string) string {
	parts := make([]string, len(s))
	for i := 0; i < len(s); i++ {
		parts[i] = strconv.Itoa(int(s[i]))
	}
	return "[" + strings.Join(parts, ", ") + "]"
}

func main() {
	lib.Main(func(g *lib.Gen) {
		const tfile = "pkg/transport/dynamic_impersonate.go"
		var b strings.Builder
		b.WriteString("namespace KG.Gen.C02\n")

		// --- impersonateHeaderPrefix
		pv := g.Const(tfile, "impersonateHeaderPrefix")
		prefix, err := strconv.Unquote(pv.ExactString())
		if err != nil {
			lib.Fatalf("impersonateHeaderPrefix is not a string constant: %v", pv)
		}
		fmt.Fprintf(&b, "/-- `impersonateHeaderPrefix` of %s: %q -/\n", tfile, prefix)
		fmt.Fprintf(&b, "def impersonateHeaderPrefix : List UInt8 := %s\n", byteList(prefix))

		// --- legalHeaderKeyBytes = [N]bool{ 'c': true, ... }
		f := g.ParseFile(tfile)
		var lit *ast.CompositeLit
		for _, d := range f.Decls {
			gd, ok := d.(*ast.GenDecl)
			if !ok || gd.Tok != token.VAR {
				continue
			}
			for _, sp := range gd.Specs {
				vs := sp.(*ast.ValueSpec)
				for i, n := range vs.Names {
					if n.Name == "legalHeaderKeyBytes" && i < len(vs.Values) {
						lit, _ = vs.Values[i].(*ast.CompositeLit)
					}
				}
			}
		}
		if lit == nil {
			lib.Fatalf("var legalHeaderKeyBytes = [...]bool{...} not found in %s", tfile)
		}
		at, ok := lit.Type.(*ast.ArrayType)
		if !ok || at.Len == nil {
			lib.Fatalf("legalHeaderKeyBytes is not a fixed-size array literal")
		}
		ln, ok := at.Len.(*ast.BasicLit)
		if !ok || ln.Kind != token.INT {
			lib.Fatalf("legalHeaderKeyBytes: array length is not an integer literal")
		}
		if id, ok := at.Elt.(*ast.Ident); !ok || id.Name != "bool" {
			lib.Fatalf("legalHeaderKeyBytes: element type is not bool")
		}
		var legal []int
		for _, e := range lit.Elts {
			kv, ok := e.(*ast.KeyValueExpr)
			if !ok {
				lib.Fatalf("legalHeaderKeyBytes: positional element, expected 'c': true")
			}
			k, ok := kv.Key.(*ast.BasicLit)
			if !ok || (k.Kind != token.CHAR && k.Kind != token.INT) {
				lib.Fatalf("legalHeaderKeyBytes: key is not a char/int literal")
			}
			var idx int
			if k.Kind == token.CHAR {
				r, _, _, err := strconv.UnquoteChar(k.Value[1:len(k.Value)-1], '\'')
				if err != nil {
					lib.Fatalf("legalHeaderKeyBytes: bad char literal %s", k.Value)
				}
				idx = int(r)
			} else {
				n, err := strconv.ParseInt(k.Value, 0, 32)
				if err != nil {
					lib.Fatalf("legalHeaderKeyBytes: bad int literal %s", k.Value)
				}
				idx = int(n)
			}
			v, ok := kv.Value.(*ast.Ident)
			if !ok || (v.Name != "true" && v.Name != "false") {
				lib.Fatalf("legalHeaderKeyBytes: value is not true/false")
			}
			if v.Name == "true" {
				legal = append(legal, idx)
			}
		}
		sort.Ints(legal)
		ls := make([]string, len(legal))
		for i, x := range legal {
			ls[i] = strconv.Itoa(x)
		}
		fmt.Fprintf(&b, "/-- length of the array `legalHeaderKeyBytes` (`legalHeaderByte b` is `int(b) < len && table[b]`) -/\n")
		fmt.Fprintf(&b, "def legalHeaderKeyBytesLen : Nat := %s\n", ln.Value)
		fmt.Fprintf(&b, "/-- indices of `legalHeaderKeyBytes` that are `true`, ascending -/\n")
		fmt.Fprintf(&b, "def legalHeaderKeyBytes : List Nat := [%s]\n", strings.Join(ls, ", "))

		// --- shouldEscape: `!legalHeaderByte(b) || b == '%'`
		se := lib.FuncDecl(f, "", "shouldEscape")
		if se == nil || len(se.Body.List) != 1 {
			lib.Fatalf("shouldEscape: expected a single return statement")
		}
		escPercent := false
		ast.Inspect(se, func(n ast.Node) bool {
			if be, ok := n.(*ast.BinaryExpr); ok && be.Op == token.EQL {
				if l, ok := be.Y.(*ast.BasicLit); ok && l.Value == "'%'" {
					escPercent = true
				}
			}
			return true
		})
		fmt.Fprintf(&b, "/-- `shouldEscape` also escapes '%%' itself (`|| b == '%%'`) -/\n")
		fmt.Fprintf(&b, "def escapesPercent : Bool := %v\n", escPercent)
		// every conjunct `'X' <= b && b <= 'Y'` of the disjunction: byte ranges that are escaped although legal
		var ranges []string
		charOf := func(e ast.Expr) (int, bool) {
			l, ok := e.(*ast.BasicLit)
			if !ok || l.Kind != token.CHAR {
				return 0, false
			}
			r, _, _, err := strconv.UnquoteChar(l.Value[1:len(l.Value)-1], '\'')
			if err != nil {
				return 0, false
			}
			return int(r), true
		}
		ast.Inspect(se, func(n ast.Node) bool {
			be, ok := n.(*ast.BinaryExpr)
			if !ok || be.Op != token.LAND {
				return true
			}
			l, ok1 := be.X.(*ast.BinaryExpr)
			r, ok2 := be.Y.(*ast.BinaryExpr)
			if !ok1 || !ok2 || l.Op != token.LEQ || r.Op != token.LEQ {
				return true
			}
			lo, okl := charOf(l.X)
			hi, okh := charOf(r.Y)
			_, idl := l.Y.(*ast.Ident)
			_, idr := r.X.(*ast.Ident)
			if okl && okh && idl && idr {
				ranges = append(ranges, fmt.Sprintf("(%d, %d)", lo, hi))
			}
			return true
		})
		fmt.Fprintf(&b, "/-- `shouldEscape` also escapes these byte ranges (`|| ('X' <= b && b <= 'Y')`): letters a case-insensitive\n    header name cannot carry -/\n")
		fmt.Fprintf(&b, "def escapeRanges : List (Nat × Nat) := [%s]\n", strings.Join(ranges, ", "))

		// --- WrapRequest refuses identities whose values a header cannot carry: `if err := checkImpersonationValues(x); err != nil { return nil, err }`
		wr := lib.FuncDecl(f, "dynamicImpersonatingRoundTripper", "WrapRequest")
		if wr == nil {
			lib.Fatalf("WrapRequest not found in %s", tfile)
		}
		checks := false
		ast.Inspect(wr, func(n ast.Node) bool {
			is, ok := n.(*ast.IfStmt)
			if !ok || is.Init == nil || len(is.Body.List) == 0 {
				return true
			}
			as, ok := is.Init.(*ast.AssignStmt)
			if !ok || len(as.Rhs) != 1 {
				return true
			}
			call, ok := as.Rhs[0].(*ast.CallExpr)
			if !ok {
				return true
			}
			id, ok := call.Fun.(*ast.Ident)
			if !ok || id.Name != "checkImpersonationValues" {
				return true
			}
			if ret, ok := is.Body.List[len(is.Body.List)-1].(*ast.ReturnStmt); ok && len(ret.Results) == 2 {
				if r0, ok := ret.Results[0].(*ast.Ident); ok && r0.Name == "nil" {
					checks = true
				}
			}
			return true
		})
		fmt.Fprintf(&b, "/-- `WrapRequest` returns an error (forwards nothing) when `checkImpersonationValues(requestor)` fails -/\n")
		fmt.Fprintf(&b, "def wrapRequestChecksValues : Bool := %v\n", checks)

		// --- order of the filters in buildProxyHandlerChainFunc (first = innermost = applied last to a request)
		pf := g.ParseFile("cmd/kube-gateway/app/proxy.go")
		fd := lib.FuncDecl(pf, "", "buildProxyHandlerChainFunc")
		if fd == nil {
			lib.Fatalf("buildProxyHandlerChainFunc not found")
		}
		var chain []string
		var walk func(stmts []ast.Stmt, cond bool)
		walk = func(stmts []ast.Stmt, cond bool) {
			for _, s := range stmts {
				switch st := s.(type) {
				case *ast.ReturnStmt:
					for _, r := range st.Results {
						if fl, ok := r.(*ast.FuncLit); ok {
							walk(fl.Body.List, cond)
						}
					}
				case *ast.IfStmt:
					walk(st.Body.List, true)
				case *ast.AssignStmt:
					if len(st.Lhs) != 1 || len(st.Rhs) != 1 {
						continue
					}
					lhs, ok := st.Lhs[0].(*ast.Ident)
					if !ok || lhs.Name != "handler" {
						continue
					}
					call, ok := st.Rhs[0].(*ast.CallExpr)
					if !ok {
						continue
					}
					sel, ok := call.Fun.(*ast.SelectorExpr)
					if !ok {
						continue
					}
					name := sel.Sel.Name
					if cond {
						name += "?"
					}
					chain = append(chain, name)
				}
			}
		}
		walk(fd.Body.List, false)
		if len(chain) < 5 {
			lib.Fatalf("buildProxyHandlerChainFunc: found only %d handler wrappers", len(chain))
		}
		fmt.Fprintf(&b, "/-- `handler = X.WithF(handler, …)` statements of buildProxyHandlerChainFunc in source order: the first is the innermost\n    handler (runs last on a request); a trailing `?` marks a conditional wrapper -/\n")
		fmt.Fprintf(&b, "def proxyChain : List String := %s\n", lib.LeanStrList(chain))

		// --- buildImpersonationRequests refuses references that are not valid UTF-8:
		//     for _, ref := range impersonationRequests { if !utf8.ValidString(ref.X) || … { return nil, err } }
		ff := g.ParseFile("pkg/gateway/endpoints/filters/impersonation.go")
		bi := lib.FuncDecl(ff, "", "buildImpersonationRequests")
		if bi == nil {
			lib.Fatalf("buildImpersonationRequests not found")
		}
		var utf8Fields []string
		ast.Inspect(bi, func(n ast.Node) bool {
			rs, ok := n.(*ast.RangeStmt)
			if !ok {
				return true
			}
			if id, ok := rs.X.(*ast.Ident); !ok || id.Name != "impersonationRequests" {
				return true
			}
			for _, st := range rs.Body.List {
				is, ok := st.(*ast.IfStmt)
				if !ok || len(is.Body.List) == 0 {
					continue
				}
				ret, ok := is.Body.List[len(is.Body.List)-1].(*ast.ReturnStmt)
				if !ok || len(ret.Results) != 2 {
					continue
				}
				if r0, ok := ret.Results[0].(*ast.Ident); !ok || r0.Name != "nil" {
					continue
				}
				ast.Inspect(is.Cond, func(m ast.Node) bool {
					ue, ok := m.(*ast.UnaryExpr)
					if !ok || ue.Op != token.NOT {
						return true
					}
					call, ok := ue.X.(*ast.CallExpr)
					if !ok || len(call.Args) != 1 {
						return true
					}
					if sel, ok := call.Fun.(*ast.SelectorExpr); ok && sel.Sel.Name == "ValidString" {
						if x, ok := sel.X.(*ast.Ident); ok && x.Name == "utf8" {
							if a, ok := call.Args[0].(*ast.SelectorExpr); ok {
								utf8Fields = append(utf8Fields, a.Sel.Name)
							}
						}
					}
					return true
				})
			}
			return true
		})
		sort.Strings(utf8Fields)
		fmt.Fprintf(&b, "/-- fields of every impersonation reference `buildImpersonationRequests` requires to be valid UTF-8 (else: error) -/\n")
		fmt.Fprintf(&b, "def impersonationUTF8Fields : List String := %s\n", lib.LeanStrList(utf8Fields))
		fmt.Fprintf(&b, "def impersonationRejectsNonUTF8 : Bool := %v\n", len(utf8Fields) > 0)

		// --- the authorizer wiring (shape facts: what a behavioural tie cannot see is WHO else could answer)
		// (a) AuthorizerConfig.New: every call expression whose result is assigned to / returned as the authorizer
		af := g.ParseFile("pkg/gateway/proxy/authorizer/config.go")
		an := lib.FuncDecl(af, "AuthorizerConfig", "New")
		if an == nil {
			lib.Fatalf("AuthorizerConfig.New not found")
		}
		var ctors []string
		var collect func(e ast.Expr)
		collect = func(e ast.Expr) {
			ast.Inspect(e, func(n ast.Node) bool {
				if call, ok := n.(*ast.CallExpr); ok {
					switch f := call.Fun.(type) {
					case *ast.SelectorExpr:
						if x, ok := f.X.(*ast.Ident); ok {
							ctors = append(ctors, x.Name+"."+f.Sel.Name)
						} else {
							ctors = append(ctors, f.Sel.Name)
						}
					case *ast.Ident:
						ctors = append(ctors, f.Name)
					}
				}
				return true
			})
		}
		ast.Inspect(an, func(n ast.Node) bool {
			switch st := n.(type) {
			case *ast.AssignStmt:
				for _, r := range st.Rhs {
					collect(r)
				}
			case *ast.ReturnStmt:
				for _, r := range st.Results {
					collect(r)
				}
			}
			return true
		})
		fmt.Fprintf(&b, "/-- every function called in `AuthorizerConfig.New` (pkg/gateway/proxy/authorizer/config.go) to build the authorizer -/\n")
		fmt.Fprintf(&b, "def authorizerConstructors : List String := %s\n", lib.LeanStrList(ctors))
		// (b) AuthorizationOptions.ApplyTo: what is stored in genericConfig.Authorization.Authorizer
		of := g.ParseFile("pkg/gateway/proxy/options/authorization.go")
		oa := lib.FuncDecl(of, "AuthorizationOptions", "ApplyTo")
		if oa == nil {
			lib.Fatalf("AuthorizationOptions.ApplyTo not found")
		}
		exprString := func(e ast.Expr) string {
			var sb strings.Builder
			var w func(e ast.Expr)
			w = func(e ast.Expr) {
				switch x := e.(type) {
				case *ast.Ident:
					sb.WriteString(x.Name)
				case *ast.SelectorExpr:
					w(x.X)
					sb.WriteString("." + x.Sel.Name)
				case *ast.UnaryExpr:
					sb.WriteString(x.Op.String())
					w(x.X)
				case *ast.CallExpr:
					w(x.Fun)
					sb.WriteString("(")
					for i, a := range x.Args {
						if i > 0 {
							sb.WriteString(", ")
						}
						w(a)
					}
					sb.WriteString(")")
				default:
					sb.WriteString("?")
				}
			}
			w(e)
			return sb.String()
		}
		var applyStmts []string
		for _, st := range oa.Body.List {
			if as, ok := st.(*ast.AssignStmt); ok {
				var l, r []string
				for _, e := range as.Lhs {
					l = append(l, exprString(e))
				}
				for _, e := range as.Rhs {
					r = append(r, exprString(e))
				}
				applyStmts = append(applyStmts, strings.Join(l, ", ")+" "+as.Tok.String()+" "+strings.Join(r, ", "))
			}
		}
		fmt.Fprintf(&b, "/-- the assignments of `AuthorizationOptions.ApplyTo` (pkg/gateway/proxy/options/authorization.go), in order -/\n")
		fmt.Fprintf(&b, "def authorizationApplyTo : List String := %s\n", lib.LeanStrList(applyStmts))
		// (c) proxy.go: the authorizer handed to the impersonation filter, and the ApplyTo call of CreateProxyConfig
		var filterAuthorizer, applyCall string
		ast.Inspect(pf, func(n ast.Node) bool {
			call, ok := n.(*ast.CallExpr)
			if !ok {
				return true
			}
			if sel, ok := call.Fun.(*ast.SelectorExpr); ok {
				if sel.Sel.Name == "WithNoLoggingImpersonation" && len(call.Args) >= 2 {
					filterAuthorizer = exprString(call.Args[1])
				}
				if sel.Sel.Name == "ApplyTo" && exprString(sel.X) == "o.Authorization" {
					applyCall = exprString(call)
				}
			}
			return true
		})
		if filterAuthorizer == "" || applyCall == "" {
			lib.Fatalf("proxy.go: WithNoLoggingImpersonation(handler, <authorizer>, …) or o.Authorization.ApplyTo(…) not found")
		}
		fmt.Fprintf(&b, "/-- the authorizer argument of `WithNoLoggingImpersonation` in buildProxyHandlerChainFunc -/\n")
		fmt.Fprintf(&b, "def filterAuthorizer : String := %q\n", filterAuthorizer)
		fmt.Fprintf(&b, "/-- the call that wires the proxy authorizer in `CreateProxyConfig` -/\n")
		fmt.Fprintf(&b, "def proxyAuthorizationApply : String := %q\n", applyCall)
		// the cluster manager of the handler chain is the same object
		var chainManager string
		ast.Inspect(pf, func(n ast.Node) bool {
			if kv, ok := n.(*ast.KeyValueExpr); ok {
				if k, ok := kv.Key.(*ast.Ident); ok && k.Name == "clusterManager" {
					chainManager = exprString(kv.Value)
				}
			}
			return true
		})
		fmt.Fprintf(&b, "/-- `proxyHandlerOptions.clusterManager` in `CreateProxyConfig` -/\n")
		fmt.Fprintf(&b, "def chainClusterManager : String := %q\n", chainManager)

		b.WriteString("end KG.Gen.C02\n")
		g.Emit("C02.lean", b.String())
	})
}
