// Regenerates lean/KG/Gen/C08.lean from /repo's current sources:
//   - the retry bound and the divisor of the token-bucket arm of rateLimiter.DoAcquire
//     (`for i := 0; i < 4; i++ { … token = token / 2 … }`),
//   - the shape fact the atomic-step model of globalMaxInflight.SetState rests on: the function starts with
//     `f.lock.Lock()` + `defer f.lock.Unlock()` and touches f.lock nowhere else (ONE critical section).
//
// It fails when the source no longer has that shape: the check then reports a broken tie.
package main

import (
	"fmt"
	"go/ast"
	"go/token"
	"strings"

	"extract/lib"
)

func selCall(e ast.Expr) (recv string, method string, ok bool) {
	c, isCall := e.(*ast.CallExpr)
	if !isCall {
		return "", "", false
	}
	s, isSel := c.Fun.(*ast.SelectorExpr)
	if !isSel {
		return "", "", false
	}
	var parts []string
	x := s.X
	for {
		switch v := x.(type) {
		case *ast.SelectorExpr:
			parts = append([]string{v.Sel.Name}, parts...)
			x = v.X
			continue
		case *ast.Ident:
			parts = append([]string{v.Name}, parts...)
		}
		break
	}
	return strings.Join(parts, "."), s.Sel.Name, true
}

func main() {
	lib.Main(func(g *lib.Gen) {
		var b strings.Builder
		b.WriteString("namespace KG.Gen.C08\n")

		// --- maxinflight.go: SetState is one critical section of f.lock
		const mif = "pkg/ratelimiter/store/flowcontrol/maxinflight.go"
		f := g.ParseFile(mif)
		fd := lib.FuncDecl(f, "globalMaxInflight", "SetState")
		if fd == nil || fd.Body == nil || len(fd.Body.List) < 2 {
			lib.Fatalf("%s: globalMaxInflight.SetState not found", mif)
		}
		first, ok1 := fd.Body.List[0].(*ast.ExprStmt)
		second, ok2 := fd.Body.List[1].(*ast.DeferStmt)
		if !ok1 || !ok2 {
			lib.Fatalf("%s: SetState does not start with f.lock.Lock(); defer f.lock.Unlock()", mif)
		}
		if r, m, ok := selCall(first.X); !ok || r != "f.lock" || m != "Lock" {
			lib.Fatalf("%s: first statement of SetState is not f.lock.Lock()", mif)
		}
		if r, m, ok := selCall(second.Call); !ok || r != "f.lock" || m != "Unlock" {
			lib.Fatalf("%s: second statement of SetState is not defer f.lock.Unlock()", mif)
		}
		lockCalls := 0
		goStmts := 0
		ast.Inspect(fd.Body, func(n ast.Node) bool {
			if e, ok := n.(ast.Expr); ok {
				if r, _, ok := selCall(e); ok && r == "f.lock" {
					lockCalls++
				}
			}
			if _, ok := n.(*ast.GoStmt); ok {
				goStmts++
			}
			return true
		})
		if lockCalls != 2 || goStmts != 0 {
			lib.Fatalf("%s: SetState touches f.lock %d times (want exactly Lock + deferred Unlock) / starts %d goroutines", mif, lockCalls, goStmts)
		}
		b.WriteString("/-- `globalMaxInflight.SetState` is `f.lock.Lock(); defer f.lock.Unlock(); …` and touches the lock nowhere else -/\n")
		b.WriteString("def setStateOneCriticalSection : Bool := true\n")
		// Resize: does it take the lock? (the model lets it run outside; taking it would only remove interleavings)
		rd := lib.FuncDecl(f, "globalMaxInflight", "Resize")
		if rd == nil {
			lib.Fatalf("%s: globalMaxInflight.Resize not found", mif)
		}
		resizeLocks := false
		ast.Inspect(rd.Body, func(n ast.Node) bool {
			if e, ok := n.(ast.Expr); ok {
				if r, _, ok := selCall(e); ok && r == "f.lock" {
					resizeLocks = true
				}
			}
			return true
		})
		fmt.Fprintf(&b, "def resizeTakesLock : Bool := %v\n", resizeLocks)

		// --- tokenbucket.go: does TryAcquireN read the clock and call AllowN inside one critical section?
		const tbf = "pkg/ratelimiter/store/flowcontrol/tokenbucket.go"
		f3 := g.ParseFile(tbf)
		ta := lib.FuncDecl(f3, "globalTokenBucket", "TryAcquireN")
		if ta == nil || ta.Body == nil {
			lib.Fatalf("%s: globalTokenBucket.TryAcquireN not found", tbf)
		}
		// the clock reading and AllowN both come after a top-level `f.<lock>.Lock(); defer f.<lock>.Unlock()` pair
		// (guards that return before the lock is taken, or between the lock and the reading, do not matter)
		serialized := false
		touches := func(n ast.Node) bool {
			found := false
			ast.Inspect(n, func(m ast.Node) bool {
				if e, ok := m.(ast.Expr); ok {
					if r, meth, ok := selCall(e); ok && (meth == "AllowN" || (r == "time" && meth == "Now")) {
						found = true
					}
				}
				return true
			})
			return found
		}
		for i := 0; i+1 < len(ta.Body.List); i++ {
			if touches(ta.Body.List[i]) {
				break
			}
			e, ok := ta.Body.List[i].(*ast.ExprStmt)
			if !ok {
				continue
			}
			r, m, ok := selCall(e.X)
			if !ok || !strings.HasPrefix(r, "f.") || m != "Lock" {
				continue
			}
			if d, ok := ta.Body.List[i+1].(*ast.DeferStmt); ok {
				if r2, m2, ok := selCall(d.Call); ok && r2 == r && m2 == "Unlock" {
					serialized = true
				}
			}
			break
		}
		allowN := false
		ast.Inspect(ta.Body, func(n ast.Node) bool {
			if e, ok := n.(ast.Expr); ok {
				if _, m, ok := selCall(e); ok && m == "AllowN" {
					allowN = true
				}
			}
			return true
		})
		if !allowN {
			lib.Fatalf("%s: TryAcquireN no longer calls rate.Limiter.AllowN", tbf)
		}
		b.WriteString("/-- `globalTokenBucket.TryAcquireN` holds a mutex of its own across `time.Now()` and `AllowN`\n")
		b.WriteString("    (then clock readings reach the limiter in order; otherwise concurrent callers can deliver stale ones) -/\n")
		fmt.Fprintf(&b, "def tryAcquireSerialized : Bool := %v\n", serialized)

		// --- ratelimter.go: the halving loop
		const rl = "pkg/ratelimiter/limiter/ratelimter.go"
		f2 := g.ParseFile(rl)
		if lib.FuncDecl(f2, "rateLimiter", "DoAcquire") == nil {
			lib.Fatalf("%s: rateLimiter.DoAcquire not found", rl)
		}
		// the retry loop may live in DoAcquire or in a helper it was moved to: look at the whole file
		da := &ast.FuncDecl{Body: &ast.BlockStmt{}}
		for _, d := range f2.Decls {
			if fd, ok := d.(*ast.FuncDecl); ok && fd.Body != nil {
				da.Body.List = append(da.Body.List, fd.Body)
			}
		}
		tries, divisor := "", ""
		ast.Inspect(da.Body, func(n ast.Node) bool {
			fs, ok := n.(*ast.ForStmt)
			if !ok || fs.Cond == nil {
				return true
			}
			be, ok := fs.Cond.(*ast.BinaryExpr)
			if !ok || be.Op != token.LSS {
				return true
			}
			bound := ""
			switch y := be.Y.(type) {
			case *ast.BasicLit:
				if y.Kind == token.INT {
					bound = y.Value
				}
			case *ast.Ident: // a named constant of the file
				if v, ok := g.Consts(rl)[y.Name]; ok {
					bound = lib.IntLit(v)
				}
			}
			if bound == "" {
				return true
			}
			found := ""
			ast.Inspect(fs.Body, func(m ast.Node) bool {
				as, ok := m.(*ast.AssignStmt)
				if !ok || len(as.Lhs) != 1 || len(as.Rhs) != 1 {
					return true
				}
				l, ok := as.Lhs[0].(*ast.Ident)
				if !ok || l.Name != "token" {
					return true
				}
				if as.Tok == token.ASSIGN {
					if d, ok := as.Rhs[0].(*ast.BinaryExpr); ok && d.Op == token.QUO {
						if x, ok := d.X.(*ast.Ident); ok && x.Name == "token" {
							if dl, ok := d.Y.(*ast.BasicLit); ok && dl.Kind == token.INT {
								found = dl.Value
							}
						}
					}
				} else if as.Tok == token.QUO_ASSIGN {
					if dl, ok := as.Rhs[0].(*ast.BasicLit); ok && dl.Kind == token.INT {
						found = dl.Value
					}
				}
				return true
			})
			if found != "" {
				tries, divisor = bound, found
			}
			return true
		})
		if tries == "" {
			lib.Fatalf("%s: no `for i := 0; i < N; i++ { … token = token / D … }` loop any more", rl)
		}
		b.WriteString("/-- `for i := 0; i < tbTries; i++ { … token = token / tbDivisor … }` in the token-bucket arm of `DoAcquire` -/\n")
		fmt.Fprintf(&b, "def tbTries : Nat := %s\n", tries)
		fmt.Fprintf(&b, "def tbDivisor : Int := %s\n", divisor)
		b.WriteString("end KG.Gen.C08\n")
		g.Emit("C08.lean", b.String())
	})
}
