// Regenerates lean/KG/Gen/C13.lean: the facts about the *shape* of the sharding code that the C13 model and
// theorems rely on, read with go/ast from /repo's current sources (and the FNV constants from the Go toolchain's
// hash/fnv, which util.GetShardID calls):
//
//   - hash/fnv: offset32, prime32, and that sum32a.Write xors the byte in and then multiplies;
//   - pkg/ratelimiter/util/shard.go: the whole (3-statement) body of GetShardID;
//   - pkg/ratelimiter/clientsets/clientsets.go: ShardIDFor calls util.GetShardID(cluster, c.shardCount) after the
//     zero test; ClientFor loads leaderEndpoints at exactly the shard returned by ShardIDFor;
//   - pkg/ratelimiter/limiter/ratelimter.go: in each of the four guarded entry points the shard is computed with
//     util.GetShardID(<upstream>, r.shardCount), the leader test `!r.leaderElector.IsLeader(shardId)` is an `if`
//     whose body returns, and nothing before it (nor its body) touches the limiter's state; which functions write
//     r.limitStoreMap;
//   - pkg/ratelimiter/limiter/elector/leader_elector.go: the IsLeader expression;
//   - pkg/ratelimiter/store/k8s/cache_store.go: Save's shard test comes first and returns an error; Load skips
//     (continue) items of other shards before saving.
//
// The extractor only *reports* what it reads; lean/KG/Props/C13.lean states what the model assumes
// (`gen_*` theorems, proved by `decide`/`rfl`), so that a change of shape breaks a proof obligation. It fails
// outright only if a function it must read has disappeared.
package main

import (
	"bytes"
	"fmt"
	"go/ast"
	"go/parser"
	"go/printer"
	"go/token"
	"os/exec"
	"path/filepath"
	"runtime"
	"sort"
	"strings"

	"extract/lib"
)

var fset *token.FileSet

func show(n ast.Node) string {
	var b bytes.Buffer
	printer.Fprint(&b, fset, n)
	// one line, single spaces
	return strings.Join(strings.Fields(b.String()), " ")
}

func mustFunc(f *ast.File, file, recv, name string) *ast.FuncDecl {
	fd := lib.FuncDecl(f, recv, name)
	if fd == nil || fd.Body == nil {
		lib.Fatalf("%s: function %s.%s not found", file, recv, name)
	}
	return fd
}

// importName returns the local name under which path is imported in f ("" if not imported).
func importName(f *ast.File, path string) string {
	for _, im := range f.Imports {
		if strings.Trim(im.Path.Value, `"`) == path {
			if im.Name != nil {
				return im.Name.Name
			}
			return path[strings.LastIndex(path, "/")+1:]
		}
	}
	return ""
}

// normalise the package qualifier of the util import to "util."
func normUtil(s, local string) string {
	if local == "" {
		return s
	}
	return strings.ReplaceAll(s, local+".GetShardID(", "util.GetShardID(")
}

// mentions reports whether node n contains a selector expression recvName.<field> with field not in allowed,
// or an identifier from idents.
func touches(n ast.Node, recvName string, allowed map[string]bool, idents map[string]bool) []string {
	var hits []string
	ast.Inspect(n, func(x ast.Node) bool {
		switch e := x.(type) {
		case *ast.SelectorExpr:
			if id, ok := e.X.(*ast.Ident); ok && id.Name == recvName && !allowed[e.Sel.Name] {
				hits = append(hits, recvName+"."+e.Sel.Name)
			}
		case *ast.Ident:
			if idents[e.Name] {
				hits = append(hits, e.Name)
			}
		}
		return true
	})
	return hits
}

func recvName(fd *ast.FuncDecl) string {
	if fd.Recv != nil && len(fd.Recv.List) == 1 && len(fd.Recv.List[0].Names) == 1 {
		return fd.Recv.List[0].Names[0].Name
	}
	return ""
}

const utilPath = "github.com/kubewharf/kubegateway/pkg/ratelimiter/util"

type guard struct {
	fn        string
	shardStmt string // the statement computing shardId
	cond      string // the if condition containing IsLeader
	returns   bool   // the if body ends with a return
	clean     bool   // nothing before the guard, nor the guard body, touches limiter state
	dirt      string
	pre       []string // every statement before the guard
}

func readGuard(f *ast.File, file, fn, util string) guard {
	fd := mustFunc(f, file, "rateLimiter", fn)
	r := recvName(fd)
	g := guard{fn: fn, clean: true}
	allowedPre := map[string]bool{"shardCount": true, "leaderElector": true}
	stateIdents := map[string]bool{"limitStore": true}
	found := false
	for _, st := range fd.Body.List {
		if ifs, ok := st.(*ast.IfStmt); ok && strings.Contains(show(ifs.Cond), ".IsLeader(") {
			g.cond = show(ifs.Cond)
			if n := len(ifs.Body.List); n > 0 {
				_, g.returns = ifs.Body.List[n-1].(*ast.ReturnStmt)
			}
			if ifs.Init != nil || ifs.Else != nil {
				g.clean = false
				g.dirt = "guard has init/else"
			}
			// same-receiver helpers that only build a refusal (vetted below, where they are called) are no state
			allowedBody := map[string]bool{}
			for k, v := range allowedPre {
				allowedBody[k] = v
			}
			for _, d := range f.Decls {
				if hd, ok := d.(*ast.FuncDecl); ok && hd.Body != nil && lib.FuncDecl(f, "rateLimiter", hd.Name.Name) == hd {
					allowedBody[hd.Name.Name] = true
				}
			}
			if h := touches(ifs.Body, r, allowedBody, stateIdents); len(h) > 0 {
				g.clean = false
				g.dirt = "guard body touches " + strings.Join(h, ",")
			}
			// calls in the refusing branch: only fmt.Errorf / klog.* / r.leaderElector.GetLeaders
			ast.Inspect(ifs.Body, func(x ast.Node) bool {
				if c, ok := x.(*ast.CallExpr); ok {
					s := show(c.Fun)
					okCall := func(s, recv string) bool {
						return s == "fmt.Errorf" || strings.HasPrefix(s, "klog.") || s == recv+".leaderElector.GetLeaders"
					}
					if okCall(s, r) {
						return true
					}
					// a helper of the same receiver, followed one level: it may only build the refusal
					if strings.HasPrefix(s, r+".") && strings.Count(s, ".") == 1 {
						if hd := lib.FuncDecl(f, "rateLimiter", strings.TrimPrefix(s, r+".")); hd != nil && hd.Body != nil {
							hr := recvName(hd)
							bad := touches(hd.Body, hr, allowedPre, stateIdents)
							ast.Inspect(hd.Body, func(y ast.Node) bool {
								if hc, ok := y.(*ast.CallExpr); ok && !okCall(show(hc.Fun), hr) {
									bad = append(bad, "call "+show(hc.Fun))
								}
								return true
							})
							if len(bad) == 0 {
								return true
							}
							g.dirt = "helper " + s + ": " + strings.Join(bad, ",")
							g.clean = false
							return true
						}
					}
					g.clean = false
					g.dirt = "guard body calls " + s
				}
				return true
			})
			found = true
			break
		}
		s := show(st)
		g.pre = append(g.pre, normUtil(s, util))
		if strings.Contains(s, ".GetShardID(") {
			g.shardStmt = normUtil(s, util)
		}
		if h := touches(st, r, allowedPre, stateIdents); len(h) > 0 {
			g.clean = false
			g.dirt = "before the guard: " + strings.Join(h, ",")
		}
		// any call before the guard other than GetShardID is suspicious
		ast.Inspect(st, func(x ast.Node) bool {
			if c, ok := x.(*ast.CallExpr); ok {
				if fs := show(c.Fun); fs != util+".GetShardID" {
					g.clean = false
					g.dirt = "before the guard: call " + fs
				}
			}
			return true
		})
	}
	if !found {
		g.clean = false
		g.dirt = "no IsLeader test"
	}
	return g
}

// recogniseShard answers "int(fnv1a32(bytes of <parameter 0>) % uint32(<parameter 1>))" when GetShardID is that function,
// however it is spelt: with hash/fnv's New32a/Write/Sum32, or with an in-place loop over the bytes (index or range)
// that xors the byte in and then multiplies by the FNV prime, starting from the FNV offset basis.
func recogniseShard(g *lib.Gen, file string, f *ast.File, fd *ast.FuncDecl) string {
	var names []string
	for _, p := range fd.Type.Params.List {
		for _, n := range p.Names {
			names = append(names, n.Name)
		}
	}
	if len(names) != 2 || show(fd.Type) != "func("+names[0]+" string, "+names[1]+" int) int" {
		return "unrecognised signature " + show(fd.Type)
	}
	val, cnt := names[0], names[1]
	// the result: int(H % uint32(cnt))
	var hexpr ast.Expr
	for _, st := range fd.Body.List {
		if rs, ok := st.(*ast.ReturnStmt); ok && len(rs.Results) == 1 {
			if c, ok := rs.Results[0].(*ast.CallExpr); ok && show(c.Fun) == "int" && len(c.Args) == 1 {
				if be, ok := c.Args[0].(*ast.BinaryExpr); ok && be.Op == token.REM && show(be.Y) == "uint32("+cnt+")" {
					hexpr = be.X
				}
			}
		}
	}
	if hexpr == nil {
		return "unrecognised result in " + show(fd.Body)
	}
	const want = "int(fnv1a32(bytes of <parameter 0>) % uint32(<parameter 1>))"
	body := show(fd.Body)
	// (a) hash/fnv
	if c, ok := hexpr.(*ast.CallExpr); ok {
		if sel, ok := c.Fun.(*ast.SelectorExpr); ok && sel.Sel.Name == "Sum32" {
			h := show(sel.X)
			if importName(f, "hash/fnv") == "fnv" && strings.Contains(body, h+" := fnv.New32a()") && strings.Contains(body, h+".Write([]byte("+val+"))") &&
				strings.Index(body, h+".Write(") < strings.Index(body, h+".Sum32()") && strings.Count(body, ".Write(") == 1 {
				return want
			}
		}
		return "unrecognised hasher in " + body
	}
	// (b) in place
	hid, ok := hexpr.(*ast.Ident)
	if !ok {
		return "unrecognised hash expression " + show(hexpr)
	}
	consts := g.Consts(file)
	valueOf := func(e ast.Expr) string {
		s := show(e)
		if strings.HasPrefix(s, "uint32(") && strings.HasSuffix(s, ")") {
			s = s[len("uint32(") : len(s)-1]
		}
		if v, ok := consts[s]; ok {
			return v.ExactString()
		}
		return s
	}
	init, loopOK := "", false
	for _, st := range fd.Body.List {
		switch e := st.(type) {
		case *ast.AssignStmt:
			if len(e.Lhs) == 1 && show(e.Lhs[0]) == hid.Name && len(e.Rhs) == 1 && e.Tok == token.DEFINE {
				init = valueOf(e.Rhs[0])
			}
		case *ast.DeclStmt:
			if gd, ok := e.Decl.(*ast.GenDecl); ok {
				for _, sp := range gd.Specs {
					if vs, ok := sp.(*ast.ValueSpec); ok && len(vs.Names) == 1 && vs.Names[0].Name == hid.Name && len(vs.Values) == 1 {
						init = valueOf(vs.Values[0])
					}
				}
			}
		case *ast.ForStmt, *ast.RangeStmt:
			var lb *ast.BlockStmt
			byteExpr := ""
			if fs, ok := e.(*ast.ForStmt); ok {
				lb = fs.Body
				// for i := 0; i < len(val); i++  -> the byte is val[i]
				if as, ok := fs.Init.(*ast.AssignStmt); ok && len(as.Lhs) == 1 && show(as.Rhs[0]) == "0" {
					i := show(as.Lhs[0])
					if show(fs.Cond) == i+" < len("+val+")" && show(fs.Post) == i+"++" {
						byteExpr = val + "[" + i + "]"
					}
				}
			} else if rs, ok := e.(*ast.RangeStmt); ok {
				lb = rs.Body
				if show(rs.X) == "[]byte("+val+")" && rs.Value != nil { // ranging over the string itself would yield runes
					byteExpr = show(rs.Value)
				}
			}
			if lb == nil || byteExpr == "" || len(lb.List) != 2 {
				continue
			}
			x, ok1 := lb.List[0].(*ast.AssignStmt)
			m, ok2 := lb.List[1].(*ast.AssignStmt)
			if ok1 && ok2 && x.Tok == token.XOR_ASSIGN && show(x.Lhs[0]) == hid.Name && show(x.Rhs[0]) == "uint32("+byteExpr+")" &&
				m.Tok == token.MUL_ASSIGN && show(m.Lhs[0]) == hid.Name && valueOf(m.Rhs[0]) == "16777619" {
				loopOK = true
			}
		}
	}
	if init == "2166136261" && loopOK {
		return want
	}
	return "unrecognised hash loop in " + body
}

func main() {
	lib.Main(func(g *lib.Gen) {
		fset = g.Fset()
		var b strings.Builder
		b.WriteString("namespace KG.Gen.C13\n")

		// ---- hash/fnv of the toolchain that builds the repo
		goroot := runtime.GOROOT()
		if out, err := exec.Command("go", "env", "GOROOT").Output(); err == nil && strings.TrimSpace(string(out)) != "" {
			goroot = strings.TrimSpace(string(out))
		}
		fnvFile := filepath.Join(goroot, "src", "hash", "fnv", "fnv.go")
		ff, err := parser.ParseFile(fset, fnvFile, nil, 0)
		if err != nil {
			lib.Fatalf("parse %s: %v", fnvFile, err)
		}
		consts := map[string]string{}
		for _, d := range ff.Decls {
			gd, ok := d.(*ast.GenDecl)
			if !ok || gd.Tok != token.CONST {
				continue
			}
			for _, sp := range gd.Specs {
				vs := sp.(*ast.ValueSpec)
				for i, n := range vs.Names {
					if i < len(vs.Values) {
						if bl, ok := vs.Values[i].(*ast.BasicLit); ok && bl.Kind == token.INT {
							consts[n.Name] = bl.Value
						}
					}
				}
			}
		}
		for _, n := range []string{"offset32", "prime32"} {
			if consts[n] == "" {
				lib.Fatalf("%s: constant %s not found", fnvFile, n)
			}
		}
		b.WriteString("/-! hash/fnv of the Go toolchain (" + filepath.Base(goroot) + ") -/\n")
		fmt.Fprintf(&b, "def fnvOffset32 : Nat := %s\n", consts["offset32"])
		fmt.Fprintf(&b, "def fnvPrime32 : Nat := %s\n", consts["prime32"])
		wr := mustFunc(ff, fnvFile, "sum32a", "Write")
		loop := ""
		for _, st := range wr.Body.List {
			if rs, ok := st.(*ast.RangeStmt); ok {
				loop = show(rs.Body)
			}
		}
		fmt.Fprintf(&b, "def fnv32aLoopBody : String := %q\n", loop)
		n32a := mustFunc(ff, fnvFile, "", "New32a")
		fmt.Fprintf(&b, "def fnvNew32aBody : String := %q\n", show(n32a.Body))

		// ---- util.GetShardID
		const shardFile = "pkg/ratelimiter/util/shard.go"
		sf := g.ParseFile(shardFile)
		gs := mustFunc(sf, shardFile, "", "GetShardID")
		b.WriteString("/-! " + shardFile + " -/\n")
		fmt.Fprintf(&b, "def getShardIDSig : String := %q\n", show(gs.Type))
		fmt.Fprintf(&b, "def getShardIDBody : String := %q\n", show(gs.Body))
		fmt.Fprintf(&b, "def getShardIDImportsFnv : Bool := %v\n", importName(sf, "hash/fnv") == "fnv")
		fmt.Fprintf(&b, "def shardFunction : String := %q\n", recogniseShard(g, shardFile, sf, gs))

		// ---- clientsets
		const csFile = "pkg/ratelimiter/clientsets/clientsets.go"
		cf := g.ParseFile(csFile)
		cutil := importName(cf, utilPath)
		sif := mustFunc(cf, csFile, "clientSets", "ShardIDFor")
		b.WriteString("/-! " + csFile + " -/\n")
		fmt.Fprintf(&b, "def gatewayShardIDForBody : String := %q\n", normUtil(show(sif.Body), cutil))
		cfor := mustFunc(cf, csFile, "clientSets", "ClientFor")
		fmt.Fprintf(&b, "def gatewayClientForBody : String := %q\n", show(cfor.Body))
		// by role: ShardIDFor answers util.GetShardID(<its parameter>, <receiver>.shardCount), after a zero test of that count;
		// ClientFor asks ShardIDFor(<its parameter>) first
		recvS, par0 := recvName(sif), ""
		if len(sif.Type.Params.List) > 0 && len(sif.Type.Params.List[0].Names) > 0 {
			par0 = sif.Type.Params.List[0].Names[0].Name
		}
		shardCall, zeroGuard := "", false
		var guardPos, callPos token.Pos
		ast.Inspect(sif.Body, func(x ast.Node) bool {
			switch e := x.(type) {
			case *ast.CallExpr:
				if show(e.Fun) == cutil+".GetShardID" && len(e.Args) == 2 && shardCall == "" {
					a0, a1 := show(e.Args[0]), show(e.Args[1])
					if a0 == par0 {
						a0 = "<parameter>"
					}
					if a1 == recvS+".shardCount" {
						a1 = "<receiver>.shardCount"
					}
					shardCall = "util.GetShardID(" + a0 + ", " + a1 + ")"
					callPos = e.Pos()
				}
			case *ast.IfStmt:
				c := show(e.Cond)
				if (c == recvS+".shardCount == 0" || c == "0 == "+recvS+".shardCount") && len(e.Body.List) > 0 {
					if _, ok := e.Body.List[len(e.Body.List)-1].(*ast.ReturnStmt); ok && guardPos == token.NoPos {
						guardPos = e.Pos()
						zeroGuard = true
					}
				}
			}
			return true
		})
		otherHash := importName(cf, "hash/fnv") != "" || strings.Contains(show(sif.Body), "%")
		fmt.Fprintf(&b, "def gatewayShardCall : String := %q\n", shardCall)
		fmt.Fprintf(&b, "def gatewayZeroGuardFirst : Bool := %v\n", zeroGuard && guardPos < callPos)
		fmt.Fprintf(&b, "def gatewayHashesItself : Bool := %v\n", otherHash)
		recvC, parC := recvName(cfor), ""
		if len(cfor.Type.Params.List) > 0 && len(cfor.Type.Params.List[0].Names) > 0 {
			parC = cfor.Type.Params.List[0].Names[0].Name
		}
		fmt.Fprintf(&b, "def gatewayClientForAsksShardIDFor : Bool := %v\n", strings.Contains(show(cfor.Body), recvC+".ShardIDFor("+parC+")"))

		// ---- limiter entry points
		const rlFile = "pkg/ratelimiter/limiter/ratelimter.go"
		rf := g.ParseFile(rlFile)
		rutil := importName(rf, utilPath)
		b.WriteString("/-! " + rlFile + ": (function, shard statement, guard condition, guard body returns, nothing touches limiter state before/in the guard) -/\n")
		b.WriteString("def entryGuards : List (String × String × String × Bool × Bool) := [\n")
		fns := []string{"UpdateRateLimitConditionStatus", "DoAcquire", "UpstreamConditionHandler", "deleteCondition"}
		var dirt, pre []string
		for i, fn := range fns {
			gd := readGuard(rf, rlFile, fn, rutil)
			pre = append(pre, strings.Join(gd.pre, "; "))
			sep := ","
			if i == len(fns)-1 {
				sep = ""
			}
			fmt.Fprintf(&b, "  (%q, %q, %q, %v, %v)%s\n", gd.fn, gd.shardStmt, gd.cond, gd.returns, gd.clean, sep)
			if gd.dirt != "" {
				dirt = append(dirt, fn+": "+gd.dirt)
			}
		}
		b.WriteString("]\n")
		fmt.Fprintf(&b, "def entryGuardRemarks : List String := %s\n", lib.LeanStrList(dirt))
		fmt.Fprintf(&b, "def entryPreGuard : List String := %s\n", lib.LeanStrList(pre))
		// the refusing branches
		var refusals []string
		for _, fn := range fns {
			fd := mustFunc(rf, rlFile, "rateLimiter", fn)
			for _, st := range fd.Body.List {
				if ifs, ok := st.(*ast.IfStmt); ok && strings.Contains(show(ifs.Cond), ".IsLeader(") {
					if n := len(ifs.Body.List); n > 0 {
						refusals = append(refusals, show(ifs.Body.List[n-1]))
					}
					break
				}
			}
		}
		fmt.Fprintf(&b, "def entryRefusals : List String := %s\n", lib.LeanStrList(refusals))
		// writers of limitStoreMap
		writers := map[string]bool{}
		for _, d := range rf.Decls {
			fd, ok := d.(*ast.FuncDecl)
			if !ok || fd.Body == nil {
				continue
			}
			ast.Inspect(fd.Body, func(x ast.Node) bool {
				switch e := x.(type) {
				case *ast.AssignStmt:
					for _, l := range e.Lhs {
						if ix, ok := l.(*ast.IndexExpr); ok && strings.HasSuffix(show(ix.X), ".limitStoreMap") {
							writers[fd.Name.Name] = true
						}
						if strings.HasSuffix(show(l), ".limitStoreMap") {
							writers[fd.Name.Name] = true
						}
					}
				case *ast.CallExpr:
					if id, ok := e.Fun.(*ast.Ident); ok && id.Name == "delete" && len(e.Args) > 0 && strings.HasSuffix(show(e.Args[0]), ".limitStoreMap") {
						writers[fd.Name.Name] = true
					}
				}
				return true
			})
		}
		var wl []string
		for w := range writers {
			wl = append(wl, w)
		}
		sort.Strings(wl)
		fmt.Fprintf(&b, "def limitStoreMapWriters : List String := %s\n", lib.LeanStrList(wl))
		// stopLeading deletes unconditionally
		sl := mustFunc(rf, rlFile, "rateLimiter", "stopLeading")
		uncond := false
		for _, st := range sl.Body.List {
			if es, ok := st.(*ast.ExprStmt); ok && strings.HasPrefix(show(es), "delete(") && strings.Contains(show(es), ".limitStoreMap, shardId)") {
				uncond = true
			}
		}
		fmt.Fprintf(&b, "def stopLeadingDeletesUnconditionally : Bool := %v\n", uncond)
		// NewRateLimiter wires the callbacks
		nr := mustFunc(rf, rlFile, "", "NewRateLimiter")
		nrs := show(nr.Body)
		fmt.Fprintf(&b, "def callbacksWired : Bool := %v\n",
			strings.Contains(nrs, "OnStartedLeading: limiter.startLeading") && strings.Contains(nrs, "OnStoppedLeading: limiter.stopLeading"))

		// ---- the HTTP handlers: with which upstream the two request entry points are called
		const dpFile = "pkg/ratelimiter/endpoints/dispather/limiter_dispater.go"
		df := g.ParseFile(dpFile)
		b.WriteString("/-! " + dpFile + ": calls of the limiter's request entry points and where their `domain` comes from -/\n")
		var calls []string
		for _, d := range df.Decls {
			fd, ok := d.(*ast.FuncDecl)
			if !ok || fd.Body == nil {
				continue
			}
			domain := ""
			ast.Inspect(fd.Body, func(x ast.Node) bool {
				switch e := x.(type) {
				case *ast.AssignStmt:
					if len(e.Lhs) == 1 && show(e.Lhs[0]) == "domain" {
						domain = show(e)
					}
				case *ast.CallExpr:
					if sel, ok := e.Fun.(*ast.SelectorExpr); ok && (sel.Sel.Name == "UpdateRateLimitConditionStatus" || sel.Sel.Name == "DoAcquire") {
						calls = append(calls, fd.Name.Name+": "+domain+"; "+show(e))
					}
				}
				return true
			})
		}
		sort.Strings(calls)
		fmt.Fprintf(&b, "def dispatcherCalls : List String := %s\n", lib.LeanStrList(calls))
		// syncUpstreamClustersForShard hands the handler only the upstreams of the shard
		sy := mustFunc(rf, rlFile, "rateLimiter", "syncUpstreamClustersForShard")
		syncFilter := ""
		ast.Inspect(sy.Body, func(x ast.Node) bool {
			if ifs, ok := x.(*ast.IfStmt); ok && strings.Contains(show(ifs.Cond), ".GetShardID(") {
				syncFilter = normUtil(show(ifs.Cond), rutil)
			}
			return true
		})
		fmt.Fprintf(&b, "def syncShardFilter : String := %q\n", syncFilter)

		// ---- elector
		const elFile = "pkg/ratelimiter/limiter/elector/leader_elector.go"
		ef := g.ParseFile(elFile)
		il := mustFunc(ef, elFile, "leaderElector", "IsLeader")
		isl := ""
		for _, st := range il.Body.List {
			if rs, ok := st.(*ast.ReturnStmt); ok && len(rs.Results) == 1 {
				isl = show(rs.Results[0])
			}
		}
		b.WriteString("/-! " + elFile + " -/\n")
		fmt.Fprintf(&b, "def isLeaderExpr : String := %q\n", isl)
		fmt.Fprintf(&b, "def electorStartLeadingBody : String := %q\n", show(mustFunc(ef, elFile, "leaderElector", "startLeading").Body))
		fmt.Fprintf(&b, "def electorStopLeadingBody : String := %q\n", show(mustFunc(ef, elFile, "leaderElector", "stopLeading").Body))

		// ---- k8s store
		const ksFile = "pkg/ratelimiter/store/k8s/cache_store.go"
		kf := g.ParseFile(ksFile)
		kutil := importName(kf, utilPath)
		sv := mustFunc(kf, ksFile, "objectStore", "Save")
		b.WriteString("/-! " + ksFile + " -/\n")
		s0, s1 := "", ""
		if len(sv.Body.List) >= 2 {
			s0 = normUtil(show(sv.Body.List[0]), kutil)
			if ifs, ok := sv.Body.List[1].(*ast.IfStmt); ok {
				s1 = show(ifs.Cond)
				if n := len(ifs.Body.List); n == 1 {
					if rs, ok := ifs.Body.List[0].(*ast.ReturnStmt); ok && len(rs.Results) == 1 && strings.HasPrefix(show(rs.Results[0]), "fmt.Errorf(") {
						s1 += " => return error"
					}
				}
			}
		}
		fmt.Fprintf(&b, "def k8sSaveFirst : String := %q\n", s0)
		fmt.Fprintf(&b, "def k8sSaveSecond : String := %q\n", s1)
		ld := mustFunc(kf, ksFile, "objectStore", "Load")
		filter, filterBeforeSave := "", false
		for _, st := range ld.Body.List {
			rs, ok := st.(*ast.RangeStmt)
			if !ok {
				continue
			}
			for _, bs := range rs.Body.List {
				if ifs, ok := bs.(*ast.IfStmt); ok && strings.Contains(show(ifs.Cond), ".GetShardID(") {
					filter = normUtil(show(ifs.Cond), kutil)
					if len(ifs.Body.List) == 1 {
						if br, ok := ifs.Body.List[0].(*ast.BranchStmt); ok && br.Tok == token.CONTINUE {
							filter += " => continue"
						}
					}
					filterBeforeSave = true
				}
				if strings.Contains(show(bs), ".localStore.Save(") && filter == "" {
					filterBeforeSave = false
				}
			}
		}
		fmt.Fprintf(&b, "def k8sLoadFilter : String := %q\n", filter)
		fmt.Fprintf(&b, "def k8sLoadFilterBeforeSave : Bool := %v\n", filterBeforeSave)
		// ---- stopping a store: rateLimiter.stopLeading, stopLimitStoreWithRetry, objectStore.Stop, the flusher
		b.WriteString("/-! stopping a shard's store -/\n")
		fmt.Fprintf(&b, "def stopLeadingBody : String := %q\n", show(sl.Body))
		fmt.Fprintf(&b, "def stopWithRetryBody : String := %q\n", show(mustFunc(rf, rlFile, "", "stopLimitStoreWithRetry").Body))
		fmt.Fprintf(&b, "def k8sStopBody : String := %q\n", show(mustFunc(kf, ksFile, "objectStore", "Stop").Body))
		flusher := ""
		ast.Inspect(mustFunc(kf, ksFile, "", "NewK8sCacheStore").Body, func(x ast.Node) bool {
			if ifs, ok := x.(*ast.IfStmt); ok && strings.Contains(show(ifs.Body), "go wait.Until(") {
				flusher = show(ifs)
			}
			return true
		})
		fmt.Fprintf(&b, "def k8sFlusher : String := %q\n", flusher)
		ksStop := mustFunc(kf, ksFile, "objectStore", "Stop")
		posClose, posFlush, posFlag := token.NoPos, token.NoPos, token.NoPos
		ast.Inspect(ksStop.Body, func(x ast.Node) bool {
			switch e := x.(type) {
			case *ast.CallExpr:
				fs := show(e.Fun)
				if fs == "close" && len(e.Args) == 1 && strings.HasSuffix(show(e.Args[0]), ".stopCh") && posClose == token.NoPos {
					posClose = e.Pos()
				}
				if (strings.HasSuffix(fs, ".doSyncLocked") || strings.HasSuffix(fs, ".Flush")) && posFlush == token.NoPos {
					posFlush = e.Pos()
				}
			case *ast.AssignStmt:
				if len(e.Lhs) == 1 && strings.HasSuffix(show(e.Lhs[0]), ".stopped") && show(e.Rhs[0]) == "true" && posFlag == token.NoPos {
					posFlag = e.Pos()
				}
			}
			return true
		})
		fmt.Fprintf(&b, "def k8sStopOrder : String := %q\n", func() string {
			if posClose == token.NoPos || posFlush == token.NoPos || posFlag == token.NoPos {
				return "unrecognised"
			}
			type ev struct {
				p token.Pos
				n string
			}
			evs := []ev{{posClose, "close stopCh"}, {posFlush, "final flush"}, {posFlag, "stopped = true"}}
			sort.Slice(evs, func(i, j int) bool { return evs[i].p < evs[j].p })
			return evs[0].n + "; " + evs[1].n + "; " + evs[2].n
		}())
		flusherStops := false
		ast.Inspect(mustFunc(kf, ksFile, "", "NewK8sCacheStore").Body, func(x ast.Node) bool {
			if gs, ok := x.(*ast.GoStmt); ok && strings.HasSuffix(show(gs.Call.Fun), "wait.Until") && len(gs.Call.Args) == 3 {
				flusherStops = strings.HasSuffix(show(gs.Call.Args[2]), ".stopCh") && strings.HasSuffix(show(gs.Call.Args[0]), ".sync")
			}
			return true
		})
		fmt.Fprintf(&b, "def k8sFlusherEndsOnStopCh : Bool := %v\n", flusherStops)
		// the ORDER inside leaderElector.stopLeading: the leader table forgets this server before the callback runs
		esl := mustFunc(ef, elFile, "leaderElector", "stopLeading")
		posDelete, posCallback := token.NoPos, token.NoPos
		ast.Inspect(esl.Body, func(x ast.Node) bool {
			if c, ok := x.(*ast.CallExpr); ok {
				fs := show(c.Fun)
				if fs == "delete" && len(c.Args) > 0 && strings.HasSuffix(show(c.Args[0]), ".leaderInfo") && posDelete == token.NoPos {
					posDelete = c.Pos()
				}
				if strings.HasSuffix(fs, ".callbacks.OnStoppedLeading") && posCallback == token.NoPos {
					posCallback = c.Pos()
				}
			}
			return true
		})
		est := mustFunc(ef, elFile, "leaderElector", "startLeading")
		posSet, posStartCb := token.NoPos, token.NoPos
		ast.Inspect(est.Body, func(x ast.Node) bool {
			if c, ok := x.(*ast.CallExpr); ok {
				fs := show(c.Fun)
				if strings.HasSuffix(fs, ".setLeader") && posSet == token.NoPos {
					posSet = c.Pos()
				}
				if strings.HasSuffix(fs, ".callbacks.OnStartedLeading") && posStartCb == token.NoPos {
					posStartCb = c.Pos()
				}
			}
			return true
		})
		fmt.Fprintf(&b, "def electorStartRecordsLeaderBeforeCallback : Bool := %v\n", posSet != token.NoPos && posStartCb != token.NoPos && posSet < posStartCb)
		fmt.Fprintf(&b, "def electorStopForgetsBeforeCallback : Bool := %v\n", posDelete != token.NoPos && posCallback != token.NoPos && posDelete < posCallback)
		// the error path of rateLimiter.startLeading: every write of limitStoreMap in it, with the condition it is under
		stl := mustFunc(rf, rlFile, "rateLimiter", "startLeading")
		var errDeletes []string
		ast.Inspect(stl.Body, func(x ast.Node) bool {
			ifs, ok := x.(*ast.IfStmt)
			if !ok || show(ifs.Cond) != "err != nil" {
				return true
			}
			var walk func(n ast.Node, under string)
			walk = func(n ast.Node, under string) {
				ast.Inspect(n, func(y ast.Node) bool {
					switch e := y.(type) {
					case *ast.IfStmt:
						if y != n {
							walk(e.Body, under+" if "+show(e.Cond))
							if e.Else != nil {
								walk(e.Else, under+" else-of "+show(e.Cond))
							}
							return false
						}
					case *ast.CallExpr:
						if id, ok := e.Fun.(*ast.Ident); ok && id.Name == "delete" && len(e.Args) > 0 && strings.HasSuffix(show(e.Args[0]), ".limitStoreMap") {
							errDeletes = append(errDeletes, strings.TrimSpace(under)+": "+show(e))
						}
					}
					return true
				})
			}
			walk(ifs.Body, "")
			return false
		})
		fmt.Fprintf(&b, "def startLeadingErrorPathDeletes : List String := %s\n", lib.LeanStrList(errDeletes))
		// ---- the gateway's callers of ClientSets: where the client of each request comes from
		callerFact := func(file, recv, fn, send string) string {
			cf := g.ParseFile(file)
			fd := mustFunc(cf, file, recv, fn)
			base := ""
			ast.Inspect(fd.Body, func(x ast.Node) bool {
				if c, ok := x.(*ast.CallExpr); ok {
					if sel, ok := c.Fun.(*ast.SelectorExpr); ok && sel.Sel.Name == send {
						e := sel.X
						for {
							switch t := e.(type) {
							case *ast.CallExpr:
								e = t.Fun
								continue
							case *ast.SelectorExpr:
								e = t.X
								continue
							}
							break
						}
						if id, ok := e.(*ast.Ident); ok {
							base = id.Name
						}
					}
				}
				return true
			})
			if base == "" {
				return "no " + send + " call"
			}
			// every definition/assignment of that identifier in the function, and whether it is a top-level statement
			var defs []string
			top := map[ast.Stmt]bool{}
			for _, st := range fd.Body.List {
				top[st] = true
			}
			ast.Inspect(fd.Body, func(x ast.Node) bool {
				if as, ok := x.(*ast.AssignStmt); ok {
					for _, l := range as.Lhs {
						if id, ok := l.(*ast.Ident); ok && id.Name == base {
							where := "nested"
							if top[as] {
								where = "every call"
							}
							defs = append(defs, where+": "+show(as))
						}
					}
				}
				return true
			})
			return send + " on " + base + " <- " + strings.Join(defs, " | ")
		}
		const raFile = "pkg/flowcontrols/remote/remote_allocation.go"
		const rcFile = "pkg/flowcontrols/remote/remote_counter.go"
		b.WriteString("/-! the gateway's callers: the client of every report / acquire is resolved by ClientFor for that very request -/\n")
		fmt.Fprintf(&b, "def reconcileClient : String := %q\n", callerFact(raFile, "reconcile", "reconcile", "UpdateStatus"))
		fmt.Fprintf(&b, "def acquireClient : String := %q\n", callerFact(rcFile, "globalCounterManager", "doAcquire", "Acquire"))
		var keeps []string
		for _, fs := range [][2]string{{raFile, "reconcile"}, {rcFile, "globalCounterManager"}} {
			cf := g.ParseFile(fs[0])
			ast.Inspect(cf, func(x ast.Node) bool {
				ts, ok := x.(*ast.TypeSpec)
				if !ok || ts.Name.Name != fs[1] {
					return true
				}
				if st, ok := ts.Type.(*ast.StructType); ok {
					for _, f := range st.Fields.List {
						t := show(f.Type)
						if strings.Contains(t, "clientset.Interface") || strings.Contains(t, "kubernetes.Interface") || strings.Contains(t, "RateLimitConditionInterface") || strings.Contains(t, "ProxyV1alpha1Interface") {
							keeps = append(keeps, fs[1]+"."+show(f.Names[0])+" "+t)
						}
					}
				}
				return false
			})
		}
		fmt.Fprintf(&b, "def callersKeepingAClient : List String := %s\n", lib.LeanStrList(keeps))
		b.WriteString("end KG.Gen.C13\n")
		g.Emit("C13.lean", b.String())
	})
}
