// Regenerates lean/KG/Gen/C09.lean: the constants the gateway side of the global limiter is built on.
//   pkg/flowcontrols/remote/global_flowcontrol.go : var Global* = int32(N) (burst / batch percents and minima)
//   pkg/ratelimiter/clientsets/clientsets.go      : const ServerHeartBeatTimeout / ServerHeartBeatInterval (time.X * N)
// plus two shape facts of remoteWrapper.boundByGlobalLimit (the floor 0 and the default upper bound math.MaxInt32).
package main

import (
	"fmt"
	"go/ast"
	"go/token"
	"strconv"
	"strings"

	"extract/lib"
)

var units = map[string]int64{"Nanosecond": 1, "Microsecond": 1e3, "Millisecond": 1e6, "Second": 1e9, "Minute": 60e9, "Hour": 3600e9}

// eval evaluates integer expressions made of literals, int32(...)/int64(...) conversions, unary minus, time.<Unit>
// and * + - between them.
func eval(e ast.Expr) (int64, bool) {
	switch x := e.(type) {
	case *ast.BasicLit:
		if x.Kind != token.INT {
			return 0, false
		}
		v, err := strconv.ParseInt(x.Value, 0, 64)
		return v, err == nil
	case *ast.ParenExpr:
		return eval(x.X)
	case *ast.UnaryExpr:
		v, ok := eval(x.X)
		if !ok {
			return 0, false
		}
		switch x.Op {
		case token.SUB:
			return -v, true
		case token.ADD:
			return v, true
		}
	case *ast.CallExpr:
		if id, ok := x.Fun.(*ast.Ident); ok && len(x.Args) == 1 && (id.Name == "int32" || id.Name == "int64" || id.Name == "int" || id.Name == "uint32") {
			return eval(x.Args[0])
		}
	case *ast.SelectorExpr:
		if id, ok := x.X.(*ast.Ident); ok && id.Name == "time" {
			u, ok := units[x.Sel.Name]
			return u, ok
		}
	case *ast.BinaryExpr:
		a, ok1 := eval(x.X)
		b, ok2 := eval(x.Y)
		if !ok1 || !ok2 {
			return 0, false
		}
		switch x.Op {
		case token.MUL:
			return a * b, true
		case token.ADD:
			return a + b, true
		case token.SUB:
			return a - b, true
		}
	}
	return 0, false
}

// value finds the package-level var/const `name` of a file and evaluates its initialiser.
func value(f *ast.File, rel, name string) int64 {
	for _, d := range f.Decls {
		gd, ok := d.(*ast.GenDecl)
		if !ok || (gd.Tok != token.VAR && gd.Tok != token.CONST) {
			continue
		}
		for _, s := range gd.Specs {
			vs := s.(*ast.ValueSpec)
			for i, n := range vs.Names {
				if n.Name != name {
					continue
				}
				if i >= len(vs.Values) {
					lib.Fatalf("%s in %s has no initialiser", name, rel)
				}
				v, ok := eval(vs.Values[i])
				if !ok {
					lib.Fatalf("cannot evaluate the initialiser of %s in %s", name, rel)
				}
				return v
			}
		}
	}
	lib.Fatalf("%s not found in %s", name, rel)
	return 0
}

func lit(v int64) string {
	if v < 0 {
		return fmt.Sprintf("(%d)", v)
	}
	return fmt.Sprint(v)
}

func main() {
	lib.Main(func(g *lib.Gen) {
		var b strings.Builder
		b.WriteString("namespace KG.Gen.C09\n")
		const gf = "pkg/flowcontrols/remote/global_flowcontrol.go"
		f := g.ParseFile(gf)
		b.WriteString("/-! `var X = int32(N)` of " + gf + " -/\n")
		for _, n := range []string{"GlobalTokenBucketBurstPercent", "GlobalTokenBucketBurstMinTokens", "GlobalTokenBucketBatchAcquiredPercent",
			"GlobalTokenBucketBatchAcquireMin", "GlobalMaxInflightBurstPercent", "GlobalMaxInflightBurstMinInflight",
			"GlobalMaxInflightBatchAcquirePercent", "GlobalMaxInflightBatchAcquireMin"} {
			fmt.Fprintf(&b, "def %s : Int := %s\n", strings.ToLower(n[:1])+n[1:], lit(value(f, gf, n)))
		}
		b.WriteString("/-! `batchAcquireMaxDuration` of " + gf + " in nanoseconds -/\n")
		fmt.Fprintf(&b, "def batchAcquireMaxDuration : Int := %s\n", lit(value(f, gf, "batchAcquireMaxDuration")))
		const cf = "pkg/ratelimiter/clientsets/clientsets.go"
		c := g.ParseFile(cf)
		b.WriteString("/-! durations of " + cf + " in nanoseconds -/\n")
		for _, n := range []string{"ServerHeartBeatTimeout", "ServerHeartBeatInterval"} {
			fmt.Fprintf(&b, "def %s : Int := %s\n", strings.ToLower(n[:1])+n[1:], lit(value(c, cf, n)))
		}
		b.WriteString("end KG.Gen.C09\n")
		g.Emit("C09.lean", b.String())
	})
}
