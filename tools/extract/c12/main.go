// Regenerates lean/KG/Gen/C12.lean: the facts of the multi-cluster token authenticator / SAR authorizer that the
// Lean model KG.Model.AuthCache takes from the source instead of hard-coding:
//
//   - pkg/gateway/authorization/webhook/subjectaccessreview.go: const maxControlledAttrCacheSize, the
//     `decisionOnError:` value of the constructor, the size of the LRU cache, the fields of `cacheKey`;
//   - pkg/gateway/authentication/token/webhook/tokenreview.go: the `cacheErrs` argument of tokencache.New,
//     the fields of `cacheKey`.
//
// Values that are merely *read* are emitted as they are found (the Lean side states what they must be, so a
// changed value breaks a theorem and is reported as such); the extractor fails only when a construct it reads
// is no longer there at all.
package main

import (
	"fmt"
	"go/ast"
	"go/printer"
	"go/token"
	"strings"

	"extract/lib"
)

const (
	appFile  = "cmd/kube-gateway/app/proxy.go"
	dispFile = "pkg/gateway/proxy/dispatcher/dispatcher.go"
	sarFile = "pkg/gateway/authorization/webhook/subjectaccessreview.go"
	tokFile = "pkg/gateway/authentication/token/webhook/tokenreview.go"
)

func exprString(g *lib.Gen, e ast.Expr) string {
	var b strings.Builder
	printer.Fprint(&b, g.Fset(), e)
	return b.String()
}

// structFields returns [(field name, type)] of `type <name> struct`, or nil when there is no such type.
func structFields(g *lib.Gen, f *ast.File, name string) [][2]string {
	var out [][2]string
	for _, d := range f.Decls {
		gd, ok := d.(*ast.GenDecl)
		if !ok || gd.Tok != token.TYPE {
			continue
		}
		for _, s := range gd.Specs {
			ts := s.(*ast.TypeSpec)
			st, ok := ts.Type.(*ast.StructType)
			if !ok || ts.Name.Name != name {
				continue
			}
			for _, fl := range st.Fields.List {
				for _, n := range fl.Names {
					out = append(out, [2]string{n.Name, exprString(g, fl.Type)})
				}
			}
		}
	}
	return out
}

func leanPairs(l [][2]string) string {
	q := make([]string, len(l))
	for i, p := range l {
		q[i] = fmt.Sprintf("(%q, %q)", p[0], p[1])
	}
	return "[" + strings.Join(q, ", ") + "]"
}

// callsTo collects every call `pkg.fn(...)` inside node.
func callsTo(node ast.Node, pkg, fn string) []*ast.CallExpr {
	var out []*ast.CallExpr
	ast.Inspect(node, func(n ast.Node) bool {
		c, ok := n.(*ast.CallExpr)
		if !ok {
			return true
		}
		if sel, ok := c.Fun.(*ast.SelectorExpr); ok && sel.Sel.Name == fn {
			if id, ok := sel.X.(*ast.Ident); ok && id.Name == pkg {
				out = append(out, c)
			}
		}
		return true
	})
	return out
}

// keyArg: what the first argument of `a.caches.<method>(k, …)` is, for every such call in fn (printed source).
func cacheMapKeys(g *lib.Gen, fn *ast.FuncDecl) []string {
	var out []string
	ast.Inspect(fn, func(n ast.Node) bool {
		c, ok := n.(*ast.CallExpr)
		if !ok || len(c.Args) == 0 {
			return true
		}
		sel, ok := c.Fun.(*ast.SelectorExpr)
		if !ok {
			return true
		}
		if inner, ok := sel.X.(*ast.SelectorExpr); ok && inner.Sel.Name == "caches" {
			out = append(out, sel.Sel.Name+":"+exprString(g, c.Args[0]))
		}
		return true
	})
	return out
}

func main() {
	lib.Main(func(g *lib.Gen) {
		var b strings.Builder
		b.WriteString("namespace KG.Gen.C12\n")
		b.WriteString("/-! facts read from " + sarFile + " and " + tokFile + " -/\n")

		// ---- authorizer
		sar := g.ParseFile(sarFile)
		fmt.Fprintf(&b, "def maxControlledAttrCacheSize : Nat := %s\n", lib.IntLit(g.Const(sarFile, "maxControlledAttrCacheSize")))
		ctor := lib.FuncDecl(sar, "", "NewMultiClusterSubjectAccessReviewAuthorizer")
		if ctor == nil {
			lib.Fatalf("NewMultiClusterSubjectAccessReviewAuthorizer not found in %s", sarFile)
		}
		decision := ""
		ast.Inspect(ctor, func(n ast.Node) bool {
			kv, ok := n.(*ast.KeyValueExpr)
			if !ok {
				return true
			}
			if id, ok := kv.Key.(*ast.Ident); ok && id.Name == "decisionOnError" {
				decision = exprString(g, kv.Value)
			}
			return true
		})
		if decision == "" {
			lib.Fatalf("the constructor in %s no longer sets decisionOnError", sarFile)
		}
		fmt.Fprintf(&b, "/-- `decisionOnError:` of NewMultiClusterSubjectAccessReviewAuthorizer -/\ndef decisionOnError : String := %q\n", decision)
		authz := lib.FuncDecl(sar, "MultiClusterSubjectAccessReviewAuthorizer", "Authorize")
		if authz == nil {
			lib.Fatalf("Authorize not found in %s", sarFile)
		}
		lru := callsTo(authz, "cache", "NewLRUExpireCache")
		if len(lru) != 1 || len(lru[0].Args) != 1 {
			lib.Fatalf("Authorize no longer creates exactly one cache.NewLRUExpireCache(n)")
		}
		fmt.Fprintf(&b, "def sarLRUSize : String := %q\n", exprString(g, lru[0].Args[0]))
		fmt.Fprintf(&b, "/-- fields of `cacheKey` in the authorizer ([] when the type is gone) -/\ndef sarCacheKey : List (String × String) := %s\n", leanPairs(structFields(g, sar, "cacheKey")))
		fmt.Fprintf(&b, "/-- first argument of every `a.caches.<m>(…)` in Authorize -/\ndef sarCacheMapCalls : List String := %s\n", lib.LeanStrList(cacheMapKeys(g, authz)))
		// how many times Authorize resolves the host
		fmt.Fprintf(&b, "def sarClientForCalls : Nat := %d\n", countMethodCalls(authz, "ClientFor"))

		// ---- authenticator
		tok := g.ParseFile(tokFile)
		authn := lib.FuncDecl(tok, "multiClusterTokenReviewAuthenticator", "AuthenticateToken")
		if authn == nil {
			lib.Fatalf("AuthenticateToken not found in %s", tokFile)
		}
		nw := callsTo(authn, "tokencache", "New")
		if len(nw) != 1 || len(nw[0].Args) != 4 {
			lib.Fatalf("AuthenticateToken no longer creates exactly one tokencache.New(auth, cacheErrs, successTTL, failureTTL)")
		}
		fmt.Fprintf(&b, "/-- second argument (`cacheErrs`) of tokencache.New -/\ndef tokenCacheErrs : String := %q\n", exprString(g, nw[0].Args[1]))
		fmt.Fprintf(&b, "def tokenCacheTTLArgs : List String := %s\n", lib.LeanStrList([]string{exprString(g, nw[0].Args[2]), exprString(g, nw[0].Args[3])}))
		fmt.Fprintf(&b, "def tokenCacheKey : List (String × String) := %s\n", leanPairs(structFields(g, tok, "cacheKey")))
		fmt.Fprintf(&b, "def tokenCacheMapCalls : List String := %s\n", lib.LeanStrList(cacheMapKeys(g, authn)))
		closure := lib.FuncDecl(tok, "multiClusterTokenReviewAuthenticator", "authenticateTokenForHost")
		if closure == nil {
			lib.Fatalf("authenticateTokenForHost not found in %s", tokFile)
		}
		fmt.Fprintf(&b, "def tokenClientForCalls : Nat × Nat := (%d, %d)\n", countMethodCalls(authn, "ClientFor"), countMethodCalls(closure, "ClientFor"))
		// does the function refuse a request whose already-bound upstream cluster differs from the cluster resolved now?
		fmt.Fprintf(&b, "/-- AuthenticateToken compares info.UpstreamCluster with the cluster returned by ClientFor -/\ndef bindsTokenToUpstream : Bool := %v\n", comparesUpstream(g, authn))
		fmt.Fprintf(&b, "/-- Authorize compares info.UpstreamCluster with the cluster returned by ClientFor -/\ndef bindsSarToUpstream : Bool := %v\n", comparesUpstream(g, authz))
		// ---- dispatcher: which cluster does it proxy to?
		disp := g.ParseFile(dispFile)
		serve := lib.FuncDecl(disp, "dispatcher", "ServeHTTP")
		if serve == nil {
			lib.Fatalf("dispatcher.ServeHTTP not found in %s", dispFile)
		}
		fmt.Fprintf(&b, "/-- dispatcher.ServeHTTP: the receiver of MatchAttributes is a variable defined as `extraInfo.UpstreamCluster` -/\ndef dispatcherUsesBoundCluster : Bool := %v\n", dispatchesToBound(g, serve))
		// ---- the shipped filter order (cmd/kube-gateway/app/proxy.go): every `handler = pkg.WithX(handler, …)` in order,
		// innermost first (each later one wraps the earlier ones and so runs BEFORE them)
		app := g.ParseFile(appFile)
		build := lib.FuncDecl(app, "", "buildProxyHandlerChainFunc")
		if build == nil {
			lib.Fatalf("buildProxyHandlerChainFunc not found in %s", appFile)
		}
		var chain []string
		ast.Inspect(build, func(n ast.Node) bool {
			as, ok := n.(*ast.AssignStmt)
			if !ok || len(as.Lhs) != 1 || len(as.Rhs) != 1 {
				return true
			}
			if id, ok := as.Lhs[0].(*ast.Ident); !ok || id.Name != "handler" {
				return true
			}
			if c, ok := as.Rhs[0].(*ast.CallExpr); ok {
				if sel, ok := c.Fun.(*ast.SelectorExpr); ok {
					chain = append(chain, sel.Sel.Name)
				}
			}
			return true
		})
		if len(chain) == 0 {
			lib.Fatalf("no filter found in buildProxyHandlerChainFunc")
		}
		fmt.Fprintf(&b, "/-- filters of buildProxyHandlerChainFunc, innermost first -/\ndef proxyChain : List String := %s\n", lib.LeanStrList(chain))
		b.WriteString("end KG.Gen.C12\n")
		g.Emit("C12.lean", b.String())
	})
}

// comparesUpstream: the function contains `info.UpstreamCluster != cluster` (or ==, either order).
func comparesUpstream(g *lib.Gen, fn *ast.FuncDecl) bool {
	found := false
	ast.Inspect(fn, func(n ast.Node) bool {
		be, ok := n.(*ast.BinaryExpr)
		if !ok || (be.Op != token.NEQ && be.Op != token.EQL) {
			return true
		}
		x, y := exprString(g, be.X), exprString(g, be.Y)
		if (x == "info.UpstreamCluster" && y == "cluster") || (y == "info.UpstreamCluster" && x == "cluster") {
			found = true
		}
		return true
	})
	return found
}

// dispatchesToBound: `X.MatchAttributes(…)` is called on an identifier X whose every definition / assignment in the
// function has the right-hand side `extraInfo.UpstreamCluster`.
func dispatchesToBound(g *lib.Gen, fn *ast.FuncDecl) bool {
	recv := ""
	ast.Inspect(fn, func(n ast.Node) bool {
		if c, ok := n.(*ast.CallExpr); ok {
			if sel, ok := c.Fun.(*ast.SelectorExpr); ok && sel.Sel.Name == "MatchAttributes" {
				if id, ok := sel.X.(*ast.Ident); ok {
					recv = id.Name
				}
			}
		}
		return true
	})
	if recv == "" {
		return false
	}
	defs, good := 0, 0
	ast.Inspect(fn, func(n ast.Node) bool {
		as, ok := n.(*ast.AssignStmt)
		if !ok {
			return true
		}
		for i, l := range as.Lhs {
			if id, ok := l.(*ast.Ident); ok && id.Name == recv {
				defs++
				if len(as.Rhs) == len(as.Lhs) && exprString(g, as.Rhs[i]) == "extraInfo.UpstreamCluster" {
					good++
				}
			}
		}
		return true
	})
	return defs > 0 && defs == good
}

func countMethodCalls(node ast.Node, method string) int {
	n := 0
	ast.Inspect(node, func(x ast.Node) bool {
		if c, ok := x.(*ast.CallExpr); ok {
			if sel, ok := c.Fun.(*ast.SelectorExpr); ok && sel.Sel.Name == method {
				n++
			}
		}
		return true
	})
	return n
}
