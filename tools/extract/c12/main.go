// Regenerates lean/KG/Gen/C12.lean: the facts of the multi-cluster token authenticator / SAR authorizer that the
// Lean model KG.Model.AuthCache takes from the source instead of hard-coding:
//
//   - pkg/gateway/authorization/webhook/subjectaccessreview.go: const maxControlledAttrCacheSize, the
//     `decisionOnError:` value of the constructor, the size of the LRU cache, the fields of `cacheKey`;
//   - pkg/gateway/authentication/token/webhook/tokenreview.go: the `cacheErrs` argument of tokencache.New,
//     the fields of `cacheKey`.
//
// Values that are merely *read* are emitted as they are found (the Lean side states what they must be, so a
// changed value breaks a theorem and is reported as such); the extractor fails only when a construct it reads
// is no longer there at all.
package main

import (
	"fmt"
	"go/ast"
	"go/printer"
	"go/token"
	"sort"
	"strings"

	"extract/lib"
)

const (
	appFile  = "cmd/kube-gateway/app/proxy.go"
	dispFile = "pkg/gateway/proxy/dispatcher/dispatcher.go"
	sarFile = "pkg/gateway/authorization/webhook/subjectaccessreview.go"
	tokFile = "pkg/gateway/authentication/token/webhook/tokenreview.go"
)

func exprString(g *lib.Gen, e ast.Expr) string {
	var b strings.Builder
	printer.Fprint(&b, g.Fset(), e)
	return b.String()
}

// structFields returns [(field name, type)] of `type <name> struct`, or nil when there is no such type.
func structFields(g *lib.Gen, f *ast.File, name string) [][2]string {
	var out [][2]string
	for _, d := range f.Decls {
		gd, ok := d.(*ast.GenDecl)
		if !ok || gd.Tok != token.TYPE {
			continue
		}
		for _, s := range gd.Specs {
			ts := s.(*ast.TypeSpec)
			st, ok := ts.Type.(*ast.StructType)
			if !ok || ts.Name.Name != name {
				continue
			}
			for _, fl := range st.Fields.List {
				for _, n := range fl.Names {
					out = append(out, [2]string{n.Name, exprString(g, fl.Type)})
				}
			}
		}
	}
	return out
}

func leanPairs(l [][2]string) string {
	q := make([]string, len(l))
	for i, p := range l {
		q[i] = fmt.Sprintf("(%q, %q)", p[0], p[1])
	}
	return "[" + strings.Join(q, ", ") + "]"
}

// callsTo collects every call `pkg.fn(...)` inside node.
func callsTo(node ast.Node, pkg, fn string) []*ast.CallExpr {
	var out []*ast.CallExpr
	ast.Inspect(node, func(n ast.Node) bool {
		c, ok := n.(*ast.CallExpr)
		if !ok {
			return true
		}
		if sel, ok := c.Fun.(*ast.SelectorExpr); ok && sel.Sel.Name == fn {
			if id, ok := sel.X.(*ast.Ident); ok && id.Name == pkg {
				out = append(out, c)
			}
		}
		return true
	})
	return out
}

// keyArg: what the first argument of `a.caches.<method>(k, …)` is, for every such call in fn (printed source).
func cacheMapKeys(g *lib.Gen, fn *ast.FuncDecl) []string {
	var out []string
	ast.Inspect(fn, func(n ast.Node) bool {
		c, ok := n.(*ast.CallExpr)
		if !ok || len(c.Args) == 0 {
			return true
		}
		sel, ok := c.Fun.(*ast.SelectorExpr)
		if !ok {
			return true
		}
		if inner, ok := sel.X.(*ast.SelectorExpr); ok && inner.Sel.Name == "caches" {
			out = append(out, sel.Sel.Name+":"+exprString(g, c.Args[0]))
		}
		return true
	})
	return out
}

// ---- reachability: the functions of the same file a root function can call (methods on any receiver or plain functions,
// found by name), a few levels deep. Facts are stated about this set, so that splitting a function into helpers, or
// renaming a helper, does not change them.
func reachable(f *ast.File, root *ast.FuncDecl, depth int) []*ast.FuncDecl {
	byName := map[string]*ast.FuncDecl{}
	for _, d := range f.Decls {
		if fd, ok := d.(*ast.FuncDecl); ok {
			byName[fd.Name.Name] = fd
		}
	}
	seen := map[*ast.FuncDecl]bool{root: true}
	out := []*ast.FuncDecl{root}
	frontier := []*ast.FuncDecl{root}
	for ; depth > 0 && len(frontier) > 0; depth-- {
		var next []*ast.FuncDecl
		for _, fn := range frontier {
			ast.Inspect(fn, func(n ast.Node) bool {
				c, ok := n.(*ast.CallExpr)
				if !ok {
					return true
				}
				name := ""
				switch x := c.Fun.(type) {
				case *ast.Ident:
					name = x.Name
				case *ast.SelectorExpr:
					if _, ok := x.X.(*ast.Ident); ok { // recv.method(...)
						name = x.Sel.Name
					}
				}
				if fd := byName[name]; fd != nil && !seen[fd] {
					seen[fd] = true
					out = append(out, fd)
					next = append(next, fd)
				}
				return true
			})
		}
		frontier = next
	}
	return out
}

func inspectAll(fns []*ast.FuncDecl, f func(ast.Node) bool) {
	for _, fn := range fns {
		ast.Inspect(fn, f)
	}
}

func countCalls(fns []*ast.FuncDecl, method string) int {
	n := 0
	inspectAll(fns, func(x ast.Node) bool {
		if c, ok := x.(*ast.CallExpr); ok {
			if sel, ok := c.Fun.(*ast.SelectorExpr); ok && sel.Sel.Name == method {
				n++
			}
		}
		return true
	})
	return n
}

// recvStruct: the struct type the method's receiver names.
func recvStruct(f *ast.File, fn *ast.FuncDecl) (string, *ast.StructType) {
	if fn.Recv == nil || len(fn.Recv.List) != 1 {
		return "", nil
	}
	t := fn.Recv.List[0].Type
	if st, ok := t.(*ast.StarExpr); ok {
		t = st.X
	}
	id, ok := t.(*ast.Ident)
	if !ok {
		return "", nil
	}
	for _, d := range f.Decls {
		if gd, ok := d.(*ast.GenDecl); ok && gd.Tok == token.TYPE {
			for _, sp := range gd.Specs {
				ts := sp.(*ast.TypeSpec)
				if st, ok := ts.Type.(*ast.StructType); ok && ts.Name.Name == id.Name {
					return id.Name, st
				}
			}
		}
	}
	return id.Name, nil
}

// tableKeyFieldTypes: the receiver keeps ONE shared table of caches (a sync.Map, or a map guarded by a lock); the fact is
// the (sorted) field types of the table's key type. For map[K]V the key type is K; for a sync.Map it is the type of the
// first argument of the table's Load/LoadOrStore/Store/Delete calls (a composite literal T{…}, a local defined by one, or
// a parameter declared with type T) — all of them must agree.
func tableKeyFieldTypes(g *lib.Gen, f *ast.File, root *ast.FuncDecl, fns []*ast.FuncDecl) []string {
	_, st := recvStruct(f, root)
	if st == nil {
		return nil
	}
	keyTypes := map[string]bool{}
	var syncFields []string
	for _, fl := range st.Fields.List {
		switch t := fl.Type.(type) {
		case *ast.MapType:
			if id, ok := t.Key.(*ast.Ident); ok {
				keyTypes[id.Name] = true
			}
		case *ast.SelectorExpr:
			if exprString(g, t) == "sync.Map" {
				for _, n := range fl.Names {
					syncFields = append(syncFields, n.Name)
				}
			}
		}
	}
	for _, fn := range fns {
		// local name -> type name, from `x := T{…}` and from parameters `x T`
		local := map[string]string{}
		if fn.Type.Params != nil {
			for _, p := range fn.Type.Params.List {
				if id, ok := p.Type.(*ast.Ident); ok {
					for _, n := range p.Names {
						local[n.Name] = id.Name
					}
				}
			}
		}
		ast.Inspect(fn, func(n ast.Node) bool {
			if as, ok := n.(*ast.AssignStmt); ok && len(as.Lhs) == len(as.Rhs) {
				for i := range as.Lhs {
					if id, ok := as.Lhs[i].(*ast.Ident); ok {
						if cl, ok := as.Rhs[i].(*ast.CompositeLit); ok {
							if t, ok := cl.Type.(*ast.Ident); ok {
								local[id.Name] = t.Name
							}
						}
					}
				}
			}
			return true
		})
		ast.Inspect(fn, func(n ast.Node) bool {
			c, ok := n.(*ast.CallExpr)
			if !ok || len(c.Args) == 0 {
				return true
			}
			sel, ok := c.Fun.(*ast.SelectorExpr)
			if !ok {
				return true
			}
			inner, ok := sel.X.(*ast.SelectorExpr)
			if !ok {
				return true
			}
			isTable := false
			for _, sf := range syncFields {
				if inner.Sel.Name == sf {
					isTable = true
				}
			}
			switch sel.Sel.Name {
			case "Load", "LoadOrStore", "Store", "Delete", "LoadAndDelete":
			default:
				isTable = false
			}
			if !isTable {
				return true
			}
			switch a := c.Args[0].(type) {
			case *ast.CompositeLit:
				if t, ok := a.Type.(*ast.Ident); ok {
					keyTypes[t.Name] = true
				}
			case *ast.Ident:
				if t, ok := local[a.Name]; ok {
					keyTypes[t] = true
				} else {
					keyTypes["?"+a.Name] = true
				}
			default:
				keyTypes["?"+exprString(g, a)] = true
			}
			return true
		})
	}
	if len(keyTypes) != 1 {
		var l []string
		for k := range keyTypes {
			l = append(l, "AMBIGUOUS:"+k)
		}
		sort.Strings(l)
		return l
	}
	var types []string
	for k := range keyTypes {
		for _, p := range structFields(g, f, k) {
			types = append(types, p[1])
		}
	}
	sort.Strings(types)
	return types
}

// bindsToUpstream: somewhere in the functions a comparison (!= or ==) has on one side the request's bound cluster
// (`X.UpstreamCluster`, or a local defined by it) and on the other side the cluster a ClientFor call returned (the first
// result of `c, … := ….ClientFor(…)`).
func bindsToUpstream(g *lib.Gen, fns []*ast.FuncDecl) bool {
	found := false
	for _, fn := range fns {
		bound := map[string]bool{}    // locals that are the bound cluster
		resolved := map[string]bool{} // locals that are ClientFor's cluster
		ast.Inspect(fn, func(n ast.Node) bool {
			as, ok := n.(*ast.AssignStmt)
			if !ok {
				return true
			}
			if len(as.Rhs) == 1 {
				if c, ok := as.Rhs[0].(*ast.CallExpr); ok {
					if sel, ok := c.Fun.(*ast.SelectorExpr); ok && sel.Sel.Name == "ClientFor" && len(as.Lhs) >= 1 {
						if id, ok := as.Lhs[0].(*ast.Ident); ok {
							resolved[id.Name] = true
						}
					}
				}
			}
			if len(as.Lhs) == len(as.Rhs) {
				for i := range as.Lhs {
					if id, ok := as.Lhs[i].(*ast.Ident); ok {
						if sel, ok := as.Rhs[i].(*ast.SelectorExpr); ok && sel.Sel.Name == "UpstreamCluster" {
							bound[id.Name] = true
						}
					}
				}
			}
			return true
		})
		isBound := func(e ast.Expr) bool {
			switch x := e.(type) {
			case *ast.SelectorExpr:
				return x.Sel.Name == "UpstreamCluster"
			case *ast.Ident:
				return bound[x.Name]
			}
			return false
		}
		isResolved := func(e ast.Expr) bool {
			id, ok := e.(*ast.Ident)
			return ok && resolved[id.Name]
		}
		ast.Inspect(fn, func(n ast.Node) bool {
			be, ok := n.(*ast.BinaryExpr)
			if ok && (be.Op == token.NEQ || be.Op == token.EQL) {
				if (isBound(be.X) && isResolved(be.Y)) || (isBound(be.Y) && isResolved(be.X)) {
					found = true
				}
			}
			return true
		})
	}
	return found
}

func main() {
	lib.Main(func(g *lib.Gen) {
		var b strings.Builder
		b.WriteString("namespace KG.Gen.C12\n")
		b.WriteString("/-! facts read from " + sarFile + ", " + tokFile + ", " + dispFile + ", " + appFile + "\n" +
			"    (stated about everything the entry point can reach in its file, by role rather than by spelling) -/\n")

		// ---- authorizer
		sar := g.ParseFile(sarFile)
		authz := lib.FuncDecl(sar, "MultiClusterSubjectAccessReviewAuthorizer", "Authorize")
		if authz == nil {
			lib.Fatalf("Authorize not found in %s", sarFile)
		}
		authzAll := reachable(sar, authz, 3)
		// the constant the summed attribute lengths are compared with (`… < C` next to GetNamespace / GetPath)
		maxName := ""
		for _, d := range sar.Decls {
			fd, ok := d.(*ast.FuncDecl)
			if !ok || fd.Body == nil {
				continue
			}
			src := exprStringNode(g, fd.Body)
			if !strings.Contains(src, "GetNamespace()") || !strings.Contains(src, "GetPath()") {
				continue
			}
			ast.Inspect(fd, func(n ast.Node) bool {
				if be, ok := n.(*ast.BinaryExpr); ok && be.Op == token.LSS {
					if id, ok := be.Y.(*ast.Ident); ok {
						maxName = id.Name
					}
				}
				return true
			})
		}
		if maxName == "" {
			maxName = "maxControlledAttrCacheSize"
		}
		fmt.Fprintf(&b, "/-- the bound of `shouldCache` (constant %s) -/\ndef maxControlledAttrCacheSize : Nat := %s\n", maxName, lib.IntLit(g.Const(sarFile, maxName)))
		// the value the constructor gives to the authorizer's field of type authorizer.Decision
		_, st := recvStruct(sar, authz)
		decisionField := ""
		if st != nil {
			for _, fl := range st.Fields.List {
				if exprString(g, fl.Type) == "authorizer.Decision" && len(fl.Names) == 1 {
					decisionField = fl.Names[0].Name
				}
			}
		}
		decision := ""
		for _, d := range sar.Decls {
			fd, ok := d.(*ast.FuncDecl)
			if !ok || fd.Recv != nil {
				continue
			}
			ast.Inspect(fd, func(n ast.Node) bool {
				if kv, ok := n.(*ast.KeyValueExpr); ok {
					if id, ok := kv.Key.(*ast.Ident); ok && id.Name == decisionField && decisionField != "" {
						decision = exprString(g, kv.Value)
					}
				}
				return true
			})
		}
		if decision == "" {
			lib.Fatalf("no constructor in %s sets the authorizer's authorizer.Decision field", sarFile)
		}
		fmt.Fprintf(&b, "/-- what the constructor stores as the decision returned on errors -/\ndef decisionOnError : String := %q\n", decision)
		fmt.Fprintf(&b, "/-- sorted field types of the key of the authorizer's shared table of decision caches -/\ndef sarCacheKeyTypes : List String := %s\n", lib.LeanStrList(tableKeyFieldTypes(g, sar, authz, authzAll)))
		fmt.Fprintf(&b, "/-- ClientFor call sites Authorize can reach -/\ndef sarClientForSites : Nat := %d\n", countCalls(authzAll, "ClientFor"))

		// ---- authenticator
		tok := g.ParseFile(tokFile)
		authn := lib.FuncDecl(tok, "multiClusterTokenReviewAuthenticator", "AuthenticateToken")
		if authn == nil {
			lib.Fatalf("AuthenticateToken not found in %s", tokFile)
		}
		authnAll := reachable(tok, authn, 3)
		var nw []*ast.CallExpr
		for _, fn := range authnAll {
			nw = append(nw, callsTo(fn, "tokencache", "New")...)
		}
		cacheErrs := "?"
		if len(nw) == 1 && len(nw[0].Args) == 4 {
			cacheErrs = exprString(g, nw[0].Args[1])
		}
		fmt.Fprintf(&b, "/-- `cacheErrs` argument of the one tokencache.New AuthenticateToken can reach -/\ndef tokenCacheErrs : String := %q\n", cacheErrs)
		fmt.Fprintf(&b, "def tokenCacheKeyTypes : List String := %s\n", lib.LeanStrList(tableKeyFieldTypes(g, tok, authn, authnAll)))
		fmt.Fprintf(&b, "/-- ClientFor call sites AuthenticateToken can reach (the first resolution and the review closure's) -/\ndef tokenClientForSites : Nat := %d\n", countCalls(authnAll, "ClientFor"))
		fmt.Fprintf(&b, "/-- AuthenticateToken compares the request's bound cluster with the cluster ClientFor returned -/\ndef bindsTokenToUpstream : Bool := %v\n", bindsToUpstream(g, authnAll))
		fmt.Fprintf(&b, "/-- Authorize compares the request's bound cluster with the cluster ClientFor returned -/\ndef bindsSarToUpstream : Bool := %v\n", bindsToUpstream(g, authzAll))
		// ---- dispatcher: which cluster does it proxy to?
		disp := g.ParseFile(dispFile)
		serve := lib.FuncDecl(disp, "dispatcher", "ServeHTTP")
		if serve == nil {
			lib.Fatalf("dispatcher.ServeHTTP not found in %s", dispFile)
		}
		fmt.Fprintf(&b, "/-- dispatcher.ServeHTTP: the receiver of MatchAttributes is a variable defined as `extraInfo.UpstreamCluster` -/\ndef dispatcherUsesBoundCluster : Bool := %v\n", dispatchesToBound(g, serve))
		// ---- the shipped filter order (cmd/kube-gateway/app/proxy.go): every `handler = pkg.WithX(handler, …)` in order,
		// innermost first (each later one wraps the earlier ones and so runs BEFORE them)
		app := g.ParseFile(appFile)
		build := lib.FuncDecl(app, "", "buildProxyHandlerChainFunc")
		if build == nil {
			lib.Fatalf("buildProxyHandlerChainFunc not found in %s", appFile)
		}
		var chain []string
		ast.Inspect(build, func(n ast.Node) bool {
			as, ok := n.(*ast.AssignStmt)
			if !ok || len(as.Lhs) != 1 || len(as.Rhs) != 1 {
				return true
			}
			if id, ok := as.Lhs[0].(*ast.Ident); !ok || id.Name != "handler" {
				return true
			}
			if c, ok := as.Rhs[0].(*ast.CallExpr); ok {
				if sel, ok := c.Fun.(*ast.SelectorExpr); ok {
					chain = append(chain, sel.Sel.Name)
				}
			}
			return true
		})
		if len(chain) == 0 {
			lib.Fatalf("no filter found in buildProxyHandlerChainFunc")
		}
		fmt.Fprintf(&b, "/-- filters of buildProxyHandlerChainFunc, innermost first -/\ndef proxyChain : List String := %s\n", lib.LeanStrList(chain))
		b.WriteString("end KG.Gen.C12\n")
		g.Emit("C12.lean", b.String())
	})
}

func exprStringNode(g *lib.Gen, n ast.Node) string {
	var b strings.Builder
	printer.Fprint(&b, g.Fset(), n)
	return b.String()
}

// comparesUpstream: the function contains `info.UpstreamCluster != cluster` (or ==, either order).
func comparesUpstream(g *lib.Gen, fn *ast.FuncDecl) bool {
	found := false
	ast.Inspect(fn, func(n ast.Node) bool {
		be, ok := n.(*ast.BinaryExpr)
		if !ok || (be.Op != token.NEQ && be.Op != token.EQL) {
			return true
		}
		x, y := exprString(g, be.X), exprString(g, be.Y)
		if (x == "info.UpstreamCluster" && y == "cluster") || (y == "info.UpstreamCluster" && x == "cluster") {
			found = true
		}
		return true
	})
	return found
}

// dispatchesToBound: `X.MatchAttributes(…)` is called on an identifier X whose every definition / assignment in the
// function has the right-hand side `extraInfo.UpstreamCluster`.
func dispatchesToBound(g *lib.Gen, fn *ast.FuncDecl) bool {
	recv := ""
	ast.Inspect(fn, func(n ast.Node) bool {
		if c, ok := n.(*ast.CallExpr); ok {
			if sel, ok := c.Fun.(*ast.SelectorExpr); ok && sel.Sel.Name == "MatchAttributes" {
				if id, ok := sel.X.(*ast.Ident); ok {
					recv = id.Name
				}
			}
		}
		return true
	})
	if recv == "" {
		return false
	}
	defs, good := 0, 0
	ast.Inspect(fn, func(n ast.Node) bool {
		as, ok := n.(*ast.AssignStmt)
		if !ok {
			return true
		}
		for i, l := range as.Lhs {
			if id, ok := l.(*ast.Ident); ok && id.Name == recv {
				defs++
				if len(as.Rhs) == len(as.Lhs) && exprString(g, as.Rhs[i]) == "extraInfo.UpstreamCluster" {
					good++
				}
			}
		}
		return true
	})
	return defs > 0 && defs == good
}

func countMethodCalls(node ast.Node, method string) int {
	n := 0
	ast.Inspect(node, func(x ast.Node) bool {
		if c, ok := x.(*ast.CallExpr); ok {
			if sel, ok := c.Fun.(*ast.SelectorExpr); ok && sel.Sel.Name == method {
				n++
			}
		}
		return true
	})
	return n
}
