// Regenerates lean/KG/Gen/C03.lean: shape facts of pkg/gateway/proxy/dispatcher/dispatcher.go that tie the
// model's `Pop` outcome to what the client sees (503) and to where the request is forwarded (the picked endpoint).
package main

import (
	"fmt"
	"go/ast"
	"go/token"
	"strings"

	"extract/lib"
)

func sel(e ast.Expr) string {
	switch x := e.(type) {
	case *ast.Ident:
		return x.Name
	case *ast.SelectorExpr:
		return sel(x.X) + "." + x.Sel.Name
	case *ast.CallExpr:
		return sel(x.Fun) + "()"
	}
	return "?"
}

func main() {
	lib.Main(func(g *lib.Gen) {
		const file = "pkg/gateway/proxy/dispatcher/dispatcher.go"
		f := g.ParseFile(file)
		fd := lib.FuncDecl(f, "dispatcher", "ServeHTTP")
		if fd == nil || fd.Body == nil {
			lib.Fatalf("dispatcher.ServeHTTP not found in %s", file)
		}
		// 1. the statement `endpoint, err := endpointPicker.Pop()` and the `if err != nil {…}` that follows it
		popCalls := 0
		ast.Inspect(fd.Body, func(n ast.Node) bool {
			if c, ok := n.(*ast.CallExpr); ok {
				if s, ok := c.Fun.(*ast.SelectorExpr); ok && s.Sel.Name == "Pop" {
					popCalls++
				}
			}
			return true
		})
		helper, reason, returns, picked := "", "", false, ""
		stmts := fd.Body.List
		for i, st := range stmts {
			as, ok := st.(*ast.AssignStmt)
			if !ok || as.Tok != token.DEFINE || len(as.Rhs) != 1 || len(as.Lhs) != 2 {
				continue
			}
			if sel(as.Rhs[0]) != "endpointPicker.Pop()" {
				continue
			}
			picked = sel(as.Lhs[0])
			if i+1 >= len(stmts) {
				lib.Fatalf("nothing follows the Pop() call")
			}
			ifs, ok := stmts[i+1].(*ast.IfStmt)
			if !ok {
				lib.Fatalf("the statement after Pop() is not an if")
			}
			if be, ok := ifs.Cond.(*ast.BinaryExpr); !ok || sel(be.X) != sel(as.Lhs[1]) || be.Op != token.NEQ || sel(be.Y) != "nil" {
				lib.Fatalf("the if after Pop() does not test err != nil")
			}
			for _, b := range ifs.Body.List {
				switch x := b.(type) {
				case *ast.ExprStmt:
					if c, ok := x.X.(*ast.CallExpr); ok && strings.HasSuffix(sel(c.Fun), "responseError") && len(c.Args) == 4 {
						if inner, ok := c.Args[0].(*ast.CallExpr); ok {
							helper = sel(inner.Fun)
						}
						reason = sel(c.Args[3])
					}
				case *ast.ReturnStmt:
					returns = true
				}
			}
		}
		if picked == "" {
			lib.Fatalf("`x, err := endpointPicker.Pop()` not found in ServeHTTP")
		}
		// 2. the forwarding target is built from the picked endpoint
		parsedFrom, hostFrom, schemeFrom := "", "", ""
		var parsedVar string
		transportArgs := []string{}
		ast.Inspect(fd.Body, func(n ast.Node) bool {
			switch x := n.(type) {
			case *ast.AssignStmt:
				if len(x.Rhs) == 1 {
					if c, ok := x.Rhs[0].(*ast.CallExpr); ok && sel(c.Fun) == "url.Parse" && len(c.Args) == 1 {
						parsedFrom = sel(c.Args[0])
						parsedVar = sel(x.Lhs[0])
					}
					if len(x.Lhs) == 1 && sel(x.Lhs[0]) == "location.Host" {
						hostFrom = sel(x.Rhs[0])
					}
					if len(x.Lhs) == 1 && sel(x.Lhs[0]) == "location.Scheme" {
						schemeFrom = sel(x.Rhs[0])
					}
				}
			case *ast.CallExpr:
				if sel(x.Fun) == "NewUpgradeAwareHandler" {
					for _, a := range x.Args {
						transportArgs = append(transportArgs, sel(a))
					}
				}
			}
			return true
		})
		hostOK := parsedFrom == picked+".Endpoint" && hostFrom == parsedVar+".Host" && schemeFrom == parsedVar+".Scheme"
		tsOK := len(transportArgs) >= 3 && transportArgs[0] == "location" && transportArgs[1] == picked+".ProxyTransport" && transportArgs[2] == picked+".PorxyUpgradeTransport"
		// 3. how syncEndpoints resets the load-balancer cursors (pkg/clusters/clusterinfo.go)
		const cfile = "pkg/clusters/clusterinfo.go"
		cf := g.ParseFile(cfile)
		se := lib.FuncDecl(cf, "ClusterInfo", "syncEndpoints")
		if se == nil || se.Body == nil {
			lib.Fatalf("ClusterInfo.syncEndpoints not found in %s", cfile)
		}
		assignsNew, inPlace := false, false
		ast.Inspect(se.Body, func(n ast.Node) bool {
			switch x := n.(type) {
			case *ast.AssignStmt:
				if len(x.Lhs) == 1 && strings.HasSuffix(sel(x.Lhs[0]), ".loadbalancer") {
					assignsNew = true // the sync.Map struct (its mutex included) is overwritten
				}
			case *ast.CallExpr:
				if f := sel(x.Fun); strings.HasSuffix(f, ".loadbalancer.Delete") || strings.HasSuffix(f, ".loadbalancer.Range") {
					inPlace = true
				}
			}
			return true
		})
		if !assignsNew && !inPlace {
			lib.Fatalf("syncEndpoints no longer resets c.loadbalancer in a way this extractor knows (neither an assignment nor Range/Delete)")
		}
		// 4. the decision of controllers.GatewayHealthCheck: where it reports healthy
		const hfile = "pkg/gateway/controllers/upstream_controller.go"
		hf := g.ParseFile(hfile)
		hc := lib.FuncDecl(hf, "", "GatewayHealthCheck")
		if hc == nil || hc.Body == nil {
			lib.Fatalf("GatewayHealthCheck not found in %s", hfile)
		}
		trueCalls, falseCalls := 0, 0
		trueGuard, outerGuard, inElse := "", "", false
		var walk func(n ast.Node, guards []string, elseOf []string)
		expr := func(e ast.Expr) string {
			if be, ok := e.(*ast.BinaryExpr); ok {
				return sel(be.X) + " " + be.Op.String() + " " + sel(be.Y)
			}
			return sel(e)
		}
		walk = func(n ast.Node, guards []string, elseOf []string) {
			switch x := n.(type) {
			case *ast.IfStmt:
				c := expr(x.Cond)
				walk(x.Body, append(append([]string{}, guards...), c), elseOf)
				if x.Else != nil {
					walk(x.Else, guards, append(append([]string{}, elseOf...), c))
				}
				return
			case *ast.BlockStmt:
				for _, st := range x.List {
					walk(st, guards, elseOf)
				}
				return
			case *ast.ExprStmt:
				if c, ok := x.X.(*ast.CallExpr); ok && strings.HasSuffix(sel(c.Fun), ".UpdateStatus") && len(c.Args) == 3 {
					switch sel(c.Args[0]) {
					case "true":
						trueCalls++
						if len(guards) > 0 {
							trueGuard = guards[len(guards)-1]
						}
						if len(elseOf) > 0 {
							inElse = true
							outerGuard = elseOf[len(elseOf)-1]
						}
					case "false":
						falseCalls++
					default:
						lib.Fatalf("GatewayHealthCheck calls UpdateStatus with a computed health value: shape unknown")
					}
				}
				return
			case *ast.SwitchStmt, *ast.TypeSwitchStmt:
				ast.Inspect(n, func(m ast.Node) bool {
					if c, ok := m.(*ast.CallExpr); ok && strings.HasSuffix(sel(c.Fun), ".UpdateStatus") {
						lib.Fatalf("GatewayHealthCheck calls UpdateStatus inside a switch: shape unknown")
					}
					return true
				})
			}
		}
		walk(hc.Body, nil, nil)
		readsStatus := false
		ast.Inspect(hc.Body, func(n ast.Node) bool {
			if c, ok := n.(*ast.CallExpr); ok && sel(c.Fun) == "result.StatusCode" && len(c.Args) == 1 {
				if u, ok := c.Args[0].(*ast.UnaryExpr); ok && u.Op == token.AND && sel(u.X) == "statusCode" {
					readsStatus = true
				}
			}
			return true
		})
		// 5. the worker goroutine of a health check: between taking a tick and calling the health function, does it look at
		// its context again? (pkg/clusters/endpoint.go, startGatewayHealthCheck)
		const efile = "pkg/clusters/endpoint.go"
		ef := g.ParseFile(efile)
		sg := lib.FuncDecl(ef, "", "startGatewayHealthCheck")
		if sg == nil || sg.Body == nil {
			lib.Fatalf("startGatewayHealthCheck not found in %s", efile)
		}
		workerFound, rechecks := false, false
		ast.Inspect(sg.Body, func(n ast.Node) bool {
			cc, ok := n.(*ast.CommClause)
			if !ok {
				return true
			}
			callsHealth := -1
			for i, st := range cc.Body {
				ast.Inspect(st, func(m ast.Node) bool {
					if c, ok := m.(*ast.CallExpr); ok && strings.HasSuffix(sel(c.Fun), "healthCheckFun") && callsHealth < 0 {
						callsHealth = i
					}
					return true
				})
			}
			if callsHealth < 0 {
				return true
			}
			workerFound = true
			for _, st := range cc.Body[:callsHealth+1] {
				ifs, ok := st.(*ast.IfStmt)
				if !ok {
					continue
				}
				mentionsCtx, leaves := false, false
				ast.Inspect(ifs.Cond, func(m ast.Node) bool {
					if id, ok := m.(*ast.Ident); ok && id.Name == "ctx" {
						mentionsCtx = true
					}
					return true
				})
				ast.Inspect(ifs.Body, func(m ast.Node) bool {
					switch m.(type) {
					case *ast.ReturnStmt, *ast.BranchStmt:
						leaves = true
					}
					return true
				})
				hc := false
				ast.Inspect(ifs.Body, func(m ast.Node) bool {
					if c, ok := m.(*ast.CallExpr); ok && strings.HasSuffix(sel(c.Fun), "healthCheckFun") {
						hc = true
					}
					return true
				})
				if mentionsCtx && leaves && !hc {
					rechecks = true
				}
			}
			return true
		})
		if !workerFound {
			lib.Fatalf("the select case of startGatewayHealthCheck that calls healthCheckFun was not found: shape unknown")
		}
		var b strings.Builder
		b.WriteString("namespace KG.Gen.C03\n")
		b.WriteString("/-! shape of dispatcher.ServeHTTP in " + file + " -/\n")
		fmt.Fprintf(&b, "/-- calls of `.Pop()` in ServeHTTP -/\ndef popCalls : Nat := %d\n", popCalls)
		fmt.Fprintf(&b, "/-- the error constructor answered when `Pop()` fails -/\ndef popErrorHelper : String := %q\n", helper)
		fmt.Fprintf(&b, "/-- the termination reason recorded with it -/\ndef popErrorReason : String := %q\n", reason)
		fmt.Fprintf(&b, "/-- the error branch returns (nothing is forwarded) -/\ndef popErrorReturns : Bool := %v\n", returns)
		fmt.Fprintf(&b, "/-- location.Scheme/Host come from url.Parse(<picked>.Endpoint) -/\ndef forwardHostFromPicked : Bool := %v\n", hostOK)
		fmt.Fprintf(&b, "/-- the proxy handler uses <picked>.ProxyTransport / .PorxyUpgradeTransport -/\ndef transportFromPicked : Bool := %v\n", tsOK)
		fmt.Fprintf(&b, "/-- syncEndpoints resets the cursors by assigning a new sync.Map to c.loadbalancer (overwriting the mutex inside) -/\ndef lbResetAssignsNewMap : Bool := %v\n", assignsNew)
		b.WriteString("/-! the decision of controllers.GatewayHealthCheck in " + hfile + " -/\n")
		fmt.Fprintf(&b, "/-- calls `UpdateStatus(true, …)` / `UpdateStatus(false, …)` -/\ndef healthTrueCalls : Nat := %d\ndef healthFalseCalls : Nat := %d\n", trueCalls, falseCalls)
		fmt.Fprintf(&b, "/-- the innermost condition guarding the `UpdateStatus(true, …)` call -/\ndef healthTrueGuard : String := %q\n", trueGuard)
		fmt.Fprintf(&b, "/-- … which sits in the else branch of this condition -/\ndef healthTrueElseOf : String := %q\ndef healthTrueInElse : Bool := %v\n", outerGuard, inElse)
		fmt.Fprintf(&b, "/-- `statusCode` is what `result.StatusCode(&statusCode)` reports -/\ndef healthReadsStatusCode : Bool := %v\n", readsStatus)
		fmt.Fprintf(&b, "/-- the health-check worker re-checks its context after taking a tick and leaves without probing when it was cancelled -/\ndef healthWorkerRechecksCtx : Bool := %v\n", rechecks)
		b.WriteString("end KG.Gen.C03\n")
		g.Emit("C03.lean", b.String())
	})
}
