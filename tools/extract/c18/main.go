// Regenerates lean/KG/Gen/C18.lean: the heartbeat time-out and the two clean-up periods of
// pkg/ratelimiter/limiter/ratelimter.go (milliseconds), the instance label key, and two shape facts of the
// clean-up passes that cannot be seen by running them once: which timer runs which pass.
package main

import (
	"fmt"
	"go/ast"
	"go/constant"
	"go/token"
	"strings"

	"extract/lib"
)

const file = "pkg/ratelimiter/limiter/ratelimter.go"

var units = map[string]int64{"Nanosecond": 1, "Microsecond": 1000, "Millisecond": 1000000, "Second": 1000000000,
	"Minute": 60000000000, "Hour": 3600000000000}

// evalDur evaluates a constant duration expression built from integer literals, time.<Unit>, other constants of
// the file, `*`, `+` and parentheses (go/types cannot do it without importing package time).
func evalDur(f *ast.File, e ast.Expr, depth int) int64 {
	if depth > 8 {
		lib.Fatalf("constant expression too deep")
	}
	switch x := e.(type) {
	case *ast.ParenExpr:
		return evalDur(f, x.X, depth+1)
	case *ast.BasicLit:
		if x.Kind == token.INT {
			v := constant.MakeFromLiteral(x.Value, token.INT, 0)
			n, ok := constant.Int64Val(v)
			if ok {
				return n
			}
		}
	case *ast.SelectorExpr:
		if id, ok := x.X.(*ast.Ident); ok && id.Name == "time" {
			if u, ok := units[x.Sel.Name]; ok {
				return u
			}
		}
	case *ast.Ident:
		return constExpr(f, x.Name, depth+1)
	case *ast.BinaryExpr:
		a, b := evalDur(f, x.X, depth+1), evalDur(f, x.Y, depth+1)
		switch x.Op {
		case token.MUL:
			return a * b
		case token.ADD:
			return a + b
		}
	}
	lib.Fatalf("%s: duration expression of unexpected shape", file)
	return 0
}

func constExpr(f *ast.File, name string, depth int) int64 {
	for _, d := range f.Decls {
		gd, ok := d.(*ast.GenDecl)
		if !ok || gd.Tok != token.CONST {
			continue
		}
		for _, sp := range gd.Specs {
			vs := sp.(*ast.ValueSpec)
			for i, n := range vs.Names {
				if n.Name == name && i < len(vs.Values) {
					return evalDur(f, vs.Values[i], depth)
				}
			}
		}
	}
	lib.Fatalf("%s: constant %s not found", file, name)
	return 0
}

func ms(g *lib.Gen, name string) string {
	n := constExpr(g.ParseFile(file), name, 0)
	if n < 0 || n%1000000 != 0 {
		lib.Fatalf("%s = %v ns is not a whole non-negative number of milliseconds", name, n)
	}
	return fmt.Sprint(n / 1000000)
}

// timerOf finds `go wait.Until(r.<fn>, <period>, stopCh)` in Run and returns the period identifier.
func timerOf(run *ast.FuncDecl, fn string) string {
	res := ""
	ast.Inspect(run, func(n ast.Node) bool {
		g, ok := n.(*ast.GoStmt)
		if !ok {
			return true
		}
		sel, ok := g.Call.Fun.(*ast.SelectorExpr)
		if !ok || sel.Sel.Name != "Until" || len(g.Call.Args) != 3 {
			return true
		}
		f, ok := g.Call.Args[0].(*ast.SelectorExpr)
		p, ok2 := g.Call.Args[1].(*ast.Ident)
		if ok && ok2 && f.Sel.Name == fn {
			res = p.Name
		}
		return true
	})
	return res
}

// firstCall reports whether the first statement of fn's body is the call r.<callee>().
func callsInOrder(fd *ast.FuncDecl) []string {
	var out []string
	for _, st := range fd.Body.List {
		if es, ok := st.(*ast.ExprStmt); ok {
			if c, ok := es.X.(*ast.CallExpr); ok {
				if s, ok := c.Fun.(*ast.SelectorExpr); ok {
					out = append(out, s.Sel.Name)
				}
			}
		}
	}
	return out
}

func main() {
	lib.Main(func(g *lib.Gen) {
		f := g.ParseFile(file)
		run := lib.FuncDecl(f, "rateLimiter", "Run")
		sync := lib.FuncDecl(f, "rateLimiter", "sync")
		if run == nil || sync == nil || lib.FuncDecl(f, "rateLimiter", "cleanupTimeoutClient") == nil ||
			lib.FuncDecl(f, "rateLimiter", "cleanupUnknownCondition") == nil {
			lib.Fatalf("%s: Run / sync / cleanupTimeoutClient / cleanupUnknownCondition not found", file)
		}
		syncTimer := timerOf(run, "sync")
		unknownTimer := timerOf(run, "cleanupUnknownCondition")
		if syncTimer == "" || unknownTimer == "" {
			lib.Fatalf("%s: Run no longer starts wait.Until(r.sync, …) and wait.Until(r.cleanupUnknownCondition, …)", file)
		}
		calls := callsInOrder(sync)
		label := constant.StringVal(g.Const(file, "RateLimitConditionInstanceLabel"))
		// the label must be the literal the report path writes
		lit := false
		ast.Inspect(lib.FuncDecl(f, "rateLimiter", "UpdateRateLimitConditionStatus"), func(n ast.Node) bool {
			if b, ok := n.(*ast.BasicLit); ok && b.Kind == token.STRING && strings.Trim(b.Value, "\"") == label {
				lit = true
			}
			if id, ok := n.(*ast.Ident); ok && id.Name == "RateLimitConditionInstanceLabel" {
				lit = true
			}
			return true
		})
		var b strings.Builder
		b.WriteString("namespace KG.Gen.C18\n")
		b.WriteString("/-! constants of " + file + " (durations in milliseconds) -/\n")
		fmt.Fprintf(&b, "def clientHeartBeatTimeoutMs : Nat := %s\n", ms(g, "ClientHeartBeatTimeout"))
		fmt.Fprintf(&b, "def syncPeriodMs : Nat := %s\n", ms(g, "syncPeriod"))
		fmt.Fprintf(&b, "def cleanupPeriodMs : Nat := %s\n", ms(g, "cleanupPeriod"))
		fmt.Fprintf(&b, "/-- period constant of the timer that runs `sync` (time-out pass) / `cleanupUnknownCondition` -/\n")
		fmt.Fprintf(&b, "def timeoutPassPeriodMs : Nat := %s\n", ms(g, syncTimer))
		fmt.Fprintf(&b, "def unknownPassPeriodMs : Nat := %s\n", ms(g, unknownTimer))
		fmt.Fprintf(&b, "/-- calls made by `sync()` in order -/\n")
		fmt.Fprintf(&b, "def syncCalls : List String := %s\n", lib.LeanStrList(calls))
		fmt.Fprintf(&b, "def instanceLabel : String := %q\n", label)
		fmt.Fprintf(&b, "def reportWritesInstanceLabel : Bool := %v\n", lit)
		b.WriteString("end KG.Gen.C18\n")
		g.Emit("C18.lean", b.String())
	})
}
