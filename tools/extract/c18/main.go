// Regenerates lean/KG/Gen/C18.lean: the heartbeat time-out (ms), the instance label key, and the two facts about the tick
// schedule that cannot be seen by running a pass once: with which period a timer started by Run reaches the time-out
// pass and the unknown pass. The passes and timers are found by role (what they do), not by name or statement shape.
package main

import (
	"fmt"
	"go/ast"
	"go/constant"
	"go/token"
	"os"
	"path/filepath"
	"strings"

	"extract/lib"
)

const file = "pkg/ratelimiter/limiter/ratelimter.go"

var units = map[string]int64{"Nanosecond": 1, "Microsecond": 1000, "Millisecond": 1000000, "Second": 1000000000,
	"Minute": 60000000000, "Hour": 3600000000000}

// evalDur evaluates a constant duration expression built from integer literals, time.<Unit>, other constants of
// the file, `*`, `+` and parentheses (go/types cannot do it without importing package time).
func evalDur(f *ast.File, e ast.Expr, depth int) int64 {
	if depth > 8 {
		lib.Fatalf("constant expression too deep")
	}
	switch x := e.(type) {
	case *ast.ParenExpr:
		return evalDur(f, x.X, depth+1)
	case *ast.BasicLit:
		if x.Kind == token.INT {
			v := constant.MakeFromLiteral(x.Value, token.INT, 0)
			n, ok := constant.Int64Val(v)
			if ok {
				return n
			}
		}
	case *ast.SelectorExpr:
		if id, ok := x.X.(*ast.Ident); ok && id.Name == "time" {
			if u, ok := units[x.Sel.Name]; ok {
				return u
			}
		}
	case *ast.Ident:
		return constExpr(f, x.Name, depth+1)
	case *ast.BinaryExpr:
		a, b := evalDur(f, x.X, depth+1), evalDur(f, x.Y, depth+1)
		switch x.Op {
		case token.MUL:
			return a * b
		case token.ADD:
			return a + b
		}
	}
	lib.Fatalf("%s: duration expression of unexpected shape", file)
	return 0
}

func constExpr(f *ast.File, name string, depth int) int64 {
	for _, d := range f.Decls {
		gd, ok := d.(*ast.GenDecl)
		if !ok || gd.Tok != token.CONST {
			continue
		}
		for _, sp := range gd.Specs {
			vs := sp.(*ast.ValueSpec)
			for i, n := range vs.Names {
				if n.Name == name && i < len(vs.Values) {
					return evalDur(f, vs.Values[i], depth)
				}
			}
		}
	}
	lib.Fatalf("%s: constant %s not found", file, name)
	return 0
}

func ms(g *lib.Gen, name string) string {
	n := constExpr(g.ParseFile(file), name, 0)
	if n < 0 || n%1000000 != 0 {
		lib.Fatalf("%s = %v ns is not a whole non-negative number of milliseconds", name, n)
	}
	return fmt.Sprint(n / 1000000)
}

// ---- the tick schedule, by ROLE --------------------------------------------------------------------------------------
// What the theorems need is not how Run or sync() are spelt but two semantic facts: (1) a periodic timer started by
// Run reaches - directly or through helpers of the package - the code that compares a heartbeat's age with
// ClientHeartBeatTimeout (the time-out pass), and with which period; (2) a periodic timer reaches the code that walks the
// stored conditions against the heartbeat table and deletes upstreams (the unknown pass), and with which period.

type pkgFuncs map[string]*ast.FuncDecl // function / method name -> declaration (whole package directory)

func loadPkg(g *lib.Gen, dir string) (pkgFuncs, []*ast.File) {
	res := pkgFuncs{}
	var files []*ast.File
	entries, err := os.ReadDir(filepath.Join(g.Repo, dir))
	if err != nil {
		lib.Fatalf("%v", err)
	}
	for _, e := range entries {
		if e.IsDir() || !strings.HasSuffix(e.Name(), ".go") || strings.HasSuffix(e.Name(), "_test.go") {
			continue
		}
		f := g.ParseFile(filepath.Join(dir, e.Name()))
		files = append(files, f)
		for _, d := range f.Decls {
			if fd, ok := d.(*ast.FuncDecl); ok && fd.Body != nil {
				res[fd.Name.Name] = fd
			}
		}
	}
	return res, files
}

// calleeName: r.foo(...) / foo(...) / r.foo used as a value -> "foo" when foo is a function of the package.
func calleeName(e ast.Expr, fns pkgFuncs) string {
	switch x := e.(type) {
	case *ast.SelectorExpr:
		if _, ok := fns[x.Sel.Name]; ok {
			if _, isIdent := x.X.(*ast.Ident); isIdent {
				return x.Sel.Name
			}
		}
	case *ast.Ident:
		if _, ok := fns[x.Name]; ok {
			return x.Name
		}
	}
	return ""
}

// reach: does the code under n (following calls and function values of the package, to the given depth) satisfy pred?
func reach(n ast.Node, fns pkgFuncs, depth int, seen map[string]bool, pred func(ast.Node) bool) bool {
	found := false
	ast.Inspect(n, func(x ast.Node) bool {
		if found || x == nil {
			return false
		}
		if pred(x) {
			found = true
			return false
		}
		if e, ok := x.(ast.Expr); ok && depth > 0 {
			if name := calleeName(e, fns); name != "" && !seen[name] {
				seen[name] = true
				if reach(fns[name].Body, fns, depth-1, seen, pred) {
					found = true
					return false
				}
			}
		}
		return true
	})
	return found
}

func usesIdent(name string) func(ast.Node) bool {
	return func(n ast.Node) bool { id, ok := n.(*ast.Ident); return ok && id.Name == name }
}

func callsMethod(name string) func(ast.Node) bool {
	return func(n ast.Node) bool {
		c, ok := n.(*ast.CallExpr)
		if !ok {
			return false
		}
		s, ok := c.Fun.(*ast.SelectorExpr)
		return ok && s.Sel.Name == name
	}
}

// timers: every `go <pkg>.<Until-like>(callback, period, …)` (or without go) in fn: callback expression and period in ms.
type timer struct {
	cb     ast.Expr
	period int64
}

func timers(f *ast.File, fn *ast.FuncDecl) []timer {
	var res []timer
	ast.Inspect(fn, func(n ast.Node) bool {
		c, ok := n.(*ast.CallExpr)
		if !ok || len(c.Args) < 2 {
			return true
		}
		sel, ok := c.Fun.(*ast.SelectorExpr)
		if !ok || !strings.Contains(sel.Sel.Name, "Until") {
			return true
		}
		res = append(res, timer{cb: c.Args[0], period: evalDur(f, c.Args[1], 0)})
		return true
	})
	return res
}

func main() {
	lib.Main(func(g *lib.Gen) {
		f := g.ParseFile(file)
		fns, _ := loadPkg(g, filepath.Dir(file))
		run := lib.FuncDecl(f, "rateLimiter", "Run")
		if run == nil {
			lib.Fatalf("%s: rateLimiter.Run not found", file)
		}
		isTimeoutPass := usesIdent("ClientHeartBeatTimeout")
		// the unknown pass: reads the heartbeat table AND deletes upstreams that are no longer listed
		var timeoutPeriod, unknownPeriod int64 = -1, -1
		for _, t := range timers(f, run) {
			if reach(t.cb, fns, 4, map[string]bool{}, isTimeoutPass) {
				if timeoutPeriod < 0 || t.period < timeoutPeriod {
					timeoutPeriod = t.period
				}
			}
			if !reach(t.cb, fns, 4, map[string]bool{}, isTimeoutPass) &&
				reach(t.cb, fns, 2, map[string]bool{}, callsMethod("DeleteUpstream")) && reach(t.cb, fns, 2, map[string]bool{}, callsMethod("AllClients")) {
				if unknownPeriod < 0 || t.period < unknownPeriod {
					unknownPeriod = t.period
				}
			}
		}
		if timeoutPeriod < 0 {
			lib.Fatalf("%s: no periodic timer started by Run reaches the code that tests a heartbeat against ClientHeartBeatTimeout", file)
		}
		if unknownPeriod < 0 {
			lib.Fatalf("%s: no periodic timer started by Run reaches the pass that checks stored conditions against the heartbeat table", file)
		}
		if timeoutPeriod%1000000 != 0 || unknownPeriod%1000000 != 0 {
			lib.Fatalf("%s: timer periods are not whole milliseconds", file)
		}
		label := constant.StringVal(g.Const(file, "RateLimitConditionInstanceLabel"))
		var b strings.Builder
		b.WriteString("namespace KG.Gen.C18\n")
		b.WriteString("/-! constants of " + file + " (durations in milliseconds) -/\n")
		fmt.Fprintf(&b, "def clientHeartBeatTimeoutMs : Nat := %s\n", ms(g, "ClientHeartBeatTimeout"))
		fmt.Fprintf(&b, "/-- period of the (fastest) timer started by `Run` whose callback reaches the time-out pass / the unknown pass -/\n")
		fmt.Fprintf(&b, "def timeoutPassPeriodMs : Nat := %d\n", timeoutPeriod/1000000)
		fmt.Fprintf(&b, "def unknownPassPeriodMs : Nat := %d\n", unknownPeriod/1000000)
		fmt.Fprintf(&b, "def instanceLabel : String := %q\n", label)
		b.WriteString("end KG.Gen.C18\n")
		g.Emit("C18.lean", b.String())
	})
}
