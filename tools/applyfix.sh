#!/bin/bash
# tools/applyfix.sh <fixout dir> <finding id> "<commit subject after 'fix: '>"
# applies fix.patch to /repo, runs the pinned baseline, commits, archives demo+notes under /verif/findings/<id>/
set -e
src=$1; id=$2; subj=$3
git -C /repo apply --check $src/fix.patch
git -C /repo apply $src/fix.patch
if ! /verif/tools/baseline.sh; then echo "BASELINE FAILED - reverting"; git -C /repo checkout -- .; exit 1; fi
git -C /repo add -A
git -C /repo commit -q -m "fix: $subj"
sha=$(git -C /repo rev-parse --short HEAD)
mkdir -p /verif/findings/$id
cp $src/*.go $src/NOTES.md $src/fix.patch /verif/findings/$id/ 2>/dev/null || true
for f in /verif/findings/$id/*_test.go; do [ -e "$f" ] && mv "$f" "$f.txt"; done
echo "$sha" > /verif/findings/$id/COMMIT
echo "committed $sha"
